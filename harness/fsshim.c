/* LD_PRELOAD shim: observes and controls the file-system operations SoftHSM's object store makes
 * (open, ftruncate, fflush, fclose, remove/unlink, mkdir, rmdir, fcntl locks, rename) on paths below FSSHIM_ROOT.
 *
 *   log    every operation is appended to FSSHIM_LOG as one ndjson line (sequence number, op, path class, extra)
 *   crash  the process _exit(137)s immediately BEFORE its k-th armed operation (buffered stdio data is lost,
 *          flushed data survives: process death, not power loss)
 *   fault  the k-th armed operation fails with errno (ENOSPC for fflush/ftruncate, EACCES/EIO otherwise)
 *   gate   BEFORE every armed operation the process writes "n op path x" to the descriptor FSSHIM_GATE_OUT and waits
 *          for one byte on FSSHIM_GATE_IN: a coordinator decides which process makes the next file operation (C15)
 *
 * Counting only happens while armed: the driver calls fsshim_arm(mode, k) right before the library call under
 * test and fsshim_disarm() after it (exported symbols, reached through ctypes).  mode: 0 = log only, 1 = crash,
 * 2 = fault, 3 = gate.  fsshim_count() returns the number of armed operations seen so far.
 */
#define _GNU_SOURCE
#include <dlfcn.h>
#include <errno.h>
#include <fcntl.h>
#include <stdarg.h>
#include <stdio.h>
#include <stdio_ext.h>
#include <stdlib.h>
#include <string.h>
#include <sys/stat.h>
#include <sys/types.h>
#include <unistd.h>

static int armed = 0, mode = 0, target = 0, count = 0, hit = 0;
static const char *root = NULL;
static int logfd = -1, gatein = -1, gateout = -1;

static void init(void)
{
	static int done = 0;
	if (done) return;
	done = 1;
	root = getenv("FSSHIM_ROOT");
	const char *lf = getenv("FSSHIM_LOG");
	if (lf) {
		int (*ropen)(const char *, int, ...) = dlsym(RTLD_NEXT, "open");
		logfd = ropen(lf, O_WRONLY | O_APPEND | O_CREAT, 0600);
	}
	if (getenv("FSSHIM_GATE_IN")) gatein = atoi(getenv("FSSHIM_GATE_IN"));
	if (getenv("FSSHIM_GATE_OUT")) gateout = atoi(getenv("FSSHIM_GATE_OUT"));
}

static int below(const char *p)
{
	init();
	return root && p && strncmp(p, root, strlen(root)) == 0;
}

static const char *fdpath(int fd, char *buf, size_t n)
{
	char l[64];
	snprintf(l, sizeof l, "/proc/self/fd/%d", fd);
	ssize_t r = readlink(l, buf, n - 1);
	if (r < 0) return NULL;
	buf[r] = 0;
	return buf;
}

/* returns 1 when the operation must fail (fault mode); never returns in crash mode at the target */
static int gate(const char *op, const char *path, const char *extra)
{
	if (!armed || !below(path)) return 0;
	count++;
	if (mode == 1 && count == target) {
		if (logfd >= 0) {
			char b[700];
			int k = snprintf(b, sizeof b, "{\"n\":%d,\"op\":\"%s\",\"path\":\"%s\",\"x\":\"%s\",\"crash\":true}\n", count, op,
					 path + strlen(root), extra ? extra : "");
			if (write(logfd, b, k)) {}
		}
		_exit(137);
	}
	if (mode == 3 && gatein >= 0 && gateout >= 0) {
		char b[700], c;
		int k = snprintf(b, sizeof b, "%d %s %s %s\n", count, op, path + strlen(root), (extra && *extra) ? extra : "-");
		if (write(gateout, b, k) != k) _exit(138);
		ssize_t r;
		do { r = read(gatein, &c, 1); } while (r < 0 && errno == EINTR);
		if (r != 1) _exit(139);
	}
	int fail = (mode == 2 && count == target);
	if (fail) hit = 1;
	if (logfd >= 0) {
		char b[700];
		int k = snprintf(b, sizeof b, "{\"n\":%d,\"op\":\"%s\",\"path\":\"%s\",\"x\":\"%s\",\"fault\":%s}\n", count, op,
				 path + strlen(root), extra ? extra : "", fail ? "true" : "false");
		if (write(logfd, b, k)) {}
	}
	return fail;
}

void fsshim_arm(int m, int k) { init(); armed = 1; mode = m; target = k; count = 0; hit = 0; }
void fsshim_disarm(void) { armed = 0; }
int fsshim_count(void) { return count; }
int fsshim_hit(void) { return hit; }

int open(const char *path, int flags, ...)
{
	va_list a;
	va_start(a, flags);
	mode_t m = va_arg(a, int);
	va_end(a);
	int (*r)(const char *, int, ...) = dlsym(RTLD_NEXT, "open");
	char x[8];
	snprintf(x, sizeof x, "%s%s", (flags & O_CREAT) ? "C" : "", (flags & O_TRUNC) ? "T" : "");
	if (gate("open", path, x)) { errno = EACCES; return -1; }
	return r(path, flags, m);
}

int open64(const char *path, int flags, ...)
{
	va_list a;
	va_start(a, flags);
	mode_t m = va_arg(a, int);
	va_end(a);
	int (*r)(const char *, int, ...) = dlsym(RTLD_NEXT, "open64");
	char x[8];
	snprintf(x, sizeof x, "%s%s", (flags & O_CREAT) ? "C" : "", (flags & O_TRUNC) ? "T" : "");
	if (gate("open", path, x)) { errno = EACCES; return -1; }
	return r(path, flags, m);
}

int ftruncate(int fd, off_t len)
{
	char b[512];
	const char *p = fdpath(fd, b, sizeof b);
	if (gate("ftruncate", p, "")) { errno = ENOSPC; return -1; }
	return ((int (*)(int, off_t))dlsym(RTLD_NEXT, "ftruncate"))(fd, len);
}

int ftruncate64(int fd, off64_t len)
{
	char b[512];
	const char *p = fdpath(fd, b, sizeof b);
	if (gate("ftruncate", p, "")) { errno = ENOSPC; return -1; }
	return ((int (*)(int, off64_t))dlsym(RTLD_NEXT, "ftruncate64"))(fd, len);
}

int fflush(FILE *f)
{
	int (*r)(FILE *) = dlsym(RTLD_NEXT, "fflush");
	if (f && f != stdout && f != stderr && armed) {
		char b[512], x[32];
		const char *p = fdpath(fileno(f), b, sizeof b);
		/* "w" = buffered bytes are about to reach the file; "n" = nothing buffered */
		snprintf(x, sizeof x, "%s", (__fpending(f) > 0) ? "w" : "n");
		/* a failed flush loses the data for good (disk full): what is buffered is discarded, so that the flush
		 * inside a later fclose() cannot quietly succeed */
		if (gate("fflush", p, x)) { __fpurge(f); errno = ENOSPC; return EOF; }
	}
	return r(f);
}

int fclose(FILE *f)
{
	int (*r)(FILE *) = dlsym(RTLD_NEXT, "fclose");
	if (f && armed) {
		char b[512];
		const char *p = fdpath(fileno(f), b, sizeof b);
		if (gate("fclose", p, "")) { /* closing cannot be refused meaningfully: still close */ }
	}
	return r(f);
}

int remove(const char *path)
{
	if (gate("remove", path, "")) { errno = EACCES; return -1; }
	return ((int (*)(const char *))dlsym(RTLD_NEXT, "remove"))(path);
}

int unlink(const char *path)
{
	if (gate("remove", path, "")) { errno = EACCES; return -1; }
	return ((int (*)(const char *))dlsym(RTLD_NEXT, "unlink"))(path);
}

int mkdir(const char *path, mode_t m)
{
	if (gate("mkdir", path, "")) { errno = EACCES; return -1; }
	return ((int (*)(const char *, mode_t))dlsym(RTLD_NEXT, "mkdir"))(path, m);
}

int rmdir(const char *path)
{
	if (gate("rmdir", path, "")) { errno = EACCES; return -1; }
	return ((int (*)(const char *))dlsym(RTLD_NEXT, "rmdir"))(path);
}

int rename(const char *a, const char *b)
{
	if (gate("rename", a, "")) { errno = EACCES; return -1; }
	return ((int (*)(const char *, const char *))dlsym(RTLD_NEXT, "rename"))(a, b);
}

int fcntl(int fd, int cmd, ...)
{
	va_list a;
	va_start(a, cmd);
	void *arg = va_arg(a, void *);
	va_end(a);
	int (*r)(int, int, ...) = dlsym(RTLD_NEXT, "fcntl");
	if (armed && (cmd == F_SETLK || cmd == F_SETLKW)) {
		struct flock *fl = arg;
		char b[512];
		const char *p = fdpath(fd, b, sizeof b);
		const char *t = fl->l_type == F_UNLCK ? "unlock" : (fl->l_type == F_WRLCK ? "wrlock" : "rdlock");
		/* lock operations are logged and counted (a crash may fall before them) but never made to fail */
		int sm = mode;
		if (mode == 2) mode = 0;
		gate(t, p, "");
		mode = sm;
	}
	return r(fd, cmd, arg);
}
