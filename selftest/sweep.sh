#!/bin/sh
# usage: selftest/sweep.sh [tier] [seed-id ...]   runs every seeded change against the check of its property (serially:
# each run patches /repo and reverts it) and writes selftest/RESULTS.md
T=${1:-quick}; shift 2>/dev/null
cd /verif || exit 2
SEEDS="$*"
[ -z "$SEEDS" ] && SEEDS=$(ls seeded | sort)
OUT=selftest/RESULTS.md
TMP=/tmp/sweep-$$.txt
: > $TMP
for S in $SEEDS; do
  P=$(python3 -c "import json;print(json.load(open('seeded/$S/meta.json'))['property'])")
  t0=$(date +%s)
  L=$(selftest/run_seed.sh $S $P $T 2>&1 | tail -1)
  t1=$(date +%s)
  echo "$L [$((t1-t0))s]" | tee -a $TMP
done
{
  echo "# Seeded changes against the checks ($T tier, $(date -u +%Y-%m-%dT%H:%MZ))"
  echo
  echo "Each line: seed, property whose check was run, verdict (DETECTED = the check exited 1 with VIOLATION lines,"
  echo "MISSED = it passed, BROKEN = the machinery failed), first violation, wall time. /repo was reverted after every run."
  echo
  echo '```'
  cat $TMP
  echo '```'
  echo
  echo "detected: $(grep -c DETECTED $TMP) / $(wc -l < $TMP)"
} > $OUT
rm -f $TMP
