#!/bin/sh
# usage: run_seed.sh <seed-id> <property> [tier]   applies seeded/<id>/patch.diff to /repo, runs the check, reverts.
# prints: <seed> <property> DETECTED|MISSED|BROKEN (rc)
S=$1; P=$2; T=${3:-quick}
cd /repo || exit 2
git diff --quiet || { echo "/repo is dirty"; exit 2; }
git apply /verif/seeded/$S/patch.diff || exit 2
cd /verif
# the committed evidence describes the unchanged tree: keep it
cp evidence/$P.json /tmp/seedrun-evidence-$P.json 2>/dev/null
timeout 3000 bin/check $P --tier $T > /tmp/seedrun-$S-$P.log 2>&1
rc=$?
[ -f /tmp/seedrun-evidence-$P.json ] && mv /tmp/seedrun-evidence-$P.json evidence/$P.json
cd /repo && git checkout -- . 
case $rc in 1) r=DETECTED;; 0) r=MISSED;; *) r=BROKEN;; esac
echo "$S $P $T $r (rc=$rc) $(grep -c VIOLATION /tmp/seedrun-$S-$P.log) violation lines; $(grep -m1 'violation:' /tmp/seedrun-$S-$P.log | cut -c1-300)"
