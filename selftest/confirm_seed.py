#!/usr/bin/env python3
"""Confirms a seeded change delivered by a sub-agent, in that agent's scratch worktree:
   1. the patch applies and the tree builds, 2. the repository's own tests give the baseline result
   (no test of BASELINE.json's stable_pass list fails), 3. the demonstration fails with the change and
   passes without it.  On success the seed is stored as /verif/seeded/<id>/ (patch.diff, demo, meta.json).

usage: confirm_seed.py <worktree> <outdir-of-agent>/<A|B> <seed-id> <property>
"""
import json
import os
import re
import shutil
import subprocess
import sys

wt, src, sid, prop = sys.argv[1:5]
out = {"id": sid, "property": prop}


def sh(cmd, **kw):
    return subprocess.run(cmd, shell=True, stdout=subprocess.PIPE, stderr=subprocess.STDOUT, **kw)


def failing_cases(log):
    names = set()
    for m in re.finditer(r"^\s*\d+\) test: (\S+) \((?:F|E)\)", log, re.M):
        names.add(m.group(1))
    return names


base = json.load(open("/root/.vp/BASELINE.json"))["stable_pass"]
stable = set()
for n in base:
    parts = n.split("::")
    stable.add("::".join(parts[1:]).split(" with parameter")[0])

sh("git -C %s checkout -- src" % wt)
r = sh("git -C %s apply %s/patch.diff" % (wt, src))
if r.returncode:
    print("patch does not apply:", r.stdout.decode())
    sys.exit(1)
try:
    r = sh("cmake --build %s/_build -j12" % wt)
    out["builds"] = r.returncode == 0
    if r.returncode:
        print(r.stdout.decode()[-2000:])
        sys.exit(1)
    r = sh("ctest --test-dir %s/_build -j8 --timeout 900 --output-on-failure" % wt)
    log = r.stdout.decode(errors="replace")
    fails = failing_cases(log)
    bad = sorted(f for f in fails if f.split(" with parameter")[0] in stable)
    out["ctest_failing_cases"] = sorted(fails)
    out["baseline_tests_broken"] = bad
    m = re.search(r"(\d+)% tests passed, (\d+) tests failed out of (\d+)", log)
    out["ctest_summary"] = m.group(0) if m else "?"
    lib = "%s/_build/src/lib/libsofthsm2.so" % wt
    shutil.copy(lib, "/tmp/wt/lib-%s.so" % sid)
    env = dict(os.environ, P11_INCLUDE="/repo/src/lib/pkcs11")
    if os.path.exists(os.path.join(src, "demo")):
        os.remove(os.path.join(src, "demo"))
    r1 = sh("sh %s/run.sh /tmp/wt/lib-%s.so" % (src, sid), env=env, timeout=900)
    orig = os.path.join(os.path.dirname(src.rstrip("/")), "lib-orig.so")
    r2 = sh("sh %s/run.sh %s" % (src, orig), env=env, timeout=900)
    out["demo_with_change_rc"] = r1.returncode
    out["demo_without_change_rc"] = r2.returncode
    out["demo_with_change_tail"] = r1.stdout.decode(errors="replace")[-600:]
finally:
    sh("git -C %s checkout -- src" % wt)
    if os.path.exists("/tmp/wt/lib-%s.so" % sid):
        os.remove("/tmp/wt/lib-%s.so" % sid)
ok = out["builds"] and not out["baseline_tests_broken"] and out["demo_with_change_rc"] != 0 and out["demo_without_change_rc"] == 0
out["confirmed"] = ok
print(json.dumps(out, indent=1))
if ok:
    d = "/verif/seeded/%s" % sid
    os.makedirs(d, exist_ok=True)
    for f in os.listdir(src):
        if f in ("patch.diff", "run.sh", "notes.md") or f.startswith("demo.") :
            shutil.copy(os.path.join(src, f), d)
    meta = dict(id=sid, property=prop, confirmed_by="selftest/confirm_seed.py in a scratch worktree",
                builds=True, baseline_tests_broken=[], ctest=out["ctest_summary"],
                ctest_failing_cases_same_as_unchanged_tree=out["ctest_failing_cases"],
                demo_with_change_rc=out["demo_with_change_rc"], demo_without_change_rc=0,
                needs="see notes.md", detected_by=[])
    json.dump(meta, open(os.path.join(d, "meta.json"), "w"), indent=1)
sys.exit(0 if ok else 1)
