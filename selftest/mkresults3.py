#!/usr/bin/env python3
"""Assembles selftest/RESULTS.md for the third session from
   - the logs of selftest/try_seed.sh (seed applied to a scratch worktree, check run with VERIF_REPO): /tmp/wt/try-<seed>-<check><tag>.log
     tag -base = the checks as they stood at the start of the session, -reg = rounds A/B against the final checks
   - the sweep log of selftest/run_seed.sh (seed applied to /repo itself): lines "<seed> <check> quick DETECTED|MISSED ..."
usage: mkresults3.py <sweep-log-of-round-C> """
import glob
import os
import re
import sys
import time


def verdict(path):
    last = ""
    first = ""
    for l in open(path, errors="replace"):
        if l.startswith(("PASS ", "FAIL ", "BROKEN ")):
            last = l.split()[0]
        if not first and "violation:" in l:
            first = re.sub(r"^\[C\d\d\s+[\d.]+s\] violation: ", "", l.strip())
    return {"PASS": "MISSED", "FAIL": "DETECTED", "BROKEN": "BROKEN"}.get(last, "?"), first


tries = {}
for p in glob.glob("/tmp/wt/try-S-*.log"):
    m = re.match(r"try-(S-C\d\d-[ABCDE])-(C\d\d)(-\w+)?\.log", os.path.basename(p))
    if m:
        tries[(m.group(1), m.group(2), m.group(3) or "")] = verdict(p)
official = {}
if len(sys.argv) > 1:
    for l in open(sys.argv[1]):
        m = re.match(r"(S-C\d\d-C) (C\d\d) quick (\w+) \(rc=(\d+)\) (\d+) violation lines; (.*?)(\[(\d+)s\])?$", l.rstrip())
        if m:
            official[(m.group(1), m.group(2))] = (m.group(3), re.sub(r"^\[C\d\d\s+[\d.]+s\] violation: ", "", m.group(6)), m.group(8) or "?")
with open("/verif/selftest/RESULTS.md", "w") as f:
    f.write("# Seeded changes against the checks (quick tier, %s)\n\n" % time.strftime("%Y-%m-%dT%H:%MZ", time.gmtime()))
    f.write("DETECTED = the check exited 1 with VIOLATION lines, MISSED = it passed, BROKEN = the machinery failed.\n\n")
    f.write("## Round C (third session): 19 changes that need something specific to manifest\n\n"
            "`at session start`: the checks as committed before the session (f3c65aa + the template clause), the seed applied to a\n"
            "scratch worktree (`selftest/try_seed.sh`). `final`: the committed checks, the seed applied to /repo itself with\n"
            "`git apply`, reverted afterwards (`selftest/run_seed.sh`). What was strengthened for each miss: DESIGN.md section 0.1.\n\n"
            "| seed | check | at session start | final | first violation (final) | time |\n|---|---|---|---|---|---|\n")
    seeds = sorted(set(k[0] for k in tries if k[0].endswith("-C")) | set(k[0] for k in official))
    nd = 0
    for s in seeds:
        prop = "C" + s[3:5]
        base = tries.get((s, prop, "-base"), ("?", ""))[0]
        fin = official.get((s, prop))
        if fin is None:
            # fall back to the latest worktree run
            cands = [tries[k] for k in sorted(tries) if k[0] == s and k[1] == prop and k[2] not in ("-base",)]
            fin = (cands[-1][0] + " (worktree run)", cands[-1][1], "?") if cands else ("?", "", "?")
        nd += fin[0].startswith("DETECTED")
        f.write("| %s | %s | %s | %s | %s | %s s |\n" % (s, prop, base, fin[0], fin[1].replace("|", "/")[:140], fin[2]))
        for k in sorted(tries):
            if k[0] == s and k[1] != prop:
                f.write("| %s | %s | | %s (worktree run) | %s | |\n" % (s, k[1], tries[k][0], tries[k][1].replace("|", "/")[:140]))
    f.write("\nfinal, own property: detected %d / %d\n\n" % (nd, len(seeds)))
    f.write("## Round D (ten more changes)\n\n"
            "Seed applied to a scratch worktree (`selftest/try_seed.sh`). `after round C`: the checks as committed after round C;\n"
            "`final`: the committed checks.\n\n| seed | check | after round C | final | first violation (final) |\n|---|---|---|---|---|\n")
    dseeds = sorted(set(k[0] for k in tries if k[0].endswith("-D")))
    ndd = 0
    for s in dseeds:
        prop = "C" + s[3:5]
        base = tries.get((s, prop, "-base"), ("?", ""))[0]
        fin = tries.get((s, prop, "-new2")) or tries.get((s, prop, "-new")) or ("?", "")
        ndd += fin[0] == "DETECTED"
        f.write("| %s | %s | %s | %s | %s |\n" % (s, prop, base, fin[0], fin[1].replace("|", "/")[:140]))
    f.write("\nfinal: detected %d / %d\n\n" % (ndd, len(dseeds)))
    f.write("## Round E (five more changes, last hours of the third session)\n\n"
            "As round D. `after round D`: the checks as committed after round D; `final`: the committed checks.\n\n"
            "| seed | check | after round D | final | first violation (final) |\n|---|---|---|---|---|\n")
    eseeds = sorted(set(k[0] for k in tries if k[0].endswith("-E")))
    nde = 0
    for s in eseeds:
        prop = "C" + s[3:5]
        base = tries.get((s, prop, "-base"), ("?", ""))[0]
        fin = tries.get((s, prop, "-new2")) or tries.get((s, prop, "-new")) or ("?", "")
        nde += fin[0] == "DETECTED"
        f.write("| %s | %s | %s | %s | %s |\n" % (s, prop, base, fin[0], fin[1].replace("|", "/")[:140]))
    f.write("\nfinal: detected %d / %d\n\n" % (nde, len(eseeds)))
    f.write("## Rounds A and B (38 changes) against the final checks\n\n"
            "Seed applied to a scratch worktree, check run with `VERIF_REPO` (`selftest/try_seed.sh`); the sweep of the second\n"
            "session (seed applied to /repo) had detected 38 / 38.\n\n| seed | check | verdict | first violation |\n|---|---|---|---|\n")
    reg = sorted(k for k in tries if k[2] == "-reg")
    nr = 0
    for k in reg:
        v = tries[k]
        nr += v[0] == "DETECTED"
        f.write("| %s | %s | %s | %s |\n" % (k[0], k[1], v[0], v[1].replace("|", "/")[:140]))
    f.write("\ndetected: %d / %d\n" % (nr, len(reg)))
print("ok")
