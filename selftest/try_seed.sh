#!/bin/sh
# usage: try_seed.sh <seed-id> <property-of-the-worktree> [check-property] [tier]
# Development counterpart of run_seed.sh that leaves /repo alone: applies seeded/<id>/patch.diff to the scratch worktree
# /tmp/wt/<property> and runs the check against it (VERIF_REPO, own build cache and evidence directory), so that several
# seeds can be tried side by side.  prints: <seed> <check> <tier> DETECTED|MISSED|BROKEN
S=$1; W=$2; P=${3:-$2}; T=${4:-quick}
WT=/tmp/wt/$W
git -C $WT checkout -- src || exit 2
git -C $WT apply /verif/seeded/$S/patch.diff || exit 2
mkdir -p /dev/shm/devev-$S
cd ${VERIF_ROOT:-/verif}
VERIF_REPO=$WT VERIF_CACHE=/var/tmp/vc-$S VERIF_EVIDENCE=/dev/shm/devev-$S timeout 3000 bin/check $P --tier $T > /tmp/wt/try-$S-$P${VERIF_TAG}.log 2>&1
rc=$?
git -C $WT checkout -- src
rm -rf /var/tmp/vc-$S /dev/shm/devev-$S
case $rc in 1) r=DETECTED;; 0) r=MISSED;; *) r=BROKEN;; esac
echo "$S $P $T $r (rc=$rc) $(grep -c VIOLATION /tmp/wt/try-$S-$P${VERIF_TAG}.log) violation lines; $(grep -m1 'violation:' /tmp/wt/try-$S-$P${VERIF_TAG}.log | cut -c1-300)"
