#!/usr/bin/env python3
"""Assembles selftest/RESULTS.md from sweep logs (one line per seed as printed by selftest/run_seed.sh)."""
import re
import sys
import time

lines = []
for p in sys.argv[1:]:
    for l in open(p):
        if re.match(r"S-C\d\d-[AB] C\d\d ", l):
            lines.append(l.rstrip())
seen = {}
for l in lines:
    seen[(l.split()[0], l.split()[1])] = l
rows = sorted(seen.values())
det = sum(1 for r in rows if " DETECTED " in r)
with open("/verif/selftest/RESULTS.md", "w") as f:
    f.write("# Seeded changes against the checks (quick tier, %s)\n\n" % time.strftime("%Y-%m-%dT%H:%MZ", time.gmtime()))
    f.write("Each line: seed, property whose check was run, verdict (DETECTED = the check exited 1 with VIOLATION lines, MISSED = it\n"
            "passed, BROKEN = the machinery failed), the first violation and the wall time. The change was applied to /repo with\n"
            "`git apply`, the check run, and /repo reverted (`selftest/run_seed.sh`). Checks rebuild the library from /repo.\n\n")
    f.write("| seed | check | verdict | first violation | time |\n|---|---|---|---|---|\n")
    for r in rows:
        m = re.match(r"(\S+) (\S+) (\S+) (\S+) \(rc=(\d+)\) (\d+) violation lines; (.*?)(\[(\d+)s\])?$", r)
        if not m:
            f.write("| %s |\n" % r)
            continue
        viol = re.sub(r"^\[C\d\d\s+[\d.]+s\] violation: ", "", m.group(7)).replace("|", "/")[:150]
        f.write("| %s | %s | %s | %s | %s s |\n" % (m.group(1), m.group(2), m.group(4), viol, m.group(9) or "?"))
    f.write("\ndetected: %d / %d\n" % (det, len(rows)))
    f.write("\nCross-detections seen while strengthening the checks (not part of the sweep): S-C13-A by C09, S-C10-B and S-C20-A by\n"
            "C13, S-C14-A/B by C04, S-C20-B by C04 and C14.\n")
print(det, len(rows))
