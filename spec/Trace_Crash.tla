----------------------------- MODULE Trace_Crash -----------------------------
(* Trace specification for the crash exploration (driver vf/drv_crash.py).     *)
(* A Log event carries the operation sequence of one writing call and the      *)
(* states old / new; it must obey the protocol of StoreFS.  Every Crash event  *)
(* (death before operation k, then recovery in a fresh process) must get a     *)
(* verdict: "ok" under the required model, or a deviation that is listed in    *)
(* Dev - printed, so that the check can name the known finding it used.        *)
EXTENDS StoreFS, Json, IOUtils
VARIABLES l, cur
T == ndJsonDeserialize(IOEnv.TRACE)
E == T[l]
tvars == <<l, cur>>
IsEv(name) == l <= Len(T) /\ E.e = name /\ l' = l + 1

TLog   == IsEv("Log") /\ ProtocolOK(E.ops) /\ cur' = E
TCrash == /\ IsEv("Crash") /\ cur # <<>> /\ E.scenario = cur.scenario
          /\ LET v == Verdict(cur.ops, E.k, ToSet(cur.newfiles), cur.old, cur.new, E.rec) IN
             /\ v = "ok" \/ v \in Dev
             /\ (v # "ok" => PrintT(<<"DEV", v, E.scenario, E.k>>))
          /\ UNCHANGED cur
TInit == l = 1 /\ cur = <<>> /\ TLCSet(1, 1)
TNext == TLog \/ TCrash
TSpec == TInit /\ [][TNext]_tvars
TrackMax == IF l > TLCGet(1) THEN TLCSet(1, l) ELSE TRUE
TraceAccepted == PrintT(<<"MAXL", TLCGet(1)>>)
=============================================================================
