----------------------------- MODULE Trace_Crash -----------------------------
(* Trace specification for the crash exploration (driver vf/drv_crash.py).     *)
(* A Log event carries the operation sequence of one writing call and the      *)
(* states old / new; it must obey the protocol of StoreFS.  Every Crash event  *)
(* (death before operation k, then recovery in a fresh process) must get a     *)
(* verdict: "ok" under the required model, or a deviation that is listed in    *)
(* Dev - printed, so that the check can name the known finding it used.        *)
EXTENDS StoreFS, Json, IOUtils
CONSTANT Judge
VARIABLES l, cur
T == ndJsonDeserialize(IOEnv.TRACE)
E == T[l]
tvars == <<l, cur>>
IsEv(name) == l <= Len(T) /\ E.e = name /\ l' = l + 1

TLog   == IsEv("Log") /\ ProtocolOK(E.ops) /\ cur' = E
          /\ (("ro" \in DOMAIN E /\ E.ro) => ReadOnlyOK(E.ops) /\ E.old = E.new)
TCrash == /\ IsEv("Crash") /\ cur # <<>> /\ E.scenario = cur.scenario
          /\ LET v == Verdict(cur.ops, E.k, ToSet(cur.newfiles), cur.old, cur.new, E.rec) IN
             /\ v = "ok" \/ v \in Dev
             /\ (v # "ok" => PrintT(<<"DEV", v, E.scenario, E.k>>))
          /\ UNCHANGED cur
\* A Fault event: operation k of the call FAILED (disk full on a flush, failed truncate, open or unlink) and the call
\* went on.  C05: a call that could not persist its effect must not return CKR_OK (rv = OK => a fresh process sees the
\* new state).  C09: a call that returned an error has changed nothing (a fresh process sees the old state).
\* Judge says which of the two clauses this run decides ("ok", "err" or "both").
Stored  == \/ E.rec = cur.new
           \/ ("OkButNotStored" \in Dev /\ PrintT(<<"DEV", "OkButNotStored", E.scenario, E.k>>))
Nothing == \/ E.rec = cur.old
           \/ ("FaultNotAtomic" \in Dev /\ PrintT(<<"DEV", "FaultNotAtomic", E.scenario, E.k>>))
TFault == /\ IsEv("Fault") /\ cur # <<>> /\ E.scenario = cur.scenario /\ UNCHANGED cur
          /\ \/ ~E.hit
             \/ (E.hit /\ E.rv = "OK" /\ (Judge \in {"ok", "both"} => Stored))
             \/ (E.hit /\ E.rv # "OK" /\ (Judge \in {"err", "both"} => Nothing))
\* A Torn event: the file of the object that was being created holds the first L bytes of what the call would have written.
\* A cut inside an attribute record can only be a damaged file: the object must be ABSENT (everything else intact).  A cut
\* between two records is what the as-built multi-step creation leaves anyway (deviations EmptyObject / PartialCreate).
TTorn == /\ IsEv("Torn") /\ cur # <<>> /\ E.scenario = cur.scenario /\ UNCHANGED cur
         /\ LET v == IF Required(cur.old, cur.new, E.rec) THEN "ok"
                     ELSE IF E.boundary /\ WithEmptyObject(cur.old, cur.new, E.rec) THEN "EmptyObject"
                     ELSE IF E.boundary /\ WithPartialCreate(cur.old, cur.new, E.rec) THEN "PartialCreate"
                     ELSE "none" IN
            /\ v = "ok" \/ v \in Dev
            /\ (v # "ok" => PrintT(<<"DEV", v, E.scenario, E.L>>))
TInit == l = 1 /\ cur = <<>> /\ TLCSet(1, 1)
TNext == TLog \/ TCrash \/ TFault \/ TTorn
TSpec == TInit /\ [][TNext]_tvars
TrackMax == IF l > TLCGet(1) THEN TLCSet(1, l) ELSE TRUE
TraceAccepted == PrintT(<<"MAXL", TLCGet(1)>>)
=============================================================================
