---------------------------- MODULE Trace_ConcTok ----------------------------
(* Trace specification for ConcTok (driver vf/drv_conc.py, the "login" programs): begin and end of every call of   *)
(* every thread in real-time order.  The instant at which a call takes effect is not in the trace: TLin is a silent *)
(* step, TLC tries every placement; the trace is accepted iff some placement explains all results.                  *)
EXTENDS ConcTok, Json, IOUtils
VARIABLES l, bn
T == ndJsonDeserialize(IOEnv.TRACE)
E == T[l]
tvars == <<vars, l, bn>>
IsEv(name) == l <= Len(T) /\ E.e = name /\ l' = l + 1
Has(f) == f \in DOMAIN E
Arg(f) == IF Has(f) THEN E[f] ELSE ""

TReset == IsEv("Reset") /\ login' = "none" /\ nsess' = 0 /\ pin' = InitPin /\ open' = [t \in Threads |-> FALSE] /\ ro' = [t \in Threads |-> FALSE]
          /\ pend' = [t \in Threads |-> Idle] /\ nkey' = 0 /\ nracy' = 0 /\ tlab' = "orig" /\ trisk' = FALSE /\ skey' = 0 /\ bn' = E.b
TInv   == IsEv("Inv") /\ Inv(E.t, E.c, Arg("a"), Arg("b")) /\ UNCHANGED bn
TLin   == l <= Len(T) /\ (\E t \in Threads : Lin(t)) /\ UNCHANGED <<l, bn>>
TRet   == IsEv("Ret") /\ Ret(E.t, E.c, E.rv, Arg("st")) /\ UNCHANGED bn
          /\ (PurgedByLogout(E.t, E.c, E.rv) => PrintT(<<"DEV", bn, "LogoutSplit">>))
          /\ (BusyRefused(E.t, E.c, E.rv) => PrintT(<<"DEV", bn, IF E.c = "tget" THEN "DirtyRead" ELSE "TransactionBusy">>))
          /\ (E.c = "tget" /\ E.rv = "OK" /\ Arg("st") # tlab => PrintT(<<"DEV", bn, "DirtyRead">>))
          /\ (KeyLost(E.c, E.rv) => PrintT(<<"DEV", bn, "TornWrite">>))
TFinal == IsEv("Final") /\ Final(E.st, E.pin, E.nkeys, E.bad, E.plain, IF Has("lab") THEN E.lab ELSE tlab) /\ UNCHANGED <<vars, bn>>
          /\ (Has("lab") /\ E.lab # tlab => PrintT(<<"DEV", bn, "TornWrite">>))
          /\ (E.bad > 0 \/ E.nkeys # nkey => PrintT(<<"DEV", bn, "LogoutSplit">>))

TInit == Init /\ l = 1 /\ bn = 0 /\ TLCSet(1, 1)
TNext == TReset \/ TInv \/ TLin \/ TRet \/ TFinal
TSpec == TInit /\ [][TNext]_tvars
TrackMax == IF l > TLCGet(1) THEN TLCSet(1, l) ELSE TRUE
TraceAccepted == PrintT(<<"MAXL", TLCGet(1)>>)
=============================================================================
