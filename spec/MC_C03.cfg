SPECIFICATION Spec
CONSTANTS
  Tokens = {"t1", "t2"}
  Pins = {"P1", "P2", "P3", "short"}
  InitSoPin = "P1"
  InitUserPin = "P2"
  Labels = {"a"}
  Acts = {"sess", "pin", "stale"}
  MaxH = 3
  MaxO = 0
  LoginPins = {"P1", "P2", "P3"}
VIEW View
INVARIANTS TypeOK NoROwithSO PublicIfNoSession HandlesDisjoint HandlesIssued
PROPERTIES NeverReissued StableDenotation FailedCallChangesNothing LoginOnlyFromPublicWithRightPin IssuedMonotone
CHECK_DEADLOCK FALSE
