------------------------------ MODULE Trace_MPF ------------------------------
(* Trace specification for StoreMP (coordinator vf/drv_mpf.py): two or three REAL processes make their file      *)
(* operations in the order a TLC behaviour of StoreMP prescribes (the LD_PRELOAD shim in gate mode releases one  *)
(* group of operations at a time).  Every event is one StoreMP action; the logged return value and the attribute *)
(* values a process reads are bound to the action's result.  Reload / Recreate are the sets of choices the trace *)
(* may use: {TRUE} / {FALSE} is the required behaviour; a known finding adds the as-built choice.               *)
EXTENDS StoreMP, Json, IOUtils
VARIABLES l, bn          \* position in the trace; number of the execution
T == ndJsonDeserialize(IOEnv.TRACE)
E == T[l]
tvars == <<vars, l, bn>>
IsEv(name) == l <= Len(T) /\ E.e = name /\ l' = l + 1
Cls(x) == IF x = "OK" THEN "OK" ELSE IF x = "OBJECT_HANDLE_INVALID" THEN "INV" ELSE "ERR"
\* the step ended the call (rv logged) or not (rv = "")
RvOK(p) == IF E.rv = "" THEN pc'[p] # "idle"
           ELSE pc'[p] = "idle" /\ (IF out'[3] = "ERR" THEN Cls(E.rv) # "OK" ELSE Cls(E.rv) = out'[3])
Vals == <<E.vals[1], E.vals[2], E.vals[3]>>

TReset == IsEv("Reset") /\ disk' = [gen |-> 10, attrs |-> Zero, e |-> FALSE, x |-> TRUE, ino |-> 1, lk |-> TRUE]
          /\ objW' = 0 /\ txLock' = 0 /\ cache' = [p \in Procs |-> [gen |-> 10, attrs |-> Zero, wino |-> 0]]
          /\ pc' = [p \in Procs |-> "idle"] /\ kind' = [p \in Procs |-> "none"] /\ has' = [p \in Procs |-> TRUE]
          /\ todo' = [p \in Procs |-> NCalls] /\ done' = [p \in Procs |-> 0]
          /\ blind' = [p \in Procs |-> FALSE]
          /\ committed' = Zero /\ destroyed' = FALSE /\ out' = NoOut /\ crashed' = FALSE
          /\ bn' = E.b
Keep == UNCHANGED bn
\* a candidate use of a deviation is printed (the branch may still die; the check confirms each candidate)
Dev(name) == PrintT(<<"DEV", bn, name>>) /\ UNCHANGED bn
TBegin == IsEv("Begin") /\ MBegin(E.p, E.k) /\ Keep
TStep  == IsEv("S") /\ LET p == E.p IN
            /\ \/ E.a = "refresh"  /\ MRefresh(p) /\ Keep
               \* a deviation is recorded where the as-built choice makes a difference
               \/ E.a = "txlock"   /\ \E r \in BOOLEAN : MTxLock(p, r) /\ IF ~r /\ disk.x /\ disk.gen # cache[p].gen
                                                                          THEN Dev("StaleCommit") ELSE Keep
               \/ E.a = "wlock"    /\ \E c \in BOOLEAN : MWLock(p, c) /\ IF c /\ ~disk.x THEN Dev("Resurrect") ELSE Keep
               \/ E.a = "trunc"    /\ MTrunc(p) /\ Keep
               \/ E.a = "flush"    /\ MFlush(p) /\ Keep
               \/ E.a = "txunlock" /\ MTxUnlock(p) /\ Keep
               \/ E.a = "rm"       /\ MRm(p) /\ Keep
               \/ E.a = "rmlock"   /\ MRmLock(p) /\ Keep
            /\ RvOK(p)
TGet   == IsEv("Get") /\ Keep /\ MGet(E.p) /\ out'[3] = Cls(E.rv) /\ (E.rv = "OK" => out'[4] = Vals)
TFind  == IsEv("Find") /\ Keep /\ MFind(E.p) /\ E.rv = "OK" /\ E.n = (IF out'[3] = "found" THEN 1 ELSE 0)
          /\ (E.n = 1 => out'[4] = Vals)
\* what a process started afterwards sees is the disk
TFresh == IsEv("Fresh") /\ Quiescent /\ E.n = (IF disk.x THEN 1 ELSE 0) /\ (E.n = 1 => ~disk.e /\ disk.attrs = Vals)
          /\ UNCHANGED vars /\ Keep

TInit == Init /\ l = 1 /\ bn = 0 /\ TLCSet(1, 1)
TNext == TReset \/ TBegin \/ TStep \/ TGet \/ TFind \/ TFresh
TSpec == TInit /\ [][TNext]_tvars
TrackMax == IF l > TLCGet(1) THEN TLCSet(1, l) ELSE TRUE
TraceAccepted == PrintT(<<"MAXL", TLCGet(1)>>)
=============================================================================
