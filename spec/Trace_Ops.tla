------------------------------ MODULE Trace_Ops ------------------------------
(* Trace specification for P11Ops (driver vf/drv_ops.py).  Every call made on *)
(* the library - including the driver's own preliminary length queries - is   *)
(* one event; the action P11Ops.Call accepts the logged outcome only if it    *)
(* obeys the output-length protocol in the current bookkeeping state.         *)
EXTENDS P11Ops, Json, IOUtils
VARIABLE l
T == ndJsonDeserialize(IOEnv.TRACE)
E == T[l]
tvars == <<vars, l>>
IsEv(name) == l <= Len(T) /\ E.e = name /\ l' = l + 1
Norm(x) == IF x \in {"OK", "BUFFER_TOO_SMALL", "OPERATION_NOT_INITIALIZED", "OPERATION_ACTIVE"} THEN x ELSE "ERR"

TReset == IsEv("Reset") /\ ses' = [s \in Sessions |-> Idle] /\ rv' = "OK"
TInit  == IsEv("MInit") /\ InitOp(E.s, E.k, ModeTable[E.m], E.rv = "OK") /\ Norm(rv') = Norm(E.rv)
\* guard: the bytes behind the announced buffer and behind the reported length are untouched
\* val / fedn: see P11Ops ("na" / -1 where the driver has no reference for the mode)
TCall  == IsEv("Call") /\ E.guard
          /\ Call(E.s, E.fn, E.n, E.a, [rv |-> Norm(E.rv), L |-> E.L, w |-> E.w,
                                       val |-> IF "val" \in DOMAIN E THEN E.val ELSE "na",
                                       fedn |-> IF "fedn" \in DOMAIN E THEN E.fedn ELSE 0 - 1])

TInit0 == Init /\ l = 1 /\ TLCSet(1, 1)
TNext == TReset \/ TInit \/ TCall
TSpec == TInit0 /\ [][TNext]_tvars
TrackMax == IF l > TLCGet(1) THEN TLCSet(1, l) ELSE TRUE
TraceAccepted == PrintT(<<"MAXL", TLCGet(1)>>)
=============================================================================
