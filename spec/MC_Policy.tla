------------------------------ MODULE MC_Policy ------------------------------
(* Bounded instance of P11Policy.  The template sets are constants of the     *)
(* configuration; every transition of the graph becomes one implementation    *)
(* test (per concrete key class).                                             *)
EXTENDS P11Policy
CONSTANTS MaxObj, Mechs, Acts, Level

\* template sets (TLC configuration files cannot hold tuples, so they live here; Level selects the size)
kv(a, v) == <<a, v>>
SE(s, e) == <<kv("S", s), kv("E", e)>>
GenT == { SE(TRUE, FALSE), SE(FALSE, TRUE), SE(TRUE, TRUE), SE(FALSE, FALSE) }
        \cup (IF Level = "small" THEN {} ELSE
              { SE(FALSE, TRUE) \o <<kv("W", TRUE)>>, SE(FALSE, TRUE) \o <<kv("M", FALSE)>>,
                SE(TRUE, TRUE) \o <<kv("C", FALSE), kv("D", FALSE)>>,
                SE(FALSE, TRUE) \o <<kv("L", TRUE)>>, <<kv("G", "gen")>> \o SE(FALSE, TRUE),
                SE(FALSE, TRUE) \o <<kv("T", TRUE)>>, SE(FALSE, TRUE) \o <<kv("P", TRUE)>> })
ImpT == { SE(TRUE, FALSE), SE(FALSE, TRUE) }
        \cup (IF Level = "small" THEN {} ELSE
              { SE(FALSE, TRUE) \o <<kv("AS", TRUE)>>, <<kv("NE", TRUE)>> \o SE(TRUE, FALSE),
                SE(FALSE, TRUE) \o <<kv("L", TRUE)>>, SE(TRUE, TRUE) \o <<kv("W", TRUE)>> })
DerT == { SE(FALSE, TRUE), SE(TRUE, FALSE) } \cup (IF Level = "small" THEN {} ELSE { SE(TRUE, TRUE), SE(FALSE, FALSE) })
        \* the history attributes cannot be supplied to C_DeriveKey either
        \cup { SE(FALSE, TRUE) \o <<kv("G", "gen")>>, <<kv("L", TRUE)>> \o SE(FALSE, TRUE), SE(TRUE, FALSE) \o <<kv("AS", TRUE)>>,
               SE(FALSE, TRUE) \o <<kv("NE", TRUE)>> }
SetT == { <<kv("S", TRUE)>>, <<kv("S", FALSE)>>, <<kv("E", FALSE)>>, <<kv("E", TRUE)>>, <<kv("W", TRUE)>>, <<kv("W", FALSE)>> }
        \cup (IF Level = "small" THEN {} ELSE
              { <<kv("M", TRUE)>>, <<kv("M", FALSE)>>, <<kv("C", TRUE)>>, <<kv("D", FALSE)>>, <<kv("T", TRUE)>>, <<kv("L", FALSE)>>,
                <<kv("AS", FALSE)>>, <<kv("NE", FALSE)>>, <<kv("G", "none")>>, <<kv("P", TRUE)>>,
                <<kv("S", TRUE), kv("E", TRUE)>>, <<kv("E", TRUE), kv("S", TRUE)>>, <<kv("W", TRUE), kv("L", TRUE)>>,
                <<kv("L", TRUE), kv("W", TRUE)>>, <<kv("E", FALSE), kv("S", TRUE), kv("W", TRUE)>>,
                \* one attribute twice: the entries are applied in order, the second one meets what the first one left
                <<kv("E", FALSE), kv("E", FALSE)>>, <<kv("W", FALSE), kv("W", TRUE)>> })
CopyT == { <<>>, <<kv("S", TRUE)>>, <<kv("E", FALSE)>>, <<kv("S", FALSE)>>, <<kv("E", TRUE)>> }
        \cup (IF Level = "small" THEN {} ELSE
              { <<kv("P", TRUE)>>, <<kv("P", FALSE)>>, <<kv("M", FALSE)>>, <<kv("C", FALSE)>>, <<kv("W", FALSE)>>, <<kv("W", TRUE)>>,
                <<kv("T", TRUE)>>, <<kv("D", FALSE)>>, <<kv("S", TRUE), kv("C", TRUE)>>, <<kv("AS", TRUE)>>,
                \* one attribute twice (the last entry counts - also for "a copy cannot turn a private object public")
                <<kv("P", TRUE), kv("P", FALSE)>>, <<kv("P", FALSE), kv("P", TRUE)>>, <<kv("S", TRUE), kv("S", TRUE)>>,
                <<kv("D", FALSE), kv("D", TRUE)>> })

Ids    == 1 .. MaxObj
NextId == Cardinality(DOMAIN obj \cup gone) + 1
Room   == NextId <= MaxObj

Uses(tm, a) == \E i \in DOMAIN tm : tm[i][1] = a
\* "trust": templates with CKA_TRUSTED (not an attribute of private keys); "priv": templates with CKA_PRIVATE
\* (private objects lose their handles at logout, so "priv" and "login" are not combined in one configuration)
Allowed(tm) == (Uses(tm, "T") => "trust" \in Acts) /\ (Uses(tm, "P") => "priv" \in Acts)
MGen(t)              == "gen" \in Acts /\ Allowed(t) /\ Room /\ Generate(NextId, t)
MImport(t, op)       == "imp" \in Acts /\ Allowed(t) /\ Room /\ Import(NextId, t, op)
MDerive(b, b2, m, t) == "der" \in Acts /\ Allowed(t) /\ Room /\ b \in DOMAIN obj /\ b2 \in DOMAIN obj /\ (m # "catk" => b2 = b)
                        /\ Derive(NextId, b, b2, m, t)
MSet(i, t)           == "set" \in Acts /\ Allowed(t) /\ i \in DOMAIN obj /\ SetAttrs(i, t)
MCopy(s, t)          == "copy" \in Acts /\ Allowed(t) /\ Room /\ s \in DOMAIN obj /\ CopyObj(NextId, s, t)
MDestroy(i)          == "destroy" \in Acts /\ i \in DOMAIN obj /\ Destroy(i)
MGet(i)              == "get" \in Acts /\ i \in DOMAIN obj /\ GetSecret(i)
MWrap(i, tr)         == "wrap" \in Acts /\ i \in DOMAIN obj /\ Wrap(i, tr)
MRelogin(u)          == "login" \in Acts /\ u # who /\ Relogin(u)

Next ==
    \/ \E t \in GenT : MGen(t)
    \/ \E t \in ImpT, op \in {"CREATE", "UNWRAP"} : MImport(t, op)
    \/ \E b \in Ids, b2 \in Ids, m \in Mechs, t \in DerT : MDerive(b, b2, m, t)
    \/ \E i \in Ids, t \in SetT : MSet(i, t)
    \/ \E s \in Ids, t \in CopyT : MCopy(s, t)
    \/ \E i \in Ids : MDestroy(i)
    \/ \E i \in Ids : MGet(i)
    \/ \E i \in Ids, tr \in BOOLEAN : MWrap(i, tr)
    \/ \E u \in {"user", "so"} : MRelogin(u)
Spec == Init /\ [][Next]_vars
View == state
=============================================================================
