------------------------------ MODULE P11Core ------------------------------
(***************************************************************************)
(* SoftHSMv2 at PKCS#11 call grain: tokens and PINs, the token-wide login  *)
(* state, sessions, objects (token/session x private/public), handles,     *)
(* access rules and object search.  One action per C_* call; the call's    *)
(* return is the linearisation point.                                      *)
(*                                                                         *)
(* The module is written to be bound to the implementation:                *)
(*  - it follows the mechanisms of the code (login state is per token and  *)
(*    session states are derived; one monotone handle counter shared by    *)
(*    sessions and objects; the purges of HandleManager and                *)
(*    SessionObjectStore; handles for found objects are issued by          *)
(*    C_FindObjectsInit), not the prose of the standard;                   *)
(*  - every action is total: for every argument combination it yields a    *)
(*    return value, so an implementation return can never be skipped;      *)
(*  - fresh handle values are parameters of the actions: the model checker *)
(*    picks the next unused number, the trace specification binds the      *)
(*    number the implementation really returned and the action demands     *)
(*    that it was never issued before.                                     *)
(* rv and out are inert observation variables.                             *)
(***************************************************************************)
EXTENDS Naturals, FiniteSets, Sequences, TLC

CONSTANTS Tokens,        \* the initialised tokens (model values or strings)
          Pins,          \* PIN symbols; "nopin" means: not initialised
          InitSoPin, InitUserPin,   \* PINs the driver sets the tokens up with
          Labels         \* abstract attribute values used by object templates

VARIABLES tok,      \* [Tokens -> [so: Pins, user: Pins \cup {"nopin"}, there: BOOLEAN]]
                    \* (there = FALSE: the token's files were removed behind the library's back, see Vanish)
          login,    \* [Tokens -> {"none","user","so"}]
          sess,     \* session handle -> [t, rw]
          obj,      \* object id -> [t, tokobj, priv, owner, lab]
          oh,       \* object handle -> object id
          issued,   \* every handle value ever returned since C_Initialize
          fop,      \* session handle -> set of object HANDLES still to be returned by an active search
          dead,     \* object ids destroyed so far (history; for "never reappear")
          rv, out   \* observation only

vars  == <<tok, login, sess, obj, oh, issued, fop, dead, rv, out>>
state == <<tok, login, sess, obj, oh, issued, fop, dead>>

Users == {"user", "so", "ctx", "bad"}

-----------------------------------------------------------------------------
(* helpers *)
Restrict(f, S) == [x \in S |-> f[x]]
Without(f, S)  == [x \in (DOMAIN f) \ S |-> f[x]]
Ext(f, k, v)   == [x \in (DOMAIN f) \cup {k} |-> IF x = k THEN v ELSE f[x]]

SessionsOf(t)  == {h \in DOMAIN sess : sess[h].t = t}
StateOf(t, rw) == IF login[t] = "so" THEN "RW_SO"
                  ELSE IF login[t] = "user" THEN (IF rw THEN "RW_USER" ELSE "RO_USER")
                  ELSE (IF rw THEN "RW_PUBLIC" ELSE "RO_PUBLIC")
StateOfH(h)    == StateOf(sess[h].t, sess[h].rw)
UserState(st)  == st \in {"RO_USER", "RW_USER"}
RWState(st)    == st \in {"RW_PUBLIC", "RW_USER", "RW_SO"}

\* access.cpp: pure functions of (session state, token object?, private?)
ReadRv(st, private) == IF private /\ ~UserState(st) THEN "USER_NOT_LOGGED_IN" ELSE "OK"
WriteRv(st, tokobj, private) ==
    IF st = "RO_PUBLIC" THEN (IF tokobj THEN "SESSION_READ_ONLY" ELSE IF private THEN "USER_NOT_LOGGED_IN" ELSE "OK")
    ELSE IF st \in {"RW_PUBLIC", "RW_SO"} THEN (IF private THEN "USER_NOT_LOGGED_IN" ELSE "OK")
    ELSE IF st = "RO_USER" THEN (IF tokobj THEN "SESSION_READ_ONLY" ELSE "OK")
    ELSE "OK"

HandleOf(o)    == {g \in DOMAIN oh : oh[g] = o}          \* at most one element (invariant)
ObjHandlesOf(t) == {g \in DOMAIN oh : obj[oh[g]].t = t}

Fail(code)     == rv' = code /\ out' = <<>> /\ UNCHANGED state
Ok(o)          == rv' = "OK" /\ out' = o

NoOut == <<>>

-----------------------------------------------------------------------------
Init ==
    /\ tok    = [t \in Tokens |-> [so |-> InitSoPin, user |-> InitUserPin, there |-> TRUE]]
    /\ login  = [t \in Tokens |-> "none"]
    /\ sess   = <<>>
    /\ obj    = <<>>
    /\ oh     = <<>>
    /\ issued = {}
    /\ fop    = <<>>
    /\ dead   = {}
    /\ rv = "OK" /\ out = <<>>

-----------------------------------------------------------------------------
(* Sessions *)

OpenSession(t, rw, nh) ==
    IF ~rw /\ login[t] = "so" THEN Fail("SESSION_READ_WRITE_SO_EXISTS")
    ELSE /\ nh \notin issued /\ nh # 0
         /\ sess'   = Ext(sess, nh, [t |-> t, rw |-> rw])
         /\ issued' = issued \cup {nh}
         /\ Ok(<<nh>>)
         /\ UNCHANGED <<tok, login, obj, oh, fop, dead>>

\* objects that die when the sessions in hs go away (hs all on token t); last = no session of t remains
DyingObjs(hs)  == {o \in DOMAIN obj : ~obj[o].tokobj /\ obj[o].owner \in hs}

CloseSession(h) ==
    IF h \notin DOMAIN sess THEN Fail("SESSION_HANDLE_INVALID")
    ELSE LET t    == sess[h].t
             last == SessionsOf(t) = {h}
             dy   == DyingObjs({h})
             gone == {g \in DOMAIN oh : oh[g] \in dy \/ (last /\ obj[oh[g]].t = t)}
         IN /\ sess'  = Without(sess, {h})
            /\ obj'   = Without(obj, dy)
            /\ oh'    = Without(oh, gone)
            /\ fop'   = Without(fop, {h})
            /\ dead'  = dead \cup dy
            /\ login' = IF last THEN [login EXCEPT ![t] = "none"] ELSE login
            /\ Ok(NoOut)
            /\ UNCHANGED <<tok, issued>>

CloseAllSessions(t) ==
    LET hs == SessionsOf(t)
        dy == {o \in DOMAIN obj : ~obj[o].tokobj /\ obj[o].t = t}
    IN /\ sess'  = Without(sess, hs)
       /\ obj'   = Without(obj, dy)
       /\ oh'    = Without(oh, ObjHandlesOf(t))
       /\ fop'   = Without(fop, hs)
       /\ dead'  = dead \cup dy
       /\ login' = [login EXCEPT ![t] = "none"]
       /\ Ok(NoOut)
       /\ UNCHANGED <<tok, issued>>

GetSessionInfo(h) ==
    IF h \notin DOMAIN sess THEN Fail("SESSION_HANDLE_INVALID")
    ELSE Ok(<<StateOfH(h)>>) /\ UNCHANGED state

\* Another process (softhsm2-util --delete-token, an administrator) removes the token's files while this library has
\* sessions on it.  The sessions live on; calls that need the files fail - and a call that fails changes nothing.
Vanish(t) == /\ tok[t].there /\ tok' = [tok EXCEPT ![t].there = FALSE] /\ Ok(NoOut)
             /\ UNCHANGED <<login, sess, obj, oh, issued, fop, dead>>

Login(h, u, pin) ==
    IF h \notin DOMAIN sess THEN Fail("SESSION_HANDLE_INVALID")
    ELSE LET t == sess[h].t IN
         IF u \in {"so", "user"} /\ ~tok[t].there THEN Fail("GENERAL_ERROR")      \* the PIN cannot be verified
         ELSE IF u = "so" THEN
              IF \E g \in SessionsOf(t) : ~sess[g].rw THEN Fail("SESSION_READ_ONLY_EXISTS")
              ELSE IF login[t] = "user" THEN Fail("USER_ANOTHER_ALREADY_LOGGED_IN")
              ELSE IF login[t] = "so"   THEN Fail("USER_ALREADY_LOGGED_IN")
              ELSE IF pin # tok[t].so   THEN Fail("PIN_INCORRECT")
              ELSE login' = [login EXCEPT ![t] = "so"] /\ Ok(NoOut)
                   /\ UNCHANGED <<tok, sess, obj, oh, issued, fop, dead>>
         ELSE IF u = "user" THEN
              IF login[t] = "so"        THEN Fail("USER_ANOTHER_ALREADY_LOGGED_IN")
              ELSE IF login[t] = "user" THEN Fail("USER_ALREADY_LOGGED_IN")
              ELSE IF tok[t].user = "nopin" THEN Fail("USER_PIN_NOT_INITIALIZED")
              ELSE IF pin # tok[t].user THEN Fail("PIN_INCORRECT")
              ELSE login' = [login EXCEPT ![t] = "user"] /\ Ok(NoOut)
                   /\ UNCHANGED <<tok, sess, obj, oh, issued, fop, dead>>
         ELSE IF u = "ctx" THEN Fail("OPERATION_NOT_INITIALIZED")   \* no operation asked for re-authentication
         ELSE Fail("USER_TYPE_INVALID")

\* C_Logout: always CKR_OK on a valid session, even when nobody is logged in.
\* Handles to private objects die, private session objects are destroyed.
Logout(h) ==
    IF h \notin DOMAIN sess THEN Fail("SESSION_HANDLE_INVALID")
    ELSE LET t  == sess[h].t
             dy == {o \in DOMAIN obj : obj[o].t = t /\ ~obj[o].tokobj /\ obj[o].priv}
             gone == {g \in DOMAIN oh : obj[oh[g]].t = t /\ obj[oh[g]].priv}
         IN /\ login' = [login EXCEPT ![t] = "none"]
            /\ obj'   = Without(obj, dy)
            /\ oh'    = Without(oh, gone)
            /\ dead'  = dead \cup dy
            /\ Ok(NoOut)
            /\ UNCHANGED <<tok, sess, issued, fop>>

-----------------------------------------------------------------------------
(* PINs and token initialisation *)

PinLenOK(p) == p \notin {"short", "long"}      \* symbols standing for PINs outside MIN_PIN_LEN..MAX_PIN_LEN

InitToken(t, pin) ==
    IF SessionsOf(t) # {} THEN Fail("SESSION_EXISTS")
    ELSE IF ~PinLenOK(pin) THEN Fail("PIN_INCORRECT")
    ELSE IF pin # tok[t].so THEN Fail("PIN_INCORRECT")
    ELSE LET dy == {o \in DOMAIN obj : obj[o].t = t} IN      \* only token objects can exist: no session is open
         /\ tok'  = [tok EXCEPT ![t].user = "nopin"]
         /\ obj'  = Without(obj, dy)
         /\ oh'   = Without(oh, {g \in DOMAIN oh : oh[g] \in dy})
         /\ dead' = dead \cup dy
         /\ Ok(NoOut)
         /\ UNCHANGED <<login, sess, issued, fop>>

InitPIN(h, pin) ==
    IF h \notin DOMAIN sess THEN Fail("SESSION_HANDLE_INVALID")
    ELSE IF StateOfH(h) # "RW_SO" THEN Fail("USER_NOT_LOGGED_IN")
    ELSE IF ~tok[sess[h].t].there THEN Fail("GENERAL_ERROR")
    ELSE IF ~PinLenOK(pin) THEN Fail("PIN_LEN_RANGE")
    ELSE /\ tok' = [tok EXCEPT ![sess[h].t].user = pin]
         /\ Ok(NoOut)
         /\ UNCHANGED <<login, sess, obj, oh, issued, fop, dead>>

SetPIN(h, old, new) ==
    IF h \notin DOMAIN sess THEN Fail("SESSION_HANDLE_INVALID")
    ELSE IF ~PinLenOK(new) THEN Fail("PIN_LEN_RANGE")
    ELSE LET t == sess[h].t  st == StateOfH(h) IN
         IF st # "RO_PUBLIC" /\ st # "RO_USER" /\ ~tok[t].there THEN Fail("GENERAL_ERROR")
         ELSE IF st \in {"RW_PUBLIC", "RW_USER"} THEN
              IF tok[t].user = "nopin" \/ old # tok[t].user THEN Fail("PIN_INCORRECT")
              ELSE tok' = [tok EXCEPT ![t].user = new] /\ Ok(NoOut)
                   /\ UNCHANGED <<login, sess, obj, oh, issued, fop, dead>>
         ELSE IF st = "RW_SO" THEN
              IF old # tok[t].so THEN Fail("PIN_INCORRECT")
              ELSE tok' = [tok EXCEPT ![t].so = new] /\ Ok(NoOut)
                   /\ UNCHANGED <<login, sess, obj, oh, issued, fop, dead>>
         ELSE Fail("SESSION_READ_ONLY")

-----------------------------------------------------------------------------
(* Objects.  An object is [t, tokobj, priv, owner, lab]; owner = creating     *)
(* session for session objects, 0 for token objects.                          *)

CreateObject(h, o, tokobj, private, lab, nh) ==
    IF h \notin DOMAIN sess THEN Fail("SESSION_HANDLE_INVALID")
    ELSE LET w == WriteRv(StateOfH(h), tokobj, private) IN
         IF w # "OK" THEN Fail(w)
         ELSE /\ o \notin DOMAIN obj /\ o \notin dead
              /\ nh \notin issued /\ nh # 0
              /\ obj'    = Ext(obj, o, [t |-> sess[h].t, tokobj |-> tokobj, priv |-> private,
                                        owner |-> IF tokobj THEN 0 ELSE h, lab |-> lab])
              /\ oh'     = Ext(oh, nh, o)
              /\ issued' = issued \cup {nh}
              /\ Ok(<<nh>>)
              /\ UNCHANGED <<tok, login, sess, fop, dead>>

\* The handle checks shared by every call that takes an object handle:
\* stale, never issued, a session handle, or an object of another token's session.
ObjRv(h, g) == IF h \notin DOMAIN sess THEN "SESSION_HANDLE_INVALID"
               ELSE IF g \notin DOMAIN oh THEN "OBJECT_HANDLE_INVALID"
               ELSE "OK"

\* C_CopyObject with a template that may move the copy (token/session, public->private)
CopyObject(h, g, o, tokobj, private, nh) ==
    IF ObjRv(h, g) # "OK" THEN Fail(ObjRv(h, g))
    ELSE LET src == obj[oh[g]]
             r   == ReadRv(StateOfH(h), src.priv)
             w   == WriteRv(StateOfH(h), tokobj, private) IN
         IF r # "OK" THEN Fail(r)
         ELSE IF src.priv /\ ~private THEN Fail("TEMPLATE_INCONSISTENT")
         ELSE IF w # "OK" THEN Fail(w)
         ELSE /\ o \notin DOMAIN obj /\ o \notin dead
              /\ nh \notin issued /\ nh # 0
              /\ obj'    = Ext(obj, o, [t |-> sess[h].t, tokobj |-> tokobj, priv |-> private,
                                        owner |-> IF tokobj THEN 0 ELSE h, lab |-> src.lab])
              /\ oh'     = Ext(oh, nh, o)
              /\ issued' = issued \cup {nh}
              /\ Ok(<<nh>>)
              /\ UNCHANGED <<tok, login, sess, fop, dead>>

DestroyObject(h, g) ==
    IF ObjRv(h, g) # "OK" THEN Fail(ObjRv(h, g))
    ELSE LET o == oh[g]
             w == WriteRv(StateOfH(h), obj[o].tokobj, obj[o].priv) IN
         IF w # "OK" THEN Fail(w)
         ELSE /\ obj'  = Without(obj, {o})
              /\ oh'   = Without(oh, {g})
              /\ dead' = dead \cup {o}
              /\ Ok(NoOut)
              /\ UNCHANGED <<tok, login, sess, issued, fop>>

\* C_GetAttributeValue of the identifying attribute(s).  Denial is CKR_GENERAL_ERROR in the code.
GetAttr(h, g) ==
    IF ObjRv(h, g) # "OK" THEN Fail(ObjRv(h, g))
    ELSE IF ReadRv(StateOfH(h), obj[oh[g]].priv) # "OK" THEN Fail("GENERAL_ERROR")
    ELSE Ok(<<oh[g], obj[oh[g]].lab>>) /\ UNCHANGED state

SetAttr(h, g, lab) ==
    IF ObjRv(h, g) # "OK" THEN Fail(ObjRv(h, g))
    ELSE LET o == oh[g]
             w == WriteRv(StateOfH(h), obj[o].tokobj, obj[o].priv) IN
         IF w # "OK" THEN Fail(w)
         ELSE /\ obj' = [obj EXCEPT ![o].lab = lab]
              /\ Ok(NoOut)
              /\ UNCHANGED <<tok, login, sess, oh, issued, fop, dead>>

\* C_GetObjectSize checks the handles only (no credentials) and discloses nothing.
GetObjectSize(h, g) ==
    IF ObjRv(h, g) # "OK" THEN Fail(ObjRv(h, g))
    ELSE Ok(<<"unavailable">>) /\ UNCHANGED state

-----------------------------------------------------------------------------
(* Using an object as a key or as key material in a cryptographic or key-      *)
(* management call (C_EncryptInit, C_DecryptInit, C_SignInit, C_VerifyInit,    *)
(* C_DigestKey, C_WrapKey as wrapping key / as wrapped key, C_UnwrapKey,       *)
(* C_DeriveKey).  Reaching the object needs read access.  With access the call *)
(* may still fail for reasons outside this module (ok = FALSE); it never       *)
(* changes the state described here.                                           *)
UseKinds == {"EncryptInit", "DecryptInit", "SignInit", "VerifyInit", "DigestKey",
             "WrapWith", "WrapIt", "UnwrapWith", "DeriveFrom"}

UseObject(h, g, f, ok) ==
    IF ObjRv(h, g) # "OK" THEN Fail(ObjRv(h, g))     \* the code: CKR_OBJECT_/KEY_/WRAPPING_KEY_/..._HANDLE_INVALID
    ELSE IF ReadRv(StateOfH(h), obj[oh[g]].priv) # "OK" THEN Fail("USER_NOT_LOGGED_IN")
    ELSE IF ok THEN Ok(<<"used">>) /\ UNCHANGED state
    ELSE Fail("FUNCTION_FAILED")

(* Objects that come to exist through C_GenerateKey, C_UnwrapKey, C_DeriveKey  *)
(* (one object) and C_GenerateKeyPair (two objects): the same access rule as   *)
(* C_CreateObject.                                                             *)
MakeKinds == {"generate", "unwrap", "derive"}

MakeKey(h, how, o, tokobj, private, lab, nh, ok) ==
    IF h \notin DOMAIN sess THEN Fail("SESSION_HANDLE_INVALID")
    ELSE LET w == WriteRv(StateOfH(h), tokobj, private) IN
         IF w # "OK" THEN Fail(w)
         ELSE IF ~ok THEN Fail("FUNCTION_FAILED")
         ELSE /\ o \notin DOMAIN obj /\ o \notin dead
              /\ nh \notin issued /\ nh # 0
              /\ obj'    = Ext(obj, o, [t |-> sess[h].t, tokobj |-> tokobj, priv |-> private,
                                        owner |-> IF tokobj THEN 0 ELSE h, lab |-> lab])
              /\ oh'     = Ext(oh, nh, o)
              /\ issued' = issued \cup {nh}
              /\ Ok(<<nh>>)
              /\ UNCHANGED <<tok, login, sess, fop, dead>>

MakePair(h, o1, o2, tokobj, private, lab, nh1, nh2, ok) ==
    IF h \notin DOMAIN sess THEN Fail("SESSION_HANDLE_INVALID")
    ELSE LET w == WriteRv(StateOfH(h), tokobj, private)
             rec == [t |-> sess[h].t, tokobj |-> tokobj, priv |-> private,
                     owner |-> IF tokobj THEN 0 ELSE h, lab |-> lab] IN
         IF w # "OK" THEN Fail(w)
         ELSE IF ~ok THEN Fail("FUNCTION_FAILED")
         ELSE /\ {o1, o2} \cap (DOMAIN obj \cup dead) = {} /\ o1 # o2
              /\ {nh1, nh2} \cap issued = {} /\ nh1 # 0 /\ nh2 # 0 /\ nh1 # nh2
              /\ obj'    = [x \in (DOMAIN obj) \cup {o1, o2} |-> IF x \in {o1, o2} THEN rec ELSE obj[x]]
              /\ oh'     = [x \in (DOMAIN oh) \cup {nh1, nh2} |->
                               IF x = nh1 THEN o1 ELSE IF x = nh2 THEN o2 ELSE oh[x]]
              /\ issued' = issued \cup {nh1, nh2}
              /\ Ok(<<nh1, nh2>>)
              /\ UNCHANGED <<tok, login, sess, fop, dead>>

-----------------------------------------------------------------------------
(* Search.  A template is a set of atoms, all of which must match (the empty   *)
(* set matches everything):                                                    *)
(*   a label        CKA_LABEL equals that label (the label "e" is the empty    *)
(*                  byte string: an empty template value matches only an empty *)
(*                  attribute value)                                           *)
(*   "tok" "sess"   CKA_TOKEN true / false      "priv" "pub"  CKA_PRIVATE      *)
(*   "absent"       an attribute the object does not have: no match            *)
(*   "wrongsize"    a value whose length differs from the attribute's: no match *)

Visible(h, o) == obj[o].t = sess[h].t /\ (obj[o].priv => UserState(StateOfH(h)))
MatchAtom(o, a) == IF a = "tok"  THEN obj[o].tokobj
                   ELSE IF a = "sess" THEN ~obj[o].tokobj
                   ELSE IF a = "priv" THEN obj[o].priv
                   ELSE IF a = "pub"  THEN ~obj[o].priv
                   ELSE IF a \in {"absent", "wrongsize"} THEN FALSE
                   ELSE obj[o].lab = a
Matches(o, tmpl) == \A a \in tmpl : MatchAtom(o, a)
FindSet(h, tmpl) == {o \in DOMAIN obj : Visible(h, o) /\ Matches(o, tmpl)}

\* nhf: function from the found objects that have no handle yet to fresh, distinct handle values
FindObjectsInit(h, tmpl, nhf) ==
    IF h \notin DOMAIN sess THEN Fail("SESSION_HANDLE_INVALID")
    ELSE IF h \in DOMAIN fop THEN Fail("OPERATION_ACTIVE")
    ELSE LET found == FindSet(h, tmpl)
             need  == {o \in found : HandleOf(o) = {}}
             new   == {nhf[o] : o \in need} IN
         /\ DOMAIN nhf = need
         /\ new \cap issued = {} /\ 0 \notin new /\ Cardinality(new) = Cardinality(need)
         /\ oh'     = [g \in (DOMAIN oh) \cup new |->
                          IF g \in DOMAIN oh THEN oh[g] ELSE CHOOSE o \in need : nhf[o] = g]
         /\ issued' = issued \cup new
         /\ fop'    = Ext(fop, h, {g \in DOMAIN oh' : oh'[g] \in found})
         /\ Ok(NoOut)
         /\ UNCHANGED <<tok, login, sess, obj, dead>>

\* The search is a snapshot of HANDLES taken by C_FindObjectsInit (as in the code): a handle whose object is
\* destroyed or hidden (logout) meanwhile may still be returned, but it is then invalid and opens nothing.
\* Returns some batch of the remaining handles (the code: ascending handle order; not required).
FindObjects(h, batch) ==
    IF h \notin DOMAIN sess THEN Fail("SESSION_HANDLE_INVALID")
    ELSE IF h \notin DOMAIN fop THEN Fail("OPERATION_NOT_INITIALIZED")
    ELSE /\ batch \subseteq fop[h]
         /\ fop' = [fop EXCEPT ![h] = @ \ batch]
         /\ Ok(<<batch>>)
         /\ UNCHANGED <<tok, login, sess, obj, oh, issued, dead>>

\* C_FindObjectsInit + C_FindObjects until empty + C_FindObjectsFinal as one step (used where the batch
\* protocol is not the subject): yields the handles of exactly the visible matching objects.
FindAll(h, tmpl, nhf) ==
    IF h \notin DOMAIN sess THEN Fail("SESSION_HANDLE_INVALID")
    ELSE IF h \in DOMAIN fop THEN Fail("OPERATION_ACTIVE")
    ELSE LET found == FindSet(h, tmpl)
             need  == {o \in found : HandleOf(o) = {}}
             new   == {nhf[o] : o \in need} IN
         /\ DOMAIN nhf = need
         /\ new \cap issued = {} /\ 0 \notin new /\ Cardinality(new) = Cardinality(need)
         /\ oh'     = [g \in (DOMAIN oh) \cup new |->
                          IF g \in DOMAIN oh THEN oh[g] ELSE CHOOSE o \in need : nhf[o] = g]
         /\ issued' = issued \cup new
         /\ Ok(<<{g \in DOMAIN oh' : oh'[g] \in found}>>)
         /\ UNCHANGED <<tok, login, sess, obj, fop, dead>>

FindObjectsFinal(h) ==
    IF h \notin DOMAIN sess THEN Fail("SESSION_HANDLE_INVALID")
    ELSE IF h \notin DOMAIN fop THEN Fail("OPERATION_NOT_INITIALIZED")
    ELSE fop' = Without(fop, {h}) /\ Ok(NoOut) /\ UNCHANGED <<tok, login, sess, obj, oh, issued, dead>>

-----------------------------------------------------------------------------
(* Invariants: the listed properties at this grain                          *)

TypeOK ==
    /\ \A t \in Tokens : login[t] \in {"none", "user", "so"}
    /\ \A h \in DOMAIN sess : sess[h].t \in Tokens /\ sess[h].rw \in BOOLEAN
    /\ \A g \in DOMAIN oh : oh[g] \in DOMAIN obj
    /\ DOMAIN fop \subseteq DOMAIN sess

\* C03
NoROwithSO        == \A h \in DOMAIN sess : login[sess[h].t] = "so" => sess[h].rw
PublicIfNoSession == \A t \in Tokens : SessionsOf(t) = {} => login[t] = "none"
\* "all sessions of a token report the same login state" is StateOf being a function of login[t]

\* C01
PrivateHandleNeedsUser == \A g \in DOMAIN oh : obj[oh[g]].priv => login[obj[oh[g]].t] = "user"
PrivateSessionObjNeedsUser == \A o \in DOMAIN obj : (obj[o].priv /\ ~obj[o].tokobj) => login[obj[o].t] = "user"

\* C11
HandlesDisjoint   == (DOMAIN sess) \cap (DOMAIN oh) = {}
HandlesIssued     == (DOMAIN sess) \cup (DOMAIN oh) \subseteq issued /\ 0 \notin issued
OneHandlePerObject == \A g1, g2 \in DOMAIN oh : oh[g1] = oh[g2] => g1 = g2
SessionObjHasOwner == \A o \in DOMAIN obj : ~obj[o].tokobj => (obj[o].owner \in DOMAIN sess /\ sess[obj[o].owner].t = obj[o].t)
HandleImpliesSession == \A g \in DOMAIN oh : SessionsOf(obj[oh[g]].t) # {}
DeadStayDead      == dead \cap DOMAIN obj = {}

\* C01 as action properties: the observable outcome of a denied attempt
DeniedYieldsNothing == [][rv' # "OK" => out' = <<>>]_vars
TokenWriteNeedsRW ==
    [][\A o \in ((DOMAIN obj \cup DOMAIN obj') \ (DOMAIN obj \cap DOMAIN obj')) :
          LET r == IF o \in DOMAIN obj THEN obj[o] ELSE obj'[o] IN
          \* (C_InitToken wipes a token only while no session is open on it)
          (r.tokobj /\ rv' = "OK") => (SessionsOf(r.t) = {} \/ \E h \in DOMAIN sess : sess[h].t = r.t /\ sess[h].rw)]_vars
NoPrivateCreateOutsideUser ==
    [][\A o \in (DOMAIN obj') \ (DOMAIN obj) : obj'[o].priv => login[obj'[o].t] = "user"]_vars

\* action properties
NeverReissued == [][\A g \in ((DOMAIN sess' \cup DOMAIN oh') \ (DOMAIN sess \cup DOMAIN oh)) : g \notin issued /\ g # 0]_vars
StableDenotation == [][ /\ \A g \in DOMAIN oh \cap DOMAIN oh' : oh'[g] = oh[g]
                        /\ \A h \in DOMAIN sess \cap DOMAIN sess' : sess'[h] = sess[h] ]_vars
FailedCallChangesNothing == [][rv' # "OK" => UNCHANGED state]_vars
LoginOnlyFromPublicWithRightPin ==
    [][\A t \in Tokens : (login[t] # login'[t] /\ login'[t] # "none") => login[t] = "none"]_vars
IssuedMonotone == [][issued \subseteq issued']_vars
=============================================================================
