----------------------------- MODULE MC_Core_H -----------------------------
(* MC_Core with a history variable: used with `tlc -simulate` to obtain       *)
(* behaviours beyond the exhaustively enumerated bounds.  Each step appends   *)
(* the action instance; a behaviour is printed as JSON when it reaches Depth. *)
EXTENDS MC_Core, Json
CONSTANT Depth
VARIABLE hist
hvars == <<vars, hist>>
H(x) == hist' = Append(hist, x)
HInit == Init /\ hist = <<>>
HNext ==
    \/ \E t \in Tokens, rw \in BOOLEAN : MOpen(t, rw) /\ H(<<"MOpen", t, rw>>)
    \/ \E h \in HS : MClose(h) /\ H(<<"MClose", h>>)
    \/ \E h \in HS : MInfo(h) /\ H(<<"MInfo", h>>)
    \/ \E h \in HS : MLogout(h) /\ H(<<"MLogout", h>>)
    \/ \E t \in Tokens : MCloseAll(t) /\ H(<<"MCloseAll", t>>)
    \/ \E h \in HS, u \in Users, pin \in LoginPins : MLogin(h, u, pin) /\ H(<<"MLogin", h, u, pin>>)
    \/ \E t \in Tokens, pin \in LoginPins : MInitToken(t, pin) /\ H(<<"MInitToken", t, pin>>)
    \/ \E h \in HS, pin \in LoginPins : MInitPIN(h, pin) /\ H(<<"MInitPIN", h, pin>>)
    \/ \E h \in HS, old \in LoginPins, new \in LoginPins : MSetPIN(h, old, new) /\ H(<<"MSetPIN", h, old, new>>)
    \/ \E h \in HS, tokobj \in BOOLEAN, pr \in BOOLEAN, lab \in Labels : MCreate(h, tokobj, pr, lab) /\ H(<<"MCreate", h, tokobj, pr, lab>>)
    \/ \E h \in HS, g \in HS, tokobj \in BOOLEAN, pr \in BOOLEAN : MCopy(h, g, tokobj, pr) /\ H(<<"MCopy", h, g, tokobj, pr>>)
    \/ \E h \in HS, g \in HS : MDestroy(h, g) /\ H(<<"MDestroy", h, g>>)
    \/ \E h \in HS, g \in HS : MGetAttr(h, g) /\ H(<<"MGetAttr", h, g>>)
    \/ \E h \in HS, g \in HS : MSize(h, g) /\ H(<<"MSize", h, g>>)
    \/ \E h \in HS, g \in HS, lab \in Labels : MSetAttr(h, g, lab) /\ H(<<"MSetAttr", h, g, lab>>)
    \/ \E h \in HS, g \in HS, f \in UseKinds : MUse(h, g, f) /\ H(<<"MUse", h, g, f>>)
    \/ \E h \in HS, how \in MakeKinds, tokobj \in BOOLEAN, pr \in BOOLEAN, lab \in Labels : MMake(h, how, tokobj, pr, lab) /\ H(<<"MMake", h, how, tokobj, pr, lab>>)
    \/ \E h \in HS, tokobj \in BOOLEAN, pr \in BOOLEAN, lab \in Labels : MMakePair(h, tokobj, pr, lab) /\ H(<<"MMakePair", h, tokobj, pr, lab>>)
    \/ \E h \in HS, tmpl \in TArgs : MFindAll(h, tmpl) /\ H(<<"MFindAll", h, tmpl>>)
    \/ \E h \in HS, tmpl \in TArgs : MFindInit(h, tmpl) /\ H(<<"MFindInit", h, tmpl>>)
    \/ \E h \in HS, n \in {0, 1, 2} : MFind(h, n) /\ H(<<"MFind", h, n>>)
    \/ \E h \in HS : MFindFinal(h) /\ H(<<"MFindFinal", h>>)
HSpec == HInit /\ [][HNext]_hvars
Emit == (Len(hist) = Depth) => PrintT(<<"BEH", ToJson(hist)>>)
Bound == Len(hist) <= Depth
=============================================================================
