----------------------------- MODULE Trace_Core -----------------------------
(* Trace specification: validates executions recorded from the real library  *)
(* (driver vf/drv_core.py) against P11Core.  One trace action per recorded    *)
(* call = the P11Core action with the logged arguments (real handle values),  *)
(* plus the comparison of what the property in question observes:             *)
(*   "rv"   return value class of the call and its outputs                    *)
(*   "ss"   C_GetSessionInfo of every session handle ever issued              *)
(*   "oo"   validity of every object handle ever issued                       *)
(*   "id"   identity and label read through every valid object handle         *)
(* Obs (a constant) selects them: property-scoped observation.                *)
(* Executions are concatenated; a Reset event starts a fresh library.         *)
EXTENDS P11Core, Json, IOUtils

CONSTANTS Obs
VARIABLES l,        \* next event
          fpend     \* trace-side search state: session -> object ids matched by C_FindObjectsInit, not yet returned

T == ndJsonDeserialize(IOEnv.TRACE)
E == T[l]
tvars == <<vars, l, fpend>>

Named == {"SESSION_HANDLE_INVALID", "OBJECT_HANDLE_INVALID", "OPERATION_ACTIVE", "OPERATION_NOT_INITIALIZED"}
ObjInv == {"OBJECT_HANDLE_INVALID", "KEY_HANDLE_INVALID", "WRAPPING_KEY_HANDLE_INVALID", "UNWRAPPING_KEY_HANDLE_INVALID"}
Cls(x) == IF x \in ObjInv THEN "OBJECT_HANDLE_INVALID" ELSE IF x = "OK" \/ x \in Named THEN x ELSE "ERR"

Range(s) == {s[i] : i \in DOMAIN s}

StateN(h) == LET t == sess'[h].t  rw == sess'[h].rw IN       \* StateOfH in the next state
             IF login'[t] = "so" THEN "RW_SO"
             ELSE IF login'[t] = "user" THEN (IF rw THEN "RW_USER" ELSE "RO_USER")
             ELSE (IF rw THEN "RW_PUBLIC" ELSE "RO_PUBLIC")
SessProj ==
    "ss" \in Obs =>
      \A p \in Range(E.ss) :
         IF p[1] \in DOMAIN sess' THEN p[2] = StateN(p[1])
         ELSE p[2] = "INVALID"
ObjProj ==
    /\ "oo" \in Obs =>
         \A p \in Range(E.oo) : p[2] = "UNPROBED" \/ (p[2] = "OK" <=> p[1] \in DOMAIN oh')
    /\ "id" \in Obs =>
         \A p \in Range(E.oo) : (p[2] = "OK" /\ p[3] # 0 /\ p[1] \in DOMAIN oh')
                                   => (oh'[p[1]] = p[3] /\ obj'[p[3]].lab = p[4])
Post == Cls(rv') = Cls(E.rv) /\ SessProj /\ ObjProj

IsEv(name) == l <= Len(T) /\ E.e = name /\ l' = l + 1
Keep == UNCHANGED fpend

DropSess(hs) == fpend' = [h \in (DOMAIN fpend) \ hs |-> fpend[h]]

TReset ==
    /\ IsEv("Reset")
    /\ tok'    = [t \in Tokens |-> [so |-> InitSoPin, user |-> InitUserPin, there |-> TRUE]]
    /\ login'  = [t \in Tokens |-> "none"]
    /\ sess' = <<>> /\ obj' = <<>> /\ oh' = <<>> /\ issued' = {} /\ fop' = <<>> /\ dead' = {}
    /\ rv' = "OK" /\ out' = <<>> /\ fpend' = <<>>

TOpen     == IsEv("MOpen") /\ OpenSession(E.t, E.rw, E.nh) /\ Post /\ Keep
TClose    == IsEv("MClose") /\ CloseSession(E.h) /\ Post /\ DropSess(IF rv' = "OK" THEN {E.h} ELSE {})
TCloseAll == IsEv("MCloseAll") /\ CloseAllSessions(E.t) /\ Post /\ DropSess(SessionsOf(E.t))
TInfo     == IsEv("MInfo") /\ GetSessionInfo(E.h) /\ Post /\ Keep
             /\ (rv' = "OK" => out' = <<E.st>>)
TVanish   == IsEv("MVanish") /\ Vanish(E.t) /\ Post /\ Keep
TLogin    == IsEv("MLogin") /\ Login(E.h, E.u, E.pin) /\ Post /\ Keep
TLogout   == IsEv("MLogout") /\ Logout(E.h) /\ Post /\ Keep
TInitToken == IsEv("MInitToken") /\ InitToken(E.t, E.pin) /\ Post /\ Keep
TInitPIN  == IsEv("MInitPIN") /\ InitPIN(E.h, E.pin) /\ Post /\ Keep
TSetPIN   == IsEv("MSetPIN") /\ SetPIN(E.h, E.old, E.new) /\ Post /\ Keep
TCreate   == IsEv("MCreate") /\ CreateObject(E.h, E.o, E.tokobj, E.priv, E.lab, E.nh) /\ Post /\ Keep
TCopy     == IsEv("MCopy") /\ CopyObject(E.h, E.g, E.o, E.tokobj, E.priv, E.nh) /\ Post /\ Keep
TDestroy  == IsEv("MDestroy") /\ DestroyObject(E.h, E.g) /\ Post /\ Keep
TGetAttr  == IsEv("MGetAttr") /\ GetAttr(E.h, E.g) /\ Post /\ Keep
             /\ IF rv' = "OK" THEN out' = <<E.tag, E.lab>> ELSE E.clean     \* a denied read yields nothing
TSetAttr  == IsEv("MSetAttr") /\ SetAttr(E.h, E.g, E.lab) /\ Post /\ Keep
TUse      == IsEv("MUse") /\ UseObject(E.h, E.g, E.f, E.rv = "OK") /\ Post /\ Keep
             /\ (rv' # "OK" => E.clean)                        \* a refused use produces no output
TMake     == IsEv("MMake") /\ MakeKey(E.h, E.how, E.o, E.tokobj, E.priv, E.lab, E.nh, E.rv = "OK") /\ Post /\ Keep
TMakePair == IsEv("MMakePair") /\ MakePair(E.h, E.o, E.o2, E.tokobj, E.priv, E.lab, E.nh, E.nh2, E.rv = "OK")
             /\ Post /\ Keep
TSize     == IsEv("MSize") /\ GetObjectSize(E.h, E.g) /\ Post /\ Keep

\* ---- search.  found = <<handle, object id>> pairs in the order returned.
Found     == Range(E.found)
FoundOK   == Cardinality(Found) = Len(E.found)                      \* nothing twice
             /\ Cardinality({p[1] : p \in Found}) = Len(E.found)
             /\ Cardinality({p[2] : p \in Found}) = Len(E.found)
NhfOf(need) == [o \in need |-> IF \E p \in Found : p[2] = o THEN (CHOOSE p \in Found : p[2] = o)[1] ELSE 0]

TFindAll  == /\ IsEv("MFindAll")
             /\ IF E.h \in DOMAIN sess /\ E.h \in DOMAIN fpend THEN Fail("OPERATION_ACTIVE")
                ELSE LET need == IF E.h \in DOMAIN sess
                                 THEN {o \in FindSet(E.h, Range(E.tmpl)) : HandleOf(o) = {}} ELSE {} IN
                     FindAll(E.h, Range(E.tmpl), NhfOf(need))
             /\ Post /\ Keep
             /\ (rv' = "OK" => (FoundOK /\ out' = <<{p[1] : p \in Found}>>
                                /\ \A p \in Found : p[1] \in DOMAIN oh' /\ oh'[p[1]] = p[2]))

\* C_FindObjectsInit issues the handles of the matched objects at once, but the application sees a handle
\* only when C_FindObjects returns it.  The trace specification therefore binds fresh handles at their first
\* observation (fpend holds the matched objects), which is observationally equivalent.
TFindInit == /\ IsEv("MFindInit")
             /\ IF E.h \notin DOMAIN sess THEN Fail("SESSION_HANDLE_INVALID") /\ Keep
                ELSE IF E.h \in DOMAIN fpend THEN Fail("OPERATION_ACTIVE") /\ Keep
                ELSE /\ fpend' = Ext(fpend, E.h, FindSet(E.h, Range(E.tmpl)))
                     /\ Ok(NoOut) /\ UNCHANGED state
             /\ Post

\* An entry <<g, 0>> is a handle through which nothing can be read any more: it stands for a matched object that
\* was destroyed or hidden after the search began (snapshot semantics); TLC picks which one.
TFind ==
    /\ IsEv("MFind")
    /\ IF E.h \notin DOMAIN sess THEN Fail("SESSION_HANDLE_INVALID") /\ Keep
       ELSE IF E.h \notin DOMAIN fpend THEN Fail("OPERATION_NOT_INITIALIZED") /\ Keep
       ELSE LET pend  == fpend[E.h]
                live  == {p \in Found : p[2] # 0}
                stale == {p \in Found : p[2] = 0}
                need  == {p \in live : HandleOf(p[2]) = {}}
                new   == {p[1] : p \in need} IN
            /\ FoundOK \/ (stale # {} /\ Cardinality({p[1] : p \in Found}) = Len(E.found))
            /\ Len(E.found) = (IF E.n < Cardinality(pend) THEN E.n ELSE Cardinality(pend))
            /\ E.cnt = Len(E.found)
            /\ \A p \in live : p[2] \in pend /\ p[2] \in DOMAIN obj /\ Visible(E.h, p[2])
                               /\ (HandleOf(p[2]) # {} => p[1] \in HandleOf(p[2]))
            /\ new \cap issued = {} /\ 0 \notin new
            /\ \A p \in stale : p[1] \notin DOMAIN oh
            /\ \E gone \in SUBSET (pend \ {p[2] : p \in live}) :
                  /\ Cardinality(gone) = Cardinality(stale)
                  \* (destroyed; hidden by a logout; or its handle of that time was dropped - by a logout - and the object
                  \*  has no handle or a NEWER one now: the search is a snapshot of handles)
                  /\ \A o \in gone : IF o \notin DOMAIN obj THEN TRUE
                                      ELSE IF ~Visible(E.h, o) THEN TRUE
                                      ELSE HandleOf(o) \cap {p[1] : p \in stale} = {}
                  /\ fpend' = [fpend EXCEPT ![E.h] = (pend \ {p[2] : p \in live}) \ gone]
            /\ oh'     = [g \in (DOMAIN oh) \cup new |->
                             IF g \in DOMAIN oh THEN oh[g] ELSE (CHOOSE p \in need : p[1] = g)[2]]
            /\ issued' = issued \cup new
            /\ Ok(NoOut)
            /\ UNCHANGED <<tok, login, sess, obj, fop, dead>>
    /\ Post

TFindFinal == /\ IsEv("MFindFinal")
              /\ IF E.h \notin DOMAIN sess THEN Fail("SESSION_HANDLE_INVALID") /\ Keep
                 ELSE IF E.h \notin DOMAIN fpend THEN Fail("OPERATION_NOT_INITIALIZED") /\ Keep
                 ELSE DropSess({E.h}) /\ Ok(NoOut) /\ UNCHANGED state
              /\ Post

TInit == Init /\ l = 1 /\ fpend = <<>> /\ TLCSet(1, 1)
TNext == \/ TReset \/ TVanish \/ TOpen \/ TClose \/ TCloseAll \/ TInfo \/ TLogin \/ TLogout
         \/ TInitToken \/ TInitPIN \/ TSetPIN
         \/ TUse \/ TMake \/ TMakePair
         \/ TCreate \/ TCopy \/ TDestroy \/ TGetAttr \/ TSetAttr \/ TSize
         \/ TFindAll \/ TFindInit \/ TFind \/ TFindFinal
TSpec == TInit /\ [][TNext]_tvars

\* acceptance bookkeeping: the highest event index reached on any path
TrackMax == IF l > TLCGet(1) THEN TLCSet(1, l) ELSE TRUE
TraceAccepted == PrintT(<<"MAXL", TLCGet(1)>>)

\* the invariants of P11Core are evaluated in every state of every validated execution as well
=============================================================================
