-------------------------------- MODULE Conc ---------------------------------
(***************************************************************************)
(* Threads of one process inside the library, at the grain of the mutex    *)
(* callbacks (C18).  Each thread executes its LOCK PROGRAM: the sequence   *)
(* of scheduling points its calls pass through - call boundaries and       *)
(* acquisitions of the library's mutexes (sessionsMutex, handlesMutex,     *)
(* storeMutex, tokenMutex, objectMutex, ..., all created through           *)
(* MutexFactory and therefore through the application's CreateMutex).  The *)
(* programs are RECORDED from the real library by a calibration run of the *)
(* driver (vf/drv_conc.py) and read from the file named by the environment *)
(* variable PROG: point = [acq: mutexes acquired during the step, held:    *)
(* mutexes still held when the next point is reached].                     *)
(*                                                                         *)
(* The scheduler runs one thread at a time and may switch at every point;  *)
(* a switch away from a thread that could have continued is a preemption.  *)
(*   NoDeadlock  checked with MaxPre unbounded: no interleaving of the     *)
(*               recorded lock programs gets stuck (lock-order cycles)     *)
(*   schedules   every behaviour with at most MaxPre preemptions is a      *)
(*               schedule the driver imposes on the real threads through   *)
(*               the mutex callbacks; the results of the calls are judged  *)
(*               by ConcLin (Trace_Conc.tla).                              *)
(***************************************************************************)
EXTENDS Naturals, Sequences, FiniteSets, TLC, Json, IOUtils
CONSTANTS NThreads, MaxPre

Threads == 1 .. NThreads
Raw == JsonDeserialize(IOEnv.PROG)
Rng(s) == {s[i] : i \in 1 .. Len(s)}
Prog == [t \in Threads |-> Raw[t]]

VARIABLES pos,     \* per thread: points passed
          held,    \* per thread: mutexes it holds
          cur,     \* the thread that ran last (0: nobody yet)
          pre      \* preemptions so far
vars == <<pos, held, cur, pre>>
View == <<pos, held>>           \* for the deadlock check with unbounded preemption: who ran last does not matter

Init == pos = [t \in Threads |-> 0] /\ held = [t \in Threads |-> {}] /\ cur = 0 /\ pre = 0
Done(t)   == pos[t] = Len(Prog[t])
Pt(t)     == Prog[t][pos[t] + 1]
CanRun(t) == ~Done(t) /\ \A u \in Threads \ {t} : Rng(Pt(t).acq) \cap held[u] = {}
Preempts(t) == cur \notin {0, t} /\ CanRun(cur)
\* one point of t; while preemptions are left, every interleaving is possible
Run(t) == /\ pre < MaxPre /\ CanRun(t)
          /\ pre' = IF Preempts(t) THEN pre + 1 ELSE pre
          /\ pos' = [pos EXCEPT ![t] = @ + 1] /\ held' = [held EXCEPT ![t] = Rng(Pt(t).held)] /\ cur' = t
\* no preemption left: a thread runs on until it finishes or would block (one step of the model)
OthersHeld(t) == UNION {held[u] : u \in Threads \ {t}}
Stops(t) == {j \in (pos[t] + 1) .. Len(Prog[t]) : Rng(Prog[t][j].acq) \cap OthersHeld(t) # {}}
Far(t)   == IF Stops(t) = {} THEN Len(Prog[t]) ELSE (CHOOSE j \in Stops(t) : \A k \in Stops(t) : j <= k) - 1
RunOn(t) == /\ pre = MaxPre /\ CanRun(t) /\ ~Preempts(t)
            /\ pos' = [pos EXCEPT ![t] = Far(t)] /\ held' = [held EXCEPT ![t] = Rng(Prog[t][Far(t)].held)]
            /\ cur' = t /\ UNCHANGED pre
Next == (\E t \in Threads : Run(t)) \/ (\E t \in Threads : RunOn(t))
Spec == Init /\ [][Next]_vars

TypeOK == pre \in 0 .. MaxPre /\ \A t \in Threads : pos[t] \in 0 .. Len(Prog[t])
MutualExclusion == \A t, u \in Threads : t # u => held[t] \cap held[u] = {}
NoDeadlock == (\E t \in Threads : ~Done(t)) => \E t \in Threads : CanRun(t)
=============================================================================
