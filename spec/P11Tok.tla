------------------------------- MODULE P11Tok -------------------------------
(***************************************************************************)
(* Token life cycle at PKCS#11 call grain: initialisation of the free      *)
(* slot, re-initialisation, PINs (which byte string is current for which   *)
(* user), token objects as persistent state, library restart               *)
(* (C_Finalize/C_Initialize) and the softhsm2-util binary acting on the    *)
(* token directory while the library is down.  Serves C14 (initialisation, *)
(* re-initialisation, isolation, restart) and C04 (only the current PIN    *)
(* authenticates; PIN changes are exact and lossless).                     *)
(*                                                                         *)
(* A token is identified by k = its creation number; its slot id is an     *)
(* implementation value (the free slot's index in the life time in which   *)
(* it was created, derived from the serial number after a restart).        *)
(* PINs are symbols; the driver concretises them as byte strings that      *)
(* satisfy the relations their names promise (prefix, extension, one-bit   *)
(* neighbour, embedded NUL, too short, too long).                          *)
(***************************************************************************)
EXTENDS Integers, FiniteSets, Sequences, TLC

CONSTANTS MaxTok        \* bound on the number of tokens ever created (MC only)

VARIABLES tk,       \* token id -> [label, so, user, objs, fresh]; objs: object tag -> private?
          up,       \* library initialised?
          sess,     \* session handle -> [k, rw]
          login,    \* token id -> "none" | "user" | "so"   (for the tokens in tk)
          issued,   \* session handles issued since the last C_Initialize
          gone,     \* object tags destroyed or wiped so far (history)
          low,      \* token id -> [u, s]: the CKF_USER_PIN_COUNT_LOW / CKF_SO_PIN_COUNT_LOW status flags ("an incorrect
                    \* PIN has been entered since the last successful authentication"); persistent, like the PINs
          rv

vars  == <<tk, up, sess, login, issued, gone, low, rv>>
state == <<tk, up, sess, login, issued, gone>>

Ext(f, k, v)   == [x \in (DOMAIN f) \cup {k} |-> IF x = k THEN v ELSE f[x]]
Without(f, S)  == [x \in (DOMAIN f) \ S |-> f[x]]

PinLenOK(p)    == p \notin {"short", "long", "empty"}
SessionsOf(k)  == {h \in DOMAIN sess : sess[h].k = k}
StateOf(k, rw) == IF login[k] = "so" THEN "RW_SO"
                  ELSE IF login[k] = "user" THEN (IF rw THEN "RW_USER" ELSE "RO_USER")
                  ELSE (IF rw THEN "RW_PUBLIC" ELSE "RO_PUBLIC")
StateOfH(h)    == StateOf(sess[h].k, sess[h].rw)
\* deleted tokens are remembered in gone as negative numbers so that token ids are never reused
TokGone(k)     == 0 - k

\* (the status flags are not part of `state`: a rejected PIN is the one thing a failing call records)
Fail(code) == rv' = code /\ UNCHANGED state /\ UNCHANGED low
Ok         == rv' = "OK" /\ UNCHANGED low
Clean      == [u |-> FALSE, s |-> FALSE]
\* a wrong PIN of user type who (field "u" or "s") on token k: nothing changes but the flag
WrongPin(k, who) == rv' = "PIN_INCORRECT" /\ UNCHANGED state /\ low' = [low EXCEPT ![k][who] = TRUE]
\* success that (re)sets flags of token k
OkLow(k, rec)    == rv' = "OK" /\ low' = Ext(low, k, rec)

Init == /\ tk = <<>> /\ up = TRUE /\ sess = <<>> /\ login = <<>> /\ issued = {} /\ gone = {} /\ low = <<>> /\ rv = "OK"

-----------------------------------------------------------------------------
(* Token initialisation *)

\* C_InitToken on the free slot: a new token; a new free slot becomes available
InitFresh(k, pin, lab) ==
    /\ up
    /\ IF ~PinLenOK(pin) THEN Fail("PIN_INCORRECT")
       ELSE /\ k \notin DOMAIN tk /\ TokGone(k) \notin gone
            /\ tk'    = Ext(tk, k, [label |-> lab, so |-> pin, user |-> "nopin", objs |-> <<>>, fresh |-> TRUE])
            /\ login' = Ext(login, k, "none")
            /\ OkLow(k, Clean) /\ UNCHANGED <<up, sess, issued, gone>>

\* C_InitToken on an initialised token
ReInit(k, pin, lab) ==
    /\ up /\ k \in DOMAIN tk
    /\ IF SessionsOf(k) # {} THEN Fail("SESSION_EXISTS")
       ELSE IF ~PinLenOK(pin) THEN Fail("PIN_INCORRECT")
       ELSE IF pin # tk[k].so THEN WrongPin(k, "s")
       \* the user PIN is removed and with it its status; the SO has just authenticated
       ELSE /\ tk'   = [tk EXCEPT ![k].label = lab, ![k].user = "nopin", ![k].objs = <<>>]
            /\ gone' = gone \cup DOMAIN tk[k].objs
            /\ OkLow(k, Clean) /\ UNCHANGED <<up, sess, login, issued>>

\* C_Finalize followed by C_Initialize in the same process
Restart ==
    /\ up
    /\ sess' = <<>> /\ issued' = {}
    /\ login' = [k \in DOMAIN tk |-> "none"]
    /\ tk' = [k \in DOMAIN tk |-> [tk[k] EXCEPT !.fresh = FALSE]]
    /\ Ok /\ UNCHANGED <<up, gone>>

Finalize ==
    /\ up /\ up' = FALSE /\ sess' = <<>> /\ issued' = {}
    /\ login' = [k \in DOMAIN tk |-> "none"]
    /\ Ok /\ UNCHANGED <<tk, gone>>

Initialize ==
    /\ ~up /\ up' = TRUE
    /\ tk' = [k \in DOMAIN tk |-> [tk[k] EXCEPT !.fresh = FALSE]]
    /\ Ok /\ UNCHANGED <<sess, login, issued, gone>>

\* softhsm2-util --init-token --free --label .. --so-pin .. --pin ..   (library down)
UtilInit(k, so, user, lab) ==
    /\ ~up /\ PinLenOK(so) /\ PinLenOK(user)
    /\ k \notin DOMAIN tk /\ TokGone(k) \notin gone
    /\ tk'    = Ext(tk, k, [label |-> lab, so |-> so, user |-> user, objs |-> <<>>, fresh |-> FALSE])
    /\ login' = Ext(login, k, "none")
    /\ OkLow(k, Clean) /\ UNCHANGED <<up, sess, issued, gone>>

\* softhsm2-util --delete-token --token <label>   (library down)
UtilDelete(k) ==
    /\ ~up /\ k \in DOMAIN tk
    /\ tk'    = Without(tk, {k})
    /\ login' = Without(login, {k})
    /\ gone'  = gone \cup DOMAIN tk[k].objs \cup {TokGone(k)}
    /\ rv' = "OK" /\ low' = Without(low, {k}) /\ UNCHANGED <<up, sess, issued>>

-----------------------------------------------------------------------------
(* Sessions and login (as in P11Core) *)

OpenSession(k, rw, nh) ==
    /\ up /\ k \in DOMAIN tk
    /\ IF ~rw /\ login[k] = "so" THEN Fail("SESSION_READ_WRITE_SO_EXISTS")
       ELSE /\ nh \notin issued /\ nh # 0
            /\ sess' = Ext(sess, nh, [k |-> k, rw |-> rw]) /\ issued' = issued \cup {nh}
            /\ Ok /\ UNCHANGED <<tk, up, login, gone>>

CloseSession(h) ==
    /\ up
    /\ IF h \notin DOMAIN sess THEN Fail("SESSION_HANDLE_INVALID")
       ELSE LET k == sess[h].k IN
            /\ sess'  = Without(sess, {h})
            /\ login' = IF SessionsOf(k) = {h} THEN [login EXCEPT ![k] = "none"] ELSE login
            /\ Ok /\ UNCHANGED <<tk, up, issued, gone>>

CloseAll(k) ==
    /\ up /\ k \in DOMAIN tk
    /\ sess' = Without(sess, SessionsOf(k)) /\ login' = [login EXCEPT ![k] = "none"]
    /\ Ok /\ UNCHANGED <<tk, up, issued, gone>>

Login(h, u, pin) ==
    /\ up
    /\ IF h \notin DOMAIN sess THEN Fail("SESSION_HANDLE_INVALID")
       ELSE LET k == sess[h].k IN
            IF u = "so" THEN
                 IF \E g \in SessionsOf(k) : ~sess[g].rw THEN Fail("SESSION_READ_ONLY_EXISTS")
                 ELSE IF login[k] # "none" THEN Fail("USER_ALREADY_OR_ANOTHER")
                 ELSE IF pin # tk[k].so THEN WrongPin(k, "s")
                 ELSE /\ login' = [login EXCEPT ![k] = "so"] /\ OkLow(k, [low[k] EXCEPT !.s = FALSE])
                      /\ UNCHANGED <<tk, up, sess, issued, gone>>
            ELSE IF login[k] # "none" THEN Fail("USER_ALREADY_OR_ANOTHER")
                 ELSE IF tk[k].user = "nopin" THEN Fail("USER_PIN_NOT_INITIALIZED")
                 ELSE IF pin # tk[k].user THEN WrongPin(k, "u")
                 ELSE /\ login' = [login EXCEPT ![k] = "user"] /\ OkLow(k, [low[k] EXCEPT !.u = FALSE])
                      /\ UNCHANGED <<tk, up, sess, issued, gone>>

Logout(h) ==
    /\ up
    /\ IF h \notin DOMAIN sess THEN Fail("SESSION_HANDLE_INVALID")
       ELSE login' = [login EXCEPT ![sess[h].k] = "none"] /\ Ok /\ UNCHANGED <<tk, up, sess, issued, gone>>

InitPIN(h, pin) ==
    /\ up
    /\ IF h \notin DOMAIN sess THEN Fail("SESSION_HANDLE_INVALID")
       ELSE IF StateOfH(h) # "RW_SO" THEN Fail("USER_NOT_LOGGED_IN")
       ELSE IF ~PinLenOK(pin) THEN Fail("PIN_LEN_RANGE")
       ELSE /\ tk' = [tk EXCEPT ![sess[h].k].user = pin] /\ OkLow(sess[h].k, [low[sess[h].k] EXCEPT !.u = FALSE])
            /\ UNCHANGED <<up, sess, login, issued, gone>>

SetPIN(h, old, new) ==
    /\ up
    /\ IF h \notin DOMAIN sess THEN Fail("SESSION_HANDLE_INVALID")
       ELSE IF ~PinLenOK(new) THEN Fail("PIN_LEN_RANGE")
       ELSE LET k == sess[h].k  st == StateOfH(h) IN
            IF st \in {"RW_PUBLIC", "RW_USER"} THEN
                 IF tk[k].user = "nopin" \/ old # tk[k].user THEN WrongPin(k, "u")
                 ELSE /\ tk' = [tk EXCEPT ![k].user = new] /\ OkLow(k, [low[k] EXCEPT !.u = FALSE])
                      /\ UNCHANGED <<up, sess, login, issued, gone>>
            ELSE IF st = "RW_SO" THEN
                 IF old # tk[k].so THEN WrongPin(k, "s")
                 ELSE /\ tk' = [tk EXCEPT ![k].so = new] /\ OkLow(k, [low[k] EXCEPT !.s = FALSE])
                      /\ UNCHANGED <<up, sess, login, issued, gone>>
            ELSE Fail("SESSION_READ_ONLY")

-----------------------------------------------------------------------------
(* Token objects, referred to by their tag *)

CanWrite(h, private) == sess[h].rw /\ (private => login[sess[h].k] = "user")
CanSee(h, o)         == LET k == sess[h].k IN o \in DOMAIN tk[k].objs /\ (tk[k].objs[o] => login[k] = "user")

CreateObj(h, o, private) ==
    /\ up
    /\ IF h \notin DOMAIN sess THEN Fail("SESSION_HANDLE_INVALID")
       ELSE IF ~CanWrite(h, private) THEN Fail("DENIED")
       ELSE /\ o \notin gone /\ \A k \in DOMAIN tk : o \notin DOMAIN tk[k].objs
            /\ tk' = [tk EXCEPT ![sess[h].k].objs = Ext(@, o, private)]
            /\ Ok /\ UNCHANGED <<up, sess, login, issued, gone>>

\* the driver searches the object by its tag in session h and destroys what it finds
DestroyObj(h, o) ==
    /\ up
    /\ IF h \notin DOMAIN sess THEN Fail("SESSION_HANDLE_INVALID")
       ELSE IF ~CanSee(h, o) THEN Fail("NOTFOUND")
       ELSE IF ~CanWrite(h, tk[sess[h].k].objs[o]) THEN Fail("DENIED")
       ELSE /\ tk'   = [tk EXCEPT ![sess[h].k].objs = Without(@, {o})]
            /\ gone' = gone \cup {o}
            /\ Ok /\ UNCHANGED <<up, sess, login, issued>>

-----------------------------------------------------------------------------
TypeOK == /\ DOMAIN login = DOMAIN tk /\ DOMAIN low = DOMAIN tk
          /\ \A h \in DOMAIN sess : sess[h].k \in DOMAIN tk
          /\ ~up => sess = <<>>
NoROwithSO        == \A h \in DOMAIN sess : login[sess[h].k] = "so" => sess[h].rw
PublicIfNoSession == \A k \in DOMAIN tk : SessionsOf(k) = {} => login[k] = "none"
TagsUnique        == \A k1, k2 \in DOMAIN tk : k1 # k2 => DOMAIN tk[k1].objs \cap DOMAIN tk[k2].objs = {}
GoneStayGone      == \A k \in DOMAIN tk : DOMAIN tk[k].objs \cap gone = {}

\* C14 / C04 as action properties of this module
SoPinSurvivesReinit == [][\A k \in DOMAIN tk \cap DOMAIN tk' :
                            (tk'[k].so # tk[k].so) => (login[k] = "so" /\ rv' = "OK")]_vars
UserPinChangesOnlyBy == [][\A k \in DOMAIN tk \cap DOMAIN tk' :
                            (tk'[k].user # tk[k].user) => rv' = "OK"]_vars
LoginNeedsCurrentPin == [][\A k \in DOMAIN login \cap DOMAIN login' :
                            (login'[k] # login[k] /\ login'[k] # "none") => (login[k] = "none" /\ rv' = "OK")]_vars
FailedChangesNothing == [][rv' # "OK" => UNCHANGED state]_vars
ObjectsOnlyByOwnToken == [][\A k \in DOMAIN tk \cap DOMAIN tk' :
                            (tk'[k].objs # tk[k].objs) => rv' = "OK"]_vars
=============================================================================
