------------------------------- MODULE StoreFS -------------------------------
(***************************************************************************)
(* The object store at file-operation grain (C16; fault clauses of C05 and *)
(* C09).  A writing call is the sequence of file-system operations it      *)
(* makes on the token directory - one element per operation: <<op, file,   *)
(* x>> with file a class name (token, tokenlock, obj1, obj1lock, ...,      *)
(* generation, tokendir) and x a detail ("w": the flush carries data;      *)
(* "C"/"T": create / truncate on open).                                    *)
(*                                                                         *)
(* 1. Protocol: the rules every such sequence obeys in the code            *)
(*    (File.cpp / ObjectFile::store): data reach a file only under its     *)
(*    write lock, a truncated file is flushed before it is unlocked, ...   *)
(* 2. Crash: the process may die before any operation k.  ContentAt gives  *)
(*    what each file then holds: untouched, EMPTY (inside a truncate ->    *)
(*    flush window), or its j-th rewritten version.                        *)
(* 3. Recovery: what a fresh process may find (Verdict).  REQUIRED: every  *)
(*    object and PIN the call did not write is intact; a written object is *)
(*    old or new (a created one may be absent); the token stays usable.    *)
(*    The code rewrites files in place (truncate, then write), so the      *)
(*    required model is violated in the windows; those deviations are      *)
(*    named and allowed only when listed in Dev (known findings).          *)
(***************************************************************************)
EXTENDS Naturals, FiniteSets, Sequences, SequencesExt, TLC

CONSTANTS Dev       \* subset of {"EmptyObject", "EmptyToken", "PartialCreate", "PartialNewToken"}: the deviations
                    \* of the as-built model that are enabled (= the known findings)

Op(o)   == o[1]
File(o) == o[2]
X(o)    == o[3]
IsLockFile(f) == f \in {"tokenlock", "obj1lock", "obj2lock", "obj3lock", "obj4lock", "obj5lock", "obj6lock", "obj7lock",
                        "obj8lock", "obj9lock"}
IsObjFile(f)  == f \in {"obj1", "obj2", "obj3", "obj4", "obj5", "obj6", "obj7", "obj8", "obj9"}
DataFlush(o)  == Op(o) = "fflush" /\ X(o) = "w"

-----------------------------------------------------------------------------
(* 1. The protocol as a fold over the sequence: st = [w: write-locked files, t: truncated and not yet flushed] *)
Step(st, o) ==
    LET f == File(o) IN
    IF ~st.ok THEN st
    ELSE IF Op(o) = "wrlock" THEN [st EXCEPT !.w = @ \cup {f}]
    ELSE IF Op(o) = "ftruncate" THEN [st EXCEPT !.ok = f \in st.w, !.t = @ \cup {f}]
    ELSE IF DataFlush(o) THEN [st EXCEPT !.ok = f \in st.w, !.t = @ \ {f}]
    ELSE IF Op(o) \in {"unlock", "fclose"} THEN [st EXCEPT !.ok = f \notin st.t, !.w = @ \ {f}]
    ELSE IF Op(o) = "remove" THEN [st EXCEPT !.ok = f \notin st.w]
    \* while a file is truncated and not yet flushed nothing else happens (no other file is touched)
    ELSE IF st.t # {} /\ ~(Op(o) \in {"fflush", "open"} /\ (f \in st.t \/ IsLockFile(f))) THEN [st EXCEPT !.ok = FALSE]
    ELSE st
\* a call that only reads (C_FindObjects, C_GetAttributeValue, C_GetObjectSize, C_Sign, C_Encrypt, C_GetTokenInfo ...)
\* writes nothing to the token directory: no truncation, no data flush, no write lock, nothing created or removed
ReadOnlyOK(ops) == \A i \in 1 .. Len(ops) :
    /\ Op(ops[i]) \notin {"ftruncate", "remove", "mkdir", "rmdir", "wrlock"}
    /\ ~DataFlush(ops[i])
    /\ ~(Op(ops[i]) = "open" /\ X(ops[i]) \in {"C", "T", "TC", "CT"})
ProtocolOK(ops) == LET fin == FoldLeft(Step, [ok |-> TRUE, w |-> {}, t |-> {}], ops) IN fin.ok /\ fin.t = {} /\ fin.w = {}

-----------------------------------------------------------------------------
(* 2. File content when the process dies before operation k (operations 1..k-1 happened) *)
Idx(ops, k) == 1 .. (IF k - 1 < Len(ops) THEN k - 1 ELSE Len(ops))
Truncs(ops, k, f)  == {i \in Idx(ops, k) : Op(ops[i]) = "ftruncate" /\ File(ops[i]) = f}
Flushes(ops, k, f) == {i \in Idx(ops, k) : DataFlush(ops[i]) /\ File(ops[i]) = f}
AllFlushes(ops, f) == {i \in 1 .. Len(ops) : DataFlush(ops[i]) /\ File(ops[i]) = f}
MaxOf(S) == CHOOSE x \in S : \A y \in S : y <= x
\* "intact": never touched; "empty": truncated, data not yet flushed; "last": its final version; "mid": an earlier one
\* nf: the files that did not exist before the call (open with O_CREAT makes them, empty)
Opened(ops, k, f) == \E i \in Idx(ops, k) : Op(ops[i]) = "open" /\ File(ops[i]) = f
ContentAt(ops, k, f, nf) ==
    LET tr == Truncs(ops, k, f)  fl == Flushes(ops, k, f) IN
    IF f \in nf /\ ~Opened(ops, k, f) THEN "absent"
    ELSE IF f \in nf /\ fl = {} THEN "empty"
    ELSE IF tr = {} /\ fl = {} THEN "intact"
    ELSE IF tr # {} /\ (fl = {} \/ MaxOf(tr) > MaxOf(fl)) THEN "empty"
    ELSE IF Cardinality(fl) = Cardinality(AllFlushes(ops, f)) THEN "last"
    ELSE "mid"
Files(ops) == {File(ops[i]) : i \in 1 .. Len(ops)}
InObjWindow(ops, k, nf) == \E f \in Files(ops) : IsObjFile(f) /\ ContentAt(ops, k, f, nf) = "empty"
InTokWindow(ops, k, nf) == \E f \in Files(ops) : f \in {"token", "token2"} /\ ContentAt(ops, k, f, nf) = "empty"
InPartial(ops, k, nf)   == \E f \in Files(ops) : IsObjFile(f) /\ ContentAt(ops, k, f, nf) \in {"mid", "empty"}

-----------------------------------------------------------------------------
(* 3. Recovery.  old / new / rec are what a fresh process saw before the call, after the completed call, and    *)
(*    after the crash: [init, tokens: <<[label, info, so, sonew, user, usernew, userinit, find, objects]>>]      *)
Objs(t)    == ToSet(t.objects)
Key(o)     == o["102"]                                    \* CKA_ID
Ghost(o)   == o.ghost                                     \* an object without even a readable CKA_CLASS
SoPins(t)   == <<t.so, t.sonew>>
UserPins(t) == <<t.user, t.usernew, t.userinit>>
\* each user's PIN is the old one or the new one (never neither)
PinsOK(o, n, r) == SoPins(r) \in {SoPins(o), SoPins(n)} /\ UserPins(r) \in {UserPins(o), UserPins(n)}
Usable(t)  == t.info = "OK" /\ t.find = "OK"

\* the objects of one token after the crash, given its old and new object sets
ObjectsOK(O, N, R, lost) ==       \* lost: how many written objects may be missing altogether (deviation)
    LET untouched == O \cap N IN
    /\ untouched \subseteq R
    /\ R \ untouched \subseteq (O \cup N)
    /\ \A o1, o2 \in R : Key(o1) = Key(o2) /\ Key(o1) # "n/a:ATTRIBUTE_TYPE_INVALID" => o1 = o2
    /\ Cardinality({o \in O \ N : (\E n \in N \ O : Key(n) = Key(o)) /\ ~\E r \in R : Key(r) = Key(o)}) <= lost

TokenOK(o, n, r, lost) ==
    /\ Usable(r)
    /\ PinsOK(o, n, r)
    /\ ObjectsOK(Objs(o), Objs(n), Objs(r), lost)

ByLabel(ts, lab) == CHOOSE t \in ts : t.label = lab
Labels(ts)       == {t.label : t \in ts}

\* required outcome.  A token keeps its label or (re-initialisation) gets the new one; it is judged against its old
\* and new state; a token being created is absent or complete.
Required(old, new, rec) ==
    LET O == ToSet(old.tokens)  N == ToSet(new.tokens)  R == ToSet(rec.tokens)
        relabel == Cardinality(O) = 1 /\ Cardinality(N) = 1 IN
    /\ rec.init = "OK"
    /\ Cardinality(R) = Len(rec.tokens)
    /\ \A o \in O : \E r \in R : r.label = o.label \/ (relabel /\ \E n \in N : r.label = n.label)    \* no token lost
    /\ \A r \in R :
          \/ \E o \in O, n \in N : /\ r.label \in {o.label, n.label} /\ (o.label = n.label \/ relabel)
                                   /\ TokenOK(o, n, r, 0)
          \/ (r.label \notin Labels(O) /\ r.label \in Labels(N) /\ r = ByLabel(N, r.label))   \* a new token, complete

\* the same with one object file empty: the object shows up without attributes, or not at all
WithEmptyObject(old, new, rec) ==
    LET O == ToSet(old.tokens)  N == ToSet(new.tokens)  R == ToSet(rec.tokens) IN
    /\ rec.init = "OK" /\ Labels(R) = Labels(O)
    /\ \A r \in R : LET o == ByLabel(O, r.label)
                        n == IF r.label \in Labels(N) THEN ByLabel(N, r.label) ELSE o
                        real == {x \in Objs(r) : ~Ghost(x)} IN
          /\ Usable(r) /\ PinsOK(o, n, r)
          /\ Cardinality(Objs(r) \ real) <= 1
          /\ real \subseteq (Objs(o) \cup Objs(n))
          /\ Cardinality((Objs(o) \cap Objs(n)) \ real) <= 1                \* at most the one object is hit

\* token.object empty: the token cannot be used any more
WithEmptyToken(old, rec) ==
    /\ rec.init = "OK"
    /\ \E r \in ToSet(rec.tokens) : ~Usable(r) \/ r.so # "OK"

\* an object being created was written in several steps: it exists with a part of its attributes
WithPartialCreate(old, new, rec) ==
    LET O == ToSet(old.tokens)  N == ToSet(new.tokens)  R == ToSet(rec.tokens) IN
    /\ rec.init = "OK" /\ Labels(R) = Labels(O)
    /\ \A r \in R : LET o == ByLabel(O, r.label)
                        n == IF r.label \in Labels(N) THEN ByLabel(N, r.label) ELSE o
                        created == {Key(x) : x \in Objs(n) \ Objs(o)} \ {Key(x) : x \in Objs(o)} IN
          /\ Usable(r) /\ PinsOK(o, n, r)
          /\ (Objs(o) \cap Objs(n)) \subseteq Objs(r)
          \* everything else is an object being created (its key, or no key yet)
          /\ \A x \in Objs(r) \ (Objs(o) \cup Objs(n)) : Key(x) \in created \/ Key(x) = "" \/ Ghost(x)

\* a token being created (token.object written in several steps): an extra, unusable token shows up; every
\* existing token is exactly as before
InNewTokPartial(ops, k, nf) == \E f \in nf : f \in {"token", "token2"} /\ ContentAt(ops, k, f, nf) \in {"mid", "empty"}
WithPartialNewToken(old, rec) ==
    LET O == ToSet(old.tokens)  R == ToSet(rec.tokens) IN
    /\ rec.init = "OK" /\ O \subseteq R /\ Cardinality(R \ O) <= 1

\* which explanation fits: "ok", a deviation name, or "none"
Verdict(ops, k, nf, old, new, rec) ==
    IF Required(old, new, rec) THEN "ok"
    ELSE IF InObjWindow(ops, k, nf) /\ WithEmptyObject(old, new, rec) THEN "EmptyObject"
    ELSE IF InNewTokPartial(ops, k, nf) /\ WithPartialNewToken(old, rec) THEN "PartialNewToken"
    ELSE IF InTokWindow(ops, k, nf) /\ WithEmptyToken(old, rec) THEN "EmptyToken"
    ELSE IF InPartial(ops, k, nf) /\ WithPartialCreate(old, new, rec) THEN "PartialCreate"
    ELSE "none"
=============================================================================
