------------------------------- MODULE ConcLin -------------------------------
(***************************************************************************)
(* What concurrent threads may observe (C18): every call takes effect at   *)
(* some instant between its invocation and its return.  The workload keeps *)
(* this decidable step by step: a thread works on its OWN session and its  *)
(* OWN objects (their results are therefore fully determined), and looks   *)
(* at the shared state through searches:                                   *)
(*   C_FindObjects (all)   must contain every object that is live during   *)
(*                         the whole call and may contain only objects     *)
(*                         that are live at some instant of it - each at   *)
(*                         most once, and nothing that was never created   *)
(*   handles               every handle returned by C_OpenSession or       *)
(*                         C_CreateObject is new (never issued before)     *)
(*   every call            returns CKR_OK (or the one error its own        *)
(*                         history demands); nobody gets stuck             *)
(* Object status: none -> creating -> live -> destroying -> dead; a        *)
(* session object also dies when its thread closes the session.            *)
(***************************************************************************)
EXTENDS Naturals, FiniteSets, Sequences, TLC
CONSTANTS Threads, Ids,
          Dev      \* deviations of the code as built that are accepted (= the known findings): subset of
                   \* {"EarlyVisible", "TornRead"}

VARIABLES ost,     \* [Ids -> status]
          own,     \* [Ids -> 0 (token object) or the thread whose session owns it]
          sst,     \* per thread: "closed", "opening", "open", "closing"
          pend,    \* per thread: the pending call [c, o, must, may] (c = "none": idle)
          issued,  \* handles returned so far
          debris,  \* token objects whose (tainted) creation failed: remains may be left on the token
          taint    \* objects whose creation overlapped a search of another thread.  As built, an object is inserted in
                   \* the store before C_CreateObject has written its attributes and registered its handle; the
                   \* overlapping search registers the handle itself (wrong kind / wrong session), and the creator's
                   \* handle can later be invalid or replaced.  Only with "EarlyVisible" in Dev may results differ for them.
vars == <<ost, own, sst, pend, issued, taint, debris>>

Searches == {"findall", "findown"}          \* both walk over ALL objects of the token (and refresh each of them)
Idle == [c |-> "none", o |-> 0, must |-> {}, may |-> {}, racy |-> FALSE]
Init == /\ ost = [i \in Ids |-> "none"] /\ own = [i \in Ids |-> 0]
        /\ sst = [t \in Threads |-> "closed"] /\ pend = [t \in Threads |-> Idle] /\ issued = {} /\ taint = {} /\ debris = 0

Live       == {i \in Ids : ost[i] = "live"}
MaybeLive  == {i \in Ids : ost[i] \in {"creating", "live", "destroying"}}
SessObjs(t) == {i \in Ids : own[i] = t /\ ost[i] \in {"creating", "live"}}
\* (as built: an object whose creation overlapped a search may be missing from later searches)
LooseSet == IF "EarlyVisible" \in Dev THEN taint' ELSE {}
\* searches in flight lose `gone` from what they must see and gain `born` in what they may see
Adjust(t, c, o, gone, born) ==
    pend' = [u \in Threads |->
               IF u = t THEN [c |-> c, o |-> o, must |-> IF c = "findall" THEN (Live \ gone) \ LooseSet ELSE {},
                                                may |-> IF c = "findall" THEN MaybeLive \cup born ELSE {},
                                                racy |-> \E w \in Threads \ {t} : pend[w].c \in Searches]
               ELSE IF pend[u].c = "findall" THEN [pend[u] EXCEPT !.must = (@ \ gone) \ LooseSet, !.may = @ \cup born]
               ELSE IF pend[u].c # "none" /\ c \in Searches THEN [pend[u] EXCEPT !.racy = TRUE]    \* a search begins during u's call
               ELSE pend[u]]

Searching(t) == \E u \in Threads \ {t} : pend[u].c \in Searches
Inv(t, c, o, tok) ==
    /\ pend[t].c = "none"
    /\ taint' = IF c = "create" /\ Searching(t) THEN taint \cup {o}
                ELSE IF c \in Searches THEN taint \cup {i \in Ids : ost[i] = "creating"}
                ELSE taint
    /\ CASE c = "open"    -> sst[t] = "closed" /\ sst' = [sst EXCEPT ![t] = "opening"] /\ Adjust(t, c, o, {}, {})
                             /\ UNCHANGED <<ost, own>>
         [] c = "close"   -> /\ sst[t] = "open" /\ sst' = [sst EXCEPT ![t] = "closing"]
                             /\ ost' = [i \in Ids |-> IF i \in SessObjs(t) THEN "destroying" ELSE ost[i]]
                             /\ Adjust(t, c, o, SessObjs(t), {}) /\ UNCHANGED own
         [] c = "create"  -> /\ sst[t] = "open" /\ ost[o] = "none" /\ ost' = [ost EXCEPT ![o] = "creating"]
                             /\ own' = [own EXCEPT ![o] = IF tok THEN 0 ELSE t]
                             /\ Adjust(t, c, o, {}, {o}) /\ UNCHANGED sst
         [] c = "destroy" -> /\ sst[t] = "open"
                             /\ IF ost[o] = "live" THEN ost' = [ost EXCEPT ![o] = "destroying"] /\ Adjust(t, c, o, {o}, {})
                                                    ELSE UNCHANGED ost /\ Adjust(t, c, o, {}, {})      \* will fail
                             /\ UNCHANGED <<own, sst>>
         [] OTHER         -> sst[t] = "open" /\ Adjust(t, c, o, {}, {}) /\ UNCHANGED <<ost, own, sst>>
    /\ UNCHANGED <<issued, debris>>

Torn(t, c, o, res) == c = "get" /\ "TornRead" \in Dev /\ own[o] = 0 /\ pend[t].racy /\ res.rv = "OK" /\ ~res.ok
Finish(t) == pend' = [pend EXCEPT ![t] = Idle] /\ UNCHANGED taint
Loose(o) == o \in taint /\ "EarlyVisible" \in Dev
\* res: [rv, h, n, same, ok, ids, dup, ghost] - the fields the call has
Ret(t, c, o, res) ==
    /\ pend[t].c = c /\ pend[t].o = o /\ Finish(t)
    /\ debris' = IF c = "create" /\ Loose(o) /\ res.rv # "OK" /\ own[o] = 0 THEN debris + 1 ELSE debris
    /\ CASE c = "open"    -> /\ res.rv = "OK" /\ res.h \notin issued /\ issued' = issued \cup {res.h}
                             /\ sst' = [sst EXCEPT ![t] = "open"] /\ UNCHANGED <<ost, own>>
         [] c = "close"   -> /\ res.rv = "OK" /\ sst' = [sst EXCEPT ![t] = "closed"]
                             /\ ost' = [i \in Ids |-> IF own[i] = t /\ ost[i] = "destroying" THEN "dead" ELSE ost[i]]
                             /\ UNCHANGED <<own, issued>>
         \* (as built, the search of another thread can reload the half-written object: the creation itself may fail)
         [] c = "create"  -> /\ IF Loose(o) /\ res.rv # "OK" THEN ost' = [ost EXCEPT ![o] = "dead"] /\ UNCHANGED issued
                                ELSE /\ res.rv = "OK" /\ res.h \notin issued /\ issued' = issued \cup {res.h}
                                     /\ ost' = [ost EXCEPT ![o] = "live"]
                             /\ UNCHANGED <<own, sst>>
         [] c = "destroy" -> /\ IF ost[o] # "destroying" THEN res.rv # "OK" /\ UNCHANGED ost
                                ELSE IF Loose(o) /\ res.rv # "OK" THEN ost' = [ost EXCEPT ![o] = "live"]
                                ELSE res.rv = "OK" /\ ost' = [ost EXCEPT ![o] = "dead"]
                             /\ UNCHANGED <<own, sst, issued>>
         \* (ghost: handles whose object had vanished when the thread looked at them - at most the objects that
         \*  may have been live during the search and are not otherwise accounted for)
         [] c = "findall" -> /\ res.rv = "OK" /\ res.dup = 0
                             /\ pend[t].must \subseteq res.ids /\ res.ids \subseteq pend[t].may
                             /\ res.ghost <= Cardinality(pend[t].may \ (pend[t].must \cup res.ids))
                             /\ UNCHANGED <<ost, own, sst, issued>>
         [] c = "findown" -> /\ res.rv = "OK" /\ (IF ost[o] = "live" THEN (res.n = 1 /\ (res.same \/ Loose(o))) \/ (Loose(o) /\ res.n = 0)
                                                                   ELSE res.n = 0)
                             /\ UNCHANGED <<ost, own, sst, issued>>
         \* (TornRead, as built: reading a TOKEN object while another thread's search walks over the token can return
         \*  CKR_OK with a wrong - empty - value)
         [] c \in {"get", "encrypt", "sign"} ->
                             /\ (IF ost[o] = "live" THEN \/ res.rv = "OK" /\ res.ok
                                                         \/ Loose(o) /\ res.rv # "OK"
                                                         \/ Torn(t, c, o, res)
                                                    ELSE res.rv # "OK")
                             /\ UNCHANGED <<ost, own, sst, issued>>
         [] c = "set"     -> /\ (IF ost[o] = "live" THEN res.rv = "OK" \/ (Loose(o) /\ res.rv # "OK") ELSE res.rv # "OK")
                             /\ UNCHANGED <<ost, own, sst, issued>>
         [] c = "digest"  -> res.rv = "OK" /\ res.ok /\ UNCHANGED <<ost, own, sst, issued>>
         [] c = "sessinfo" -> res.rv = "OK" /\ res.ok /\ UNCHANGED <<ost, own, sst, issued>>

\* when all threads are done: exactly the live token objects are left
\* did the step use the deviation?  (the trace specification prints it as a candidate for the KNOWN-FINDING line)
UsedDev(c, o, res) == \/ /\ c \in {"destroy", "findown", "get", "encrypt", "sign", "set"} /\ Loose(o) /\ ost[o] \in {"live", "destroying"}
                         /\ (res.rv # "OK" \/ (c = "findown" /\ ~(res.n = 1 /\ res.same)))
                      \/ c = "create" /\ Loose(o) /\ res.rv # "OK"
\* (junk: objects left without a readable label - as built, a tainted object that could not be destroyed, or the
\*  remains of a tainted creation that failed)
Final(ids, junk) == /\ \A t \in Threads : pend[t].c = "none" /\ sst[t] = "closed"
                    /\ LET L == {i \in Ids : ost[i] = "live" /\ own[i] = 0} IN
                       /\ ids \subseteq L /\ \A i \in L \ ids : Loose(i)
                       /\ junk <= Cardinality(L \ ids) + debris

TypeOK == \A i \in Ids : ost[i] \in {"none", "creating", "live", "destroying", "dead"}
=============================================================================
