------------------------------ MODULE Trace_Conc ------------------------------
(* Trace specification for ConcLin (driver vf/drv_conc.py): the begin and end of every call of every thread, in   *)
(* real-time order, with the results; schedules are imposed through the mutex callbacks (Conc.tla) or free-running. *)
EXTENDS ConcLin, Json, IOUtils
VARIABLES l, bn
T == ndJsonDeserialize(IOEnv.TRACE)
E == T[l]
tvars == <<vars, l, bn>>
IsEv(name) == l <= Len(T) /\ E.e = name /\ l' = l + 1
Set(s) == {s[i] : i \in 1 .. Len(s)}
Has(f) == f \in DOMAIN E
Res == [rv |-> E.rv, h |-> IF Has("h") THEN E.h ELSE 0, n |-> IF Has("n") THEN E.n ELSE 0,
        same |-> IF Has("same") THEN E.same ELSE FALSE, ok |-> IF Has("ok") THEN E.ok ELSE FALSE,
        ids |-> IF Has("ids") THEN Set(E.ids) ELSE {}, dup |-> IF Has("dup") THEN E.dup ELSE 0,
        ghost |-> IF Has("ghost") THEN E.ghost ELSE 0]

TReset == IsEv("Reset") /\ ost' = [i \in Ids |-> "none"] /\ own' = [i \in Ids |-> 0]
          /\ sst' = [t \in Threads |-> "closed"] /\ pend' = [t \in Threads |-> Idle] /\ issued' = {} /\ taint' = {} /\ debris' = 0
          /\ bn' = E.b
TInv   == IsEv("Inv") /\ Inv(E.t, E.c, E.o, IF Has("tok") THEN E.tok ELSE FALSE) /\ UNCHANGED bn
TRet   == IsEv("Ret") /\ Ret(E.t, E.c, E.o, Res) /\ UNCHANGED bn
          /\ (UsedDev(E.c, E.o, Res) => PrintT(<<"DEV", bn, "EarlyVisible">>))
          /\ (E.c = "get" /\ ost[E.o] = "live" /\ Torn(E.t, E.c, E.o, Res) => PrintT(<<"DEV", bn, "TornRead">>))
TFinal == IsEv("Final") /\ E.rv = "OK" /\ Final(Set(E.ids), E.junk) /\ Len(E.ids) = Cardinality(Set(E.ids)) /\ UNCHANGED <<vars, bn>>
          /\ (E.junk > 0 => PrintT(<<"DEV", bn, "EarlyVisible">>))

TInit == Init /\ l = 1 /\ bn = 0 /\ TLCSet(1, 1)
TNext == TReset \/ TInv \/ TRet \/ TFinal
TSpec == TInit /\ [][TNext]_tvars
TrackMax == IF l > TLCGet(1) THEN TLCSet(1, l) ELSE TRUE
TraceAccepted == PrintT(<<"MAXL", TLCGet(1)>>)
=============================================================================
