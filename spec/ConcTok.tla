------------------------------- MODULE ConcTok -------------------------------
(***************************************************************************)
(* The token-wide state that concurrent threads SHARE (C18, and the        *)
(* "correct old PIN" clause of C04 under threads): the login state, the    *)
(* number of open sessions (closing the last one logs out) and the user    *)
(* PIN.  ConcLin keeps the threads on their own objects; here every call   *)
(* reads or writes the shared state, so the order matters and the          *)
(* specification is a linearizability checker:                             *)
(*   Inv(t, c, a, b)   thread t invokes call c                             *)
(*   Lin(t)            the call takes effect - atomically, at one instant   *)
(*                     between invocation and return - and its result is    *)
(*                     determined by the shared state of that instant       *)
(*   Ret(t, c, rv, st) the call returns exactly that result                 *)
(* Lin is not observable: the trace specification lets TLC choose the       *)
(* instants; a trace is accepted iff SOME choice explains every result.     *)
(* Sessions are read-write, the security officer does not take part.        *)
(***************************************************************************)
EXTENDS Naturals, FiniteSets, Sequences, TLC
CONSTANTS Threads, PinSyms, InitPin,
          Dev      \* accepted deviations of the code as built (known findings): subset of {"LogoutSplit", "TransactionBusy", "DirtyRead", "TornWrite"}

VARIABLES login,   \* "none" | "user" | "so"
          nsess,   \* open sessions on the token
          pin,     \* the user PIN
          open,    \* per thread: has it a session
          ro,      \* per thread: its session is read-only
          nkey,    \* private token keys made by successful C_UnwrapKey calls
          nracy,   \* C_UnwrapKey calls that a C_Logout of another thread overlapped (as built: such a call may leave a key
                   \* without value behind - whether it returned CKR_OK or, the handle being purged, an error)
          tlab,    \* the label of the shared public TOKEN key ("orig" at first)
          trisk,   \* a C_SetAttributeValue on that key has overlapped another call on it (as built: the key may be lost, see TornWrite)
          skey,    \* the thread whose session owns the shared sensitive session key (0: there is none)
          pend     \* per thread: [st: "idle" | "inv" | "done", c, a, b, rv, out, lo]
                   \* lo: a C_Logout call of another thread overlapped the call (in real time, not only its instant)
vars == <<login, nsess, pin, open, ro, nkey, nracy, tlab, trisk, skey, pend>>

Idle == [st |-> "idle", c |-> "", a |-> "", b |-> "", rv |-> "", out |-> "", lo |-> FALSE, busy |-> FALSE]
Init == /\ login = "none" /\ nsess = 0 /\ pin = InitPin /\ open = [t \in Threads |-> FALSE] /\ ro = [t \in Threads |-> FALSE] /\ nkey = 0 /\ nracy = 0 /\ tlab = "orig" /\ trisk = FALSE /\ skey = 0
        /\ pend = [t \in Threads |-> Idle]

Calls == {"open", "openro", "loginso", "close", "login", "logout", "sessinfo", "setpin", "createpriv", "unwrappriv", "mksens", "badset", "readsens", "tset", "tbadset", "tget"}
TokSets == {"tset", "tbadset"}
Inv(t, c, a, b) ==
    /\ pend[t].st = "idle" /\ c \in Calls
    /\ (c \in {"open", "openro"} => ~open[t]) /\ (c \notin {"open", "openro"} => open[t])
    /\ pend' = [u \in Threads |->
                   IF u = t THEN [st |-> "inv", c |-> c, a |-> a, b |-> b, rv |-> "", out |-> "",
                                  lo |-> \E w \in Threads \ {t} : pend[w].st # "idle" /\ pend[w].c = "logout",
                                  \* busy: a C_SetAttributeValue of another thread on the shared token key overlaps the call
                                  busy |-> \E w \in Threads \ {t} : pend[w].st # "idle" /\ pend[w].c \in TokSets]
                   ELSE IF c = "logout" /\ pend[u].st # "idle" THEN [pend[u] EXCEPT !.lo = TRUE]
                   ELSE IF c \in TokSets /\ pend[u].st # "idle" THEN [pend[u] EXCEPT !.busy = TRUE]
                   ELSE pend[u]]
    \* (two calls on the token key overlap and at least one of them changes it)
    /\ trisk' = (trisk \/ (c \in TokSets /\ \E w \in Threads \ {t} : pend[w].st # "idle" /\ pend[w].c \in TokSets \cup {"tget"})
                       \/ (c = "tget" /\ \E w \in Threads \ {t} : pend[w].st # "idle" /\ pend[w].c \in TokSets))
    /\ UNCHANGED <<login, nsess, pin, open, ro, nkey, nracy, tlab, skey>>

StateName == IF login = "so" THEN "RW_SO" ELSE IF login = "user" THEN "RW_USER" ELSE "RW_PUBLIC"          \* of a R/W session
StateOf(t) == IF ~ro[t] THEN StateName ELSE IF login = "user" THEN "RO_USER" ELSE IF login = "so" THEN "RO_WITH_SO" ELSE "RO_PUBLIC"
ROExists   == \E u \in Threads : open[u] /\ ro[u]
Done(t, rv, out) == pend' = [pend EXCEPT ![t].st = "done", ![t].rv = rv, ![t].out = out]
Lin(t) ==
    /\ pend[t].st = "inv" /\ UNCHANGED <<nkey, nracy, trisk>>
    /\ (pend[t].c \notin {"close", "mksens"} => UNCHANGED skey)
    /\ (pend[t].c # "tset" => UNCHANGED tlab)
    /\ (pend[t].c \notin {"open", "openro", "close"} => UNCHANGED ro)
    /\ LET c == pend[t].c  a == pend[t].a  b == pend[t].b IN
       CASE c = "open"   -> /\ nsess' = nsess + 1 /\ open' = [open EXCEPT ![t] = TRUE] /\ Done(t, "OK", "")
                            /\ ro' = [ro EXCEPT ![t] = FALSE] /\ UNCHANGED <<login, pin>>
         \* a read-only session cannot be opened while the SO is logged in - and the SO cannot log in while there is one:
         \* the two checks exclude each other only if each is ONE step with the change it guards
         [] c = "openro" -> IF login = "so" THEN Done(t, "SESSION_READ_WRITE_SO_EXISTS", "") /\ UNCHANGED <<login, nsess, pin, open, ro>>
                            ELSE /\ nsess' = nsess + 1 /\ open' = [open EXCEPT ![t] = TRUE] /\ ro' = [ro EXCEPT ![t] = TRUE]
                                 /\ Done(t, "OK", "") /\ UNCHANGED <<login, pin>>
         [] c = "loginso" -> IF ROExists THEN Done(t, "SESSION_READ_ONLY_EXISTS", "") /\ UNCHANGED <<login, nsess, pin, open>>
                             ELSE IF login = "user" THEN Done(t, "USER_ANOTHER_ALREADY_LOGGED_IN", "") /\ UNCHANGED <<login, nsess, pin, open>>
                             ELSE IF login = "so" THEN Done(t, "USER_ALREADY_LOGGED_IN", "") /\ UNCHANGED <<login, nsess, pin, open>>
                             ELSE IF a = "SO" THEN login' = "so" /\ Done(t, "OK", "") /\ UNCHANGED <<nsess, pin, open>>
                             ELSE Done(t, "PIN_INCORRECT", "") /\ UNCHANGED <<login, nsess, pin, open>>
         \* closing the last session of the token logs out
         [] c = "close"  -> /\ nsess' = nsess - 1 /\ open' = [open EXCEPT ![t] = FALSE] /\ Done(t, "OK", "")
                            /\ skey' = IF skey = t THEN 0 ELSE skey        \* (session objects die with their session)
                            /\ ro' = [ro EXCEPT ![t] = FALSE]
                            /\ login' = (IF nsess = 1 THEN "none" ELSE login) /\ UNCHANGED pin
         [] c = "login"  -> IF login = "so" THEN Done(t, "USER_ANOTHER_ALREADY_LOGGED_IN", "") /\ UNCHANGED <<login, nsess, pin, open>>
                            ELSE IF login = "user" THEN Done(t, "USER_ALREADY_LOGGED_IN", "") /\ UNCHANGED <<login, nsess, pin, open>>
                            ELSE IF a = pin THEN login' = "user" /\ Done(t, "OK", "") /\ UNCHANGED <<nsess, pin, open>>
                            ELSE Done(t, "PIN_INCORRECT", "") /\ UNCHANGED <<login, nsess, pin, open>>
         [] c = "logout" -> login' = "none" /\ Done(t, "OK", "") /\ UNCHANGED <<nsess, pin, open>>
         [] c = "sessinfo" -> Done(t, "OK", StateOf(t)) /\ UNCHANGED <<login, nsess, pin, open>>
         \* C_SetPIN(old, new) in a public or user session: only with the PIN that is current AT THAT INSTANT
         [] c = "setpin" -> IF a = pin THEN pin' = b /\ Done(t, "OK", "") /\ UNCHANGED <<login, nsess, open>>
                            ELSE Done(t, "PIN_INCORRECT", "") /\ UNCHANGED <<login, nsess, pin, open>>
         \* C_CreateObject of a private session object: the user must be logged in
         \* A public, SENSITIVE and unextractable session key that every session of the token can find:
         \* C_CreateObject; C_SetAttributeValue with a template that is refused (CKA_SENSITIVE = false); and
         \* C_GetAttributeValue(CKA_VALUE), which answers CKR_ATTRIBUTE_SENSITIVE and hands out no byte - at every instant,
         \* also while the refused C_SetAttributeValue of another thread is being rolled back (C02)
         [] c = "mksens" -> IF skey # 0 THEN Done(t, "EXISTS", "") /\ UNCHANGED <<login, nsess, pin, open, skey>>
                            ELSE skey' = t /\ Done(t, "OK", "") /\ UNCHANGED <<login, nsess, pin, open>>
         [] c = "badset" -> /\ Done(t, IF skey # 0 THEN "ATTRIBUTE_READ_ONLY" ELSE "NOKEY", "")
                            /\ UNCHANGED <<login, nsess, pin, open>>
         [] c = "readsens" -> /\ Done(t, IF skey # 0 THEN "ATTRIBUTE_SENSITIVE" ELSE "NOKEY", "")
                              /\ UNCHANGED <<login, nsess, pin, open>>
         \* A public TOKEN key every session can change: a valid C_SetAttributeValue (label := a), one whose template is refused
         \* at its last entry (nothing of it may stay - C09, also while another thread's change is under way), and a read
         \* (as built, TransactionBusy: while another thread's change of the key is under way the call may be refused, without effect)
         [] c = "tset"    -> /\ UNCHANGED <<login, nsess, pin, open>>
                             /\ \/ tlab' = a /\ Done(t, "OK", "")
                                \/ "TransactionBusy" \in Dev /\ pend[t].busy /\ UNCHANGED tlab /\ Done(t, "BUSY", "")
         [] c = "tbadset" -> /\ UNCHANGED <<login, nsess, pin, open>>
                             /\ \/ Done(t, "ATTRIBUTE_READ_ONLY", "")
                                \/ "TransactionBusy" \in Dev /\ pend[t].busy /\ Done(t, "BUSY", "")
         \* (as built, DirtyRead: the attributes another thread's C_SetAttributeValue has written so far are visible before that
         \*  call has committed - or been rolled back -, and a read that overlaps such a call may fail)
         [] c = "tget"    -> /\ UNCHANGED <<login, nsess, pin, open>>
                             /\ \/ Done(t, "OK", tlab)
                                \/ /\ "DirtyRead" \in Dev
                                   /\ \/ \E w \in Threads \ {t} : pend[w].st # "idle" /\ pend[w].c \in TokSets /\ Done(t, "OK", pend[w].a)
                                      \/ pend[t].busy /\ Done(t, "BUSY", "")
         \* ... and likewise C_UnwrapKey into a private token key
         [] c \in {"createpriv", "unwrappriv"} ->
                                /\ Done(t, IF login = "user" THEN "OK" ELSE "USER_NOT_LOGGED_IN", "")
                                /\ UNCHANGED <<login, nsess, pin, open>>

\* As built (known finding K18-logout-split): C_Logout is not one step.  It resets the login state first and purges the
\* private session objects and the handles of private objects afterwards, with no lock spanning the two: a private
\* session object that another thread is building meanwhile - even after logging in AGAIN - is purged, and its creation
\* fails with an error that no sequential order explains.
PurgedByLogout(t, c, rv) == /\ "LogoutSplit" \in Dev /\ c \in {"createpriv", "unwrappriv"} /\ pend[t].lo
                            /\ rv \notin {"OK", "USER_NOT_LOGGED_IN"}
\* (as built, same finding: the key material of a key that is being made while another thread logs out cannot be
\*  encrypted any more; the result of token->encrypt is not looked at, C_UnwrapKey returns CKR_OK and leaves a key
\*  WITHOUT value.  What must never happen, deviation or not: the value stored in clear.)
\* As built (known finding K18-transaction-busy): an object file has room for ONE transaction; the C_SetAttributeValue of a
\* second thread on the same token object does not wait, it fails with CKR_GENERAL_ERROR (without effect).
BusyRefused(t, c, rv) == pend[t].rv = "BUSY" /\ rv \notin {"OK", "ATTRIBUTE_READ_ONLY"}     \* (also a tget, under DirtyRead)
\* As built (known finding K18-torn-write): after a roll-back ObjectFile::refresh(true) empties the attribute map and reloads
\* it in separate critical sections; the commit of another thread's C_SetAttributeValue in between stores the half-empty
\* map: the object file keeps a handful of attributes, the key cannot be found any more - not even after a restart.
KeyLost(c, rv) == "TornWrite" \in Dev /\ trisk /\ c \in TokSets \cup {"tget"} /\ rv = "LOST"
Ret(t, c, rv, out) ==
    /\ pend[t].st = "done" /\ pend[t].c = c
    /\ (pend[t].rv = rv /\ pend[t].out = out) \/ PurgedByLogout(t, c, rv) \/ BusyRefused(t, c, rv) \/ KeyLost(c, rv)
       \/ ("LogoutSplit" \in Dev /\ c = "unwrappriv" /\ pend[t].lo /\ rv = "OK")
    /\ nkey' = IF c = "unwrappriv" /\ rv = "OK" THEN nkey + 1 ELSE nkey
    /\ nracy' = IF c = "unwrappriv" /\ pend[t].lo THEN nracy + 1 ELSE nracy
    /\ pend' = [pend EXCEPT ![t] = Idle] /\ UNCHANGED <<login, nsess, pin, open, ro, tlab, trisk, skey>>

\* what a single thread finds afterwards: the login state, and which PIN logs in
\* ... and of the keys: as many as calls succeeded; each has the value that was wrapped (as built: except the ones made
\* while another thread logged out); the value is nowhere in the token directory in clear (C06) - no exception
Final(st, goodpin, nkeys, bad, plain, lab) ==
    /\ \A t \in Threads : pend[t].st = "idle"
    /\ st = StateName /\ goodpin = pin
    \* the label of the shared token key, read after a restart ("n/a": there is no such key)
    /\ lab = tlab \/ ("TornWrite" \in Dev /\ trisk /\ lab = "n/a")
    /\ plain = 0
    /\ nkeys = nkey \/ ("LogoutSplit" \in Dev /\ nkeys <= nkey + nracy /\ nkey <= nkeys + nracy)
    /\ bad = 0 \/ ("LogoutSplit" \in Dev /\ bad <= nracy)

Next == \/ \E t \in Threads, c \in Calls, a \in PinSyms \cup {""}, b \in PinSyms \cup {""} : Inv(t, c, a, b)
        \/ \E t \in Threads : Lin(t)
        \/ \E t \in Threads, c \in Calls, rv \in {"OK", "PIN_INCORRECT", "USER_ALREADY_LOGGED_IN", "USER_NOT_LOGGED_IN", "ATTRIBUTE_SENSITIVE",
                     "ATTRIBUTE_READ_ONLY", "NOKEY", "EXISTS", "USER_ANOTHER_ALREADY_LOGGED_IN", "SESSION_READ_ONLY_EXISTS",
                     "SESSION_READ_WRITE_SO_EXISTS", "GENERAL_ERROR", "LOST"},
              out \in {"", "RW_USER", "RW_PUBLIC", "RW_SO", "RO_USER", "RO_PUBLIC", "LEAK", "orig", "A", "B"} : Ret(t, c, rv, out)
Spec == Init /\ [][Next]_vars

TypeOK == /\ login \in {"none", "user", "so"} /\ nsess \in 0 .. Cardinality(Threads) + 1 /\ pin \in PinSyms
          /\ \A t \in Threads : pend[t].st \in {"idle", "inv", "done"}
\* the sessions the threads hold are the sessions of the token (plus the ones being opened / closed right now)
SessionCount == nsess = Cardinality({t \in Threads : open[t]})
\* nobody is logged in on a token without sessions
NoLoginWithoutSession == nsess = 0 => login = "none"
\* C03: no read-only session while the SO is logged in
NoROwithSO == ~(login = "so" /\ ROExists)
=============================================================================
