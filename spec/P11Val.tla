------------------------------- MODULE P11Val --------------------------------
(***************************************************************************)
(* The VALUES of keys and outputs (C13, C10, C20).  Values are terms, kept *)
(* in a table (tbl) so that equal terms get equal numbers:                 *)
(*   imp(kind, i)          the i-th fixed key of that kind (imported)      *)
(*   gen(n)                whatever C_GenerateKey produced for key n       *)
(*   der(mech, base, d, kind)   C_DeriveKey                                *)
(*   pad8(v)               v zero-padded to a multiple of 8 bytes          *)
(*                         (CKM_AES_KEY_WRAP carries no length)            *)
(*   blob(mech, wv, kv, iv)     C_WrapKey output (deterministic mechanisms)*)
(*   out(op, mode, kv, d)       C_Encrypt / C_Sign / C_Digest output - the *)
(*                         way the input is cut into parts is NOT part of  *)
(*                         the term: multi-part = single-part              *)
(* The laws:  Unwrap(Wrap(k)) = k (pad8(k) for AES_KEY_WRAP and a length   *)
(* that is no multiple of 8), same type; a blob that was damaged, or the   *)
(* wrong key or mechanism, does not unwrap under an integrity-protected    *)
(* mechanism and creates no object; equal terms are equal byte strings -   *)
(* in every configuration (file/db x OpenSSL/Botan).  What the bytes of a  *)
(* primitive term ARE is not decided here: the trace carries, next to the  *)
(* bytes the library produced, the bytes the independent reference         *)
(* (vf/refcrypto.py) computes from the same concrete inputs; the trace     *)
(* specification demands that they are equal.                              *)
(***************************************************************************)
EXTENDS Naturals, FiniteSets, Sequences, TLC
CONSTANTS MaxK, MaxB,
          Kinds,      \* key kinds in play: "aes16", "aes32", "des3", "gen16", "gen20", "rsa"
          WrapMechs,  \* subset of {"KW", "KWP", "CBC", "CBCPAD", "RSA", "OAEP"}
          DerMechs,   \* subset of {"ECB", "CBCD", "CATBD", "CATDB", "CATBK"}
          Datas,      \* data numbers (the driver maps them to byte strings; 1..3 are 16, 32, 48 bytes)
          Modes,      \* deterministic modes of C_Encrypt / C_Sign / C_Digest
          RModes,     \* randomised ones
          Chunks,     \* ways to cut the input into parts
          ImpIdx,     \* which of the fixed keys of a kind are imported
          WTmpls, UTmpls,  \* CKA_WRAP_TEMPLATE / CKA_UNWRAP_TEMPLATE values in play (names, see TEnc / TKt)
          Acts

LenOf(k) == CASE k = "aes16" -> 16 [] k = "aes32" -> 32 [] k = "des3" -> 24 [] k = "gen16" -> 16 [] k = "gen20" -> 20
              [] k = "gen24" -> 24 [] k = "gen32" -> 32 [] k = "gen64" -> 64 [] OTHER -> 0
IsAes(k) == k \in {"aes16", "aes32"}
Sym(k)   == k \notin {"rsa", "dh", "ec", "ed", "dsa"}

\* ---- CKA_WRAP_TEMPLATE / CKA_UNWRAP_TEMPLATE of a wrapping key.  A template is a set of (attribute, value) entries;
\* the ones in play constrain CKA_ENCRYPT (a flag every secret key has, an RSA private key has not) and CKA_KEY_TYPE.
\*   wrap:   a key may be wrapped under w only if it HAS every attribute of w's wrap template with exactly that value
\*   unwrap: the key that comes out of an unwrap under w carries every entry of w's unwrap template; a caller's
\*           template that says otherwise is refused (as built: one that is silent about an entry is refused as well)
AllTmpls == {"none", "empty", "encT", "encF", "ktAes", "ktAesEncF", "ktDes3"}
TEnc(t) == CASE t = "encT" -> "T" [] t \in {"encF", "ktAesEncF"} -> "F" [] OTHER -> "any"
TKt(t)  == CASE t \in {"ktAes", "ktAesEncF"} -> "aes" [] t = "ktDes3" -> "des3" [] OTHER -> "any"
KtOf(kind) == CASE IsAes(kind) -> "aes" [] kind = "des3" -> "des3" [] Sym(kind) -> "gen" [] OTHER -> kind
EncOf(kind, enc) == IF ~Sym(kind) THEN "absent" ELSE IF enc THEN "T" ELSE "F"
\* the key (kind, enc) has every entry of template t
Matches(t, kind, enc) == /\ TEnc(t) \in {"any", EncOf(kind, enc)}
                         /\ TKt(t) \in {"any", KtOf(kind)}

VARIABLES key,   \* [1..MaxK -> [st, kind, v, enc, wt, ut, by]]   v: index into tbl; by: the key it was unwrapped under
          blob,  \* [1..MaxB -> [st, m, wv, kv, kk, iv, bad, w, enc]]
          nk, nb,
          tbl,   \* sequence of terms [t, k, a, m, d]
          out    \* expectation for the call: [rv ("OK", "ERR", "ANY"), k, b, v, made (objects created)]
vars == <<key, blob, nk, nb, tbl, out>>
View == <<key, blob, nk, nb, tbl>>

NoKey  == [st |-> "none", kind |-> "", v |-> 0, enc |-> TRUE, wt |-> "none", ut |-> "none", by |-> 0]
NoBlob == [st |-> "none", m |-> "", wv |-> 0, kv |-> 0, kk |-> "", iv |-> 0, bad |-> FALSE, w |-> 0, enc |-> TRUE]
Term(t, k, a, m, d) == [t |-> t, k |-> k, a |-> a, m |-> m, d |-> d]
Has(x)  == \E i \in 1 .. Len(tbl) : tbl[i] = x
Idx(x)  == IF Has(x) THEN CHOOSE i \in 1 .. Len(tbl) : tbl[i] = x ELSE Len(tbl) + 1
Put(x)  == tbl' = IF Has(x) THEN tbl ELSE Append(tbl, x)
Out(rv, k, b, v, made) == [rv |-> rv, k |-> k, b |-> b, v |-> v, made |-> made]

Init == /\ key = [i \in 1 .. MaxK |-> NoKey] /\ blob = [i \in 1 .. MaxB |-> NoBlob] /\ nk = 0 /\ nb = 0
        /\ tbl = <<>> /\ out = Out("none", 0, 0, 0, 0)

Live(i)  == i \in 1 .. nk /\ key[i].st = "live"
BLive(b) == b \in 1 .. nb /\ blob[b].st = "live"
NewKeyA(kind, term, enc, wt, ut, by) ==
                      /\ nk < MaxK /\ nk' = nk + 1 /\ Put(term)
                      /\ key' = [key EXCEPT ![nk + 1] = [st |-> "live", kind |-> kind, v |-> Idx(term), enc |-> enc, wt |-> wt,
                                                          ut |-> ut, by |-> by]]
                      /\ out' = Out("OK", nk + 1, 0, Idx(term), 1)
NewKey(kind, term) == NewKeyA(kind, term, TRUE, "none", "none", 0)
Fail(rv) == out' = Out(rv, 0, 0, 0, 0) /\ UNCHANGED <<key, nk, tbl>>

MImport(kind, i) == /\ "imp" \in Acts /\ kind \in Kinds /\ i \in ImpIdx /\ NewKey(kind, Term("imp", kind, i, "", 0)) /\ UNCHANGED <<blob, nb>>
\* a wrapping key (AES, or the RSA pair: the wrap template sits on the public, the unwrap template on the private key) or
\* a key to be wrapped, imported with CKA_ENCRYPT = enc and the two templates
MImportT(kind, i, enc, wt, ut) ==
    /\ "impt" \in Acts /\ kind \in Kinds /\ i \in ImpIdx /\ wt \in WTmpls /\ ut \in UTmpls /\ enc \in BOOLEAN
    /\ (~Sym(kind) => enc)
    \* (one template at a time, on a key that is otherwise ordinary: keeps the graphs small)
    /\ (wt = "none" \/ ut = "none") /\ (wt # "none" \/ ut # "none" => enc)
    /\ ("two" \in Acts => nk < 2)      \* (a wrapping key and a key to wrap)
    /\ NewKeyA(kind, Term("imp", kind, i, "", 0), enc, wt, ut, 0) /\ UNCHANGED <<blob, nb>>
MGenerate(kind)  == /\ "gen" \in Acts /\ kind \in Kinds \ {"rsa", "dh", "ec", "ed", "dsa"}
                    /\ NewKey(kind, Term("gen", kind, nk + 1, "", 0)) /\ UNCHANGED <<blob, nb>>

\* ---- wrap / unwrap
WrapKeyOK(m, wk) == IF m \in {"RSA", "OAEP"} THEN wk = "rsa" ELSE IsAes(wk)
\* what can be wrapped: secret keys; CBC without padding needs whole blocks; RSA needs the value to fit
\* (the RSA private key of the pair can be wrapped - as PKCS#8 - under the AES mechanisms that take any length)
Wrappable(m, kk) == \/ Sym(kk) /\ (m = "CBC" => LenOf(kk) % 16 = 0)
                    \/ kk = "rsa" /\ m \in {"KWP", "CBCPAD"}
Randomised(m)    == m \in {"RSA", "OAEP"}
MWrap(m, w, k, iv) ==
    /\ "wrap" \in Acts /\ m \in WrapMechs /\ Live(w) /\ Live(k) /\ nb < MaxB /\ iv \in (IF m \in {"CBC", "CBCPAD"} THEN {1, 2} ELSE {0})
    /\ UNCHANGED <<key, nk>>
    /\ IF WrapKeyOK(m, key[w].kind) /\ Wrappable(m, key[k].kind) /\ Matches(key[w].wt, key[k].kind, key[k].enc)
       THEN LET term == IF Randomised(m) THEN Term("rblob", m, nb + 1, "", 0) ELSE Term("blob", m, key[w].v, key[k].kind, key[k].v * 10 + iv) IN
            /\ Put(term) /\ nb' = nb + 1
            /\ blob' = [blob EXCEPT ![nb + 1] = [st |-> "live", m |-> m, wv |-> key[w].v, kv |-> key[k].v, kk |-> key[k].kind,
                                                 iv |-> iv, bad |-> FALSE, w |-> w, enc |-> key[k].enc]]
            /\ out' = Out("OK", 0, nb + 1, Idx(term), 0)
       ELSE out' = Out("ERR", 0, 0, 0, 0) /\ UNCHANGED <<blob, nb, tbl>>

\* the blob is damaged (one bit flipped, or cut short)
MDamage(b, how) == /\ "damage" \in Acts /\ BLive(b) /\ ~blob[b].bad /\ how \in {"flip", "cut"}
                   /\ blob' = [blob EXCEPT ![b].bad = TRUE] /\ out' = Out("OK", 0, b, 0, 0) /\ UNCHANGED <<key, nk, nb, tbl>>

Integrity(m) == m \in {"KW", "KWP", "OAEP"}
\* the unwrapping key fits: the same AES key value, or the RSA key (there is one pair)
Fits(m, w, b) == m = blob[b].m /\ (IF Randomised(m) THEN key[w].kind = "rsa" ELSE IsAes(key[w].kind) /\ key[w].v = blob[b].wv)
UnwrappedKind(m, kk) == IF m = "KW" /\ LenOf(kk) % 8 # 0 THEN "gen24" ELSE kk
\* e: what the caller's template says about CKA_ENCRYPT: "T", "F", "absent" (silent), or the attribute TWICE with
\* different values, "TF" / "FT" (then the last entry is the one that counts for the key)
Last(e) == CASE e = "TF" -> "F" [] e = "FT" -> "T" [] OTHER -> e
UnwrapE(m, w, b, e) ==
    \* (the library offers CKM_AES_CBC for wrapping only; what it wrapped is judged by the reference)
    /\ m \in WrapMechs \ {"CBC"} /\ Live(w) /\ BLive(b) /\ UNCHANGED <<blob, nb>>
    /\ (~Sym(blob[b].kk) => e = "absent")
    /\ LET kk == UnwrappedKind(m, blob[b].kk)
           ut == key[w].ut
           le == Last(e)
           enc == IF le = "absent" THEN (TEnc(ut) # "F") ELSE le = "T"       \* (CKA_ENCRYPT defaults to true)
           term == IF kk = blob[b].kk THEN tbl[blob[b].kv] ELSE Term("pad8", kk, blob[b].kv, "", 0) IN
       IF ~WrapKeyOK(m, key[w].kind) THEN Fail("ERR")
       \* the caller's template contradicts the unwrap template of w (with a repeated entry: the value that would count)
       ELSE IF TKt(ut) \notin {"any", KtOf(kk)} \/ (le # "absent" /\ TEnc(ut) \notin {"any", le}) THEN Fail("ERR")
       \* an RSA private key has no CKA_ENCRYPT: an unwrap template that demands one cannot be satisfied
       ELSE IF ~Sym(kk) /\ TEnc(ut) # "any" THEN Fail("ERR")
       \* ... is silent about an entry, or names it twice: refused (as built), or the entry is applied / the last one counts
       ELSE IF (e = "absent" \/ e \in {"TF", "FT"}) /\ TEnc(ut) # "any"
       THEN \/ Fail("ERR")
            \/ Fits(m, w, b) /\ ~blob[b].bad /\ NewKeyA(kk, term, enc, "none", "none", w)
       ELSE IF Fits(m, w, b) /\ ~blob[b].bad
       THEN NewKeyA(kk, term, enc, "none", "none", w)
       \* wrong key, wrong mechanism or damaged blob: an integrity-protected mechanism rejects it, nothing is created
       ELSE IF Integrity(m) THEN Fail("ERR")
       \* no integrity protection (CBC, PKCS#1 v1.5): rejected, or a key with some other value comes out
       ELSE \/ Fail("ERR")
            \/ nk < MaxK /\ NewKeyA(blob[b].kk, Term("junk", blob[b].kk, nk + 1, m, b), enc, "none", "none", w)
MUnwrap(m, w, b) == "unwrap" \in Acts /\ UnwrapE(m, w, b, IF Sym(blob[b].kk) THEN "T" ELSE "absent")
MUnwrapT(m, w, b, e) == "unwrapt" \in Acts /\ e \in {"T", "F", "absent", "TF", "FT"} /\ UnwrapE(m, w, b, e)

\* a blob is unwrapped with a template of the other object class (a secret as an RSA private key, a private key as a
\* secret): the key material cannot be installed; the call fails and nothing may be left behind
MUnwrapAs(m, w, b) ==
    /\ "unwrapas" \in Acts /\ m \in WrapMechs \ {"CBC"} /\ Live(w) /\ BLive(b) /\ Fits(m, w, b) /\ ~blob[b].bad
    /\ blob[b].kk # "rsa"          \* (a PKCS#8 blob taken as a secret key is just a long secret: not an error)
    /\ Fail("ERR") /\ UNCHANGED <<blob, nb>>

\* ---- derive
DataLen(d) == 16 * d
DerOK(m, bk, d, kind) ==
    /\ Sym(bk) /\ Sym(kind)
    /\ CASE m = "ECB"   -> (IsAes(bk) \/ bk = "des3") /\ DataLen(d) >= LenOf(kind)      \* AES_ / DES3_ECB_ENCRYPT_DATA
         [] m = "CBCD"  -> (IsAes(bk) \/ bk = "des3") /\ DataLen(d) >= LenOf(kind)
         \* (concatenation into a DES key is left out: SoftHSM wants no CKA_VALUE_LEN for DES keys and then has no length)
         [] m = "CATBD" -> LenOf(bk) + DataLen(d) >= LenOf(kind) /\ kind # "des3"
         [] m = "CATDB" -> LenOf(bk) + DataLen(d) >= LenOf(kind) /\ kind # "des3"
         \* d names the other party's public value: 1 ordinary, 2 / 3 chosen so that the shared secret starts with one / two
         \* zero octets (which belong to the value)
         [] m = "DH"    -> FALSE
         [] m = "ECDH"  -> FALSE
         [] OTHER -> FALSE
PkDerOK(m, bk, d, kind) == /\ Sym(kind) /\ kind # "des3"
                           /\ \/ m = "DH" /\ bk = "dh" /\ LenOf(kind) <= 128
                              \/ m = "ECDH" /\ bk = "ec" /\ LenOf(kind) <= 32
MDerive(m, base, d, kind) ==
    /\ "derive" \in Acts /\ m \in DerMechs /\ Live(base) /\ d \in Datas /\ kind \in Kinds \ {"rsa"} /\ UNCHANGED <<blob, nb>>
    /\ IF DerOK(m, key[base].kind, d, kind) \/ PkDerOK(m, key[base].kind, d, kind)
       THEN NewKey(kind, Term("der", kind, key[base].v, m, d)) ELSE Fail("ERR")

\* ---- reading a key: CKA_VALUE denotes the term, CKA_CHECK_VALUE is the standard one for it
MValue(k) == /\ "value" \in Acts /\ Live(k) /\ (Sym(key[k].kind) \/ key[k].kind = "rsa") /\ out' = Out("OK", k, 0, key[k].v, 0)
             /\ UNCHANGED <<key, blob, nk, nb, tbl>>

\* the same after C_Finalize / C_Initialize (all keys are token objects: they are found again, through new handles, with
\* the same value and the same attributes - whatever the storage backend has done with them in between)
MValueR(k) == /\ "valuer" \in Acts /\ Live(k) /\ (Sym(key[k].kind) \/ key[k].kind = "rsa") /\ out' = Out("OK", k, 0, key[k].v, 0)
              /\ UNCHANGED <<key, blob, nk, nb, tbl>>

\* ---- deterministic operations: the output is a function of (mode, key value, data) - not of the chunking
ModeKeyOK(mode, kind) ==
    CASE mode \in {"aes-ecb", "aes-cbc", "aes-cbcpad", "aes-ctr", "aes-gcm", "aes-cmac", "aes-gcm2", "aes-ctr64"} -> IsAes(kind)
      [] mode \in {"des3-cbcpad", "des3-cmac", "des3-ecb"} -> kind = "des3"
      \* (SoftHSM wants an HMAC key at least as long as the digest)
      [] mode = "hmac-sha1"   -> kind \in {"gen20", "gen24", "gen32", "gen64"}
      [] mode = "hmac-sha256" -> kind \in {"gen32", "gen64"}
      [] mode = "hmac-sha512" -> kind = "gen64"
      [] mode \in {"rsa-pkcs", "sha256-rsa-pkcs", "sha256-rsa-pss", "rsa-oaep", "rsa-pkcs-enc", "rsa-x509"} -> kind = "rsa"
      [] mode = "eddsa" -> kind = "ed"
      [] mode = "dsa-sha256" -> kind = "dsa"
      [] mode = "ecdsa" -> kind = "ec"
      [] OTHER -> FALSE
NeedsBlocks(mode) == mode \in {"aes-ecb", "aes-cbc", "des3-ecb"}
\* (output terms are not entered in the table - nothing refers to them later; the expectation carries the term)
MCrypt(mode, k, d, ch) ==
    /\ "crypt" \in Acts /\ mode \in Modes /\ Live(k) /\ ModeKeyOK(mode, key[k].kind) /\ d \in Datas /\ ch \in Chunks
    /\ out' = [Out("OK", k, 0, 0, 0) EXCEPT !.made = 0] @@ [term |-> Term("out", mode, key[k].v, "", d)]
    /\ UNCHANGED <<key, blob, nk, nb, tbl>>
MDigest(mode, d, ch) ==
    /\ "digest" \in Acts /\ mode \in {"sha1", "sha256", "sha512", "md5"} /\ d \in Datas /\ ch \in Chunks
    /\ out' = Out("OK", 0, 0, 0, 0) @@ [term |-> Term("out", mode, 0, "", d)]
    /\ UNCHANGED <<key, blob, nk, nb, tbl>>
\* randomised: nothing to compare bytes with; the reference must accept the output and the library the reference's
MRCrypt(mode, k, d) ==
    /\ "rcrypt" \in Acts /\ mode \in RModes /\ Live(k) /\ ModeKeyOK(mode, key[k].kind) /\ d \in Datas
    /\ out' = Out("OK", k, 0, 0, 0) /\ UNCHANGED <<key, blob, nk, nb, tbl>>

KS == 1 .. MaxK
BS == 1 .. MaxB
AllKinds == {"aes16", "aes32", "des3", "gen16", "gen20", "gen24", "gen32", "gen64", "rsa", "dh", "ec", "ed", "dsa"}
AllWrap  == {"KW", "KWP", "CBC", "CBCPAD", "RSA", "OAEP"}
AllDer   == {"ECB", "CBCD", "CATBD", "CATDB", "DH", "ECDH"}
AllModes == {"aes-ecb", "aes-cbc", "aes-cbcpad", "aes-ctr", "aes-gcm", "aes-cmac", "des3-cbcpad", "des3-cmac", "des3-ecb",
             "hmac-sha256", "hmac-sha1", "hmac-sha512", "rsa-pkcs", "sha256-rsa-pkcs", "aes-gcm2", "aes-ctr64", "rsa-x509",
             "eddsa"}
AllR     == {"sha256-rsa-pss", "rsa-oaep", "rsa-pkcs-enc", "ecdsa", "dsa-sha256"}
Next == \/ \E kind \in AllKinds, i \in 1 .. 2 : MImport(kind, i)
        \/ \E kind \in AllKinds, i \in 1 .. 2, enc \in BOOLEAN, wt \in AllTmpls, ut \in AllTmpls : MImportT(kind, i, enc, wt, ut)
        \/ \E kind \in AllKinds : MGenerate(kind)
        \/ \E m \in AllWrap, w \in KS, k \in KS, iv \in 0 .. 2 : MWrap(m, w, k, iv)
        \/ \E b \in BS, how \in {"flip", "cut"} : MDamage(b, how)
        \/ \E m \in AllWrap, w \in KS, b \in BS : MUnwrap(m, w, b)
        \/ \E m \in AllWrap, w \in KS, b \in BS, e \in {"T", "F", "absent", "TF", "FT"} : MUnwrapT(m, w, b, e)
        \/ \E m \in AllWrap, w \in KS, b \in BS : MUnwrapAs(m, w, b)
        \/ \E m \in AllDer, base \in KS, d \in 1 .. 3, kind \in AllKinds : MDerive(m, base, d, kind)
        \/ \E k \in KS : MValue(k)
        \/ \E k \in KS : MValueR(k)
        \/ \E mode \in AllModes, k \in KS, d \in 0 .. 4, ch \in 0 .. 5 : MCrypt(mode, k, d, ch)
        \/ \E mode \in {"sha1", "sha256", "sha512", "md5"}, d \in 0 .. 4, ch \in 0 .. 5 : MDigest(mode, d, ch)
        \/ \E mode \in AllR, k \in KS, d \in 0 .. 4 : MRCrypt(mode, k, d)
Spec == Init /\ [][Next]_vars

TypeOK == nk \in 0 .. MaxK /\ nb \in 0 .. MaxB /\ \A i \in 1 .. nk : key[i].v \in 1 .. Len(tbl)
\* a key that came out of an unwrap has the value that went into the wrap (or its padding): Unwrap(Wrap(k)) = k
UnwrapIsInverse == \A b \in 1 .. nb : \A i \in 1 .. nk :
    (tbl[key[i].v].t = "pad8" /\ tbl[key[i].v].a = blob[b].kv) => LenOf(blob[b].kk) % 8 # 0
\* the templates are honoured: nothing was ever wrapped under a key whose wrap template it did not match, and every
\* key that came out of an unwrap carries the entries of the unwrap template of the key it was unwrapped under
WrapTemplateHonoured   == \A b \in 1 .. nb : blob[b].st = "live" => Matches(key[blob[b].w].wt, blob[b].kk, blob[b].enc)
UnwrapTemplateHonoured == \A i \in 1 .. nk : key[i].by # 0 => Matches(key[key[i].by].ut, key[i].kind, key[i].enc)
=============================================================================
