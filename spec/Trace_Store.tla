----------------------------- MODULE Trace_Store -----------------------------
(* Trace specification for Store (driver vf/drv_store.py).  After every call   *)
(* the three recorded projections must equal the specification's next state:   *)
(*   api    the acting library instance        (= mem)                         *)
(*   fresh  a new process on the directory     (= what Restart would give)     *)
(*   disk   the independent decoder's reading  (= disk, values and forms)      *)
(* Obs selects the observations a property talks about.                        *)
EXTENDS Store, Json, IOUtils
CONSTANTS Obs
VARIABLE l
T == ndJsonDeserialize(IOEnv.TRACE)
E == T[l]
tvars == <<vars, l>>
ToSet(s) == {s[i] : i \in DOMAIN s}
Cls(x) == IF x = "OK" THEN "OK" ELSE "ERR"
Same(model, seen) == model = seen \/ (model = "?" /\ seen \notin {"", "!unreadable", "!missing"})

ApiOK(v, m) ==          \* v: recorded {objs, untagged}; m: id -> [tok, priv, a]
    LET os == ToSet(v.objs) IN
    /\ v.untagged = 0
    /\ {o.id : o \in os} = DOMAIN m /\ Len(v.objs) = Cardinality(DOMAIN m)
    /\ \A o \in os : /\ o.tok = m[o.id].tok /\ o.priv = m[o.id].priv /\ o.rv = "OK"
                     /\ \A s \in Slots : Same(m[o.id].a[s], o.a[s])
DiskOK(v) ==
    LET os == ToSet(v.objs) IN
    /\ v.err = "" /\ v.junk = 0                                   \* nothing but decodable objects in the directory
    /\ {o.id : o \in os} = DOMAIN disk' /\ Len(v.objs) = Cardinality(DOMAIN disk')
    /\ \A o \in os : /\ o.priv = disk'[o.id].priv
                     /\ \A s \in Slots : Same(disk'[o.id].a[s].v, o.a[s][2])
EncOK(v) ==
    LET os == ToSet(v.objs) IN
    /\ \A o \in os : o.id \in DOMAIN disk' =>
           \A s \in Slots : \/ o.a[s][1] = disk'[o.id].a[s].form   \* encrypted exactly where the model says
                            \/ (s \in ByteSlots /\ disk'[o.id].a[s].v = "" /\ o.a[s][1] \in {"plain", "enc"})
                               \* (an EMPTY byte string holds nothing: the code stores it in either form)
    /\ v.ivdup = 0 /\ v.masterhits = 0 /\ v.badmode = 0
    \* a value of some object found in clear in a file: fine only if a public token object holds that value
    /\ \A hs \in ToSet(v.plainhits) : \E i \in ToSet(hs) : i \in DOMAIN disk' /\ ~disk'[i].priv

Post == /\ Cls(rv') = Cls(E.rv)
        /\ "api" \in Obs => ApiOK(E.api, mem')
        /\ ("fresh" \in Obs /\ "skip" \notin DOMAIN E.fresh) =>
              ApiOK(E.fresh, [id \in DOMAIN disk' |-> [tok |-> TRUE, priv |-> disk'[id].priv,
                                                        a |-> [s \in Slots |-> disk'[id].a[s].v]]])
        /\ "disk" \in Obs => DiskOK(E.disk)
        /\ "enc" \in Obs => EncOK(E.disk)
IsEv(name) == l <= Len(T) /\ E.e = name /\ l' = l + 1

TReset   == IsEv("Reset") /\ mem' = <<>> /\ disk' = <<>> /\ gone' = {} /\ rv' = "OK"
TCreate  == IsEv("MCreate") /\ Create(E.id, E.tok, E.priv, E.t, E.how) /\ Post
TSet     == IsEv("MSet") /\ SetAttrs(E.id, E.t) /\ Post
TCopy    == IsEv("MCopy") /\ Copy(E.id, E.src, E.tok, E.priv, E.t) /\ Post
TDestroy == IsEv("MDestroy") /\ Destroy(E.id) /\ Post
TRestart == IsEv("MRestart") /\ Restart /\ Post

TInit == Init /\ l = 1 /\ TLCSet(1, 1)
TNext == TReset \/ TCreate \/ TSet \/ TCopy \/ TDestroy \/ TRestart
TSpec == TInit /\ [][TNext]_tvars
TrackMax == IF l > TLCGet(1) THEN TLCSet(1, l) ELSE TRUE
TraceAccepted == PrintT(<<"MAXL", TLCGet(1)>>)
=============================================================================
