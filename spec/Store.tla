-------------------------------- MODULE Store --------------------------------
(***************************************************************************)
(* Objects in memory and on disk at call grain (C05 persistence, C06       *)
(* encryption at rest, C09 failed calls have no effect).                   *)
(*                                                                         *)
(*   mem   what the library instance answers: every live object with the   *)
(*         value of each attribute slot                                    *)
(*   disk  what the token directory holds for token objects: per slot the  *)
(*         value and its storage form - "plain", or "enc" (IV + AES-CBC    *)
(*         under the token's master key)                                   *)
(* A template is a sequence of <<slot, value>> entries; an entry           *)
(* <<"bad", kind>> is one the library must refuse (unknown attribute,      *)
(* read-only attribute, wrong size, inconsistent with the class).  A       *)
(* refused call changes neither mem nor disk, wherever the bad entry       *)
(* stands.  Restart = C_Finalize/C_Initialize or a new process: mem is     *)
(* rebuilt from disk alone.                                                *)
(***************************************************************************)
EXTENDS Naturals, FiniteSets, Sequences, TLC

VARIABLES mem,    \* id -> [tok, priv, a]     a: slot -> value symbol
          disk,   \* id -> [priv, a]          a: slot -> [form, v]
          gone,   \* ids destroyed (never reappear)
          rv

vars  == <<mem, disk, gone, rv>>
state == <<mem, disk, gone>>

Ext(f, k, v)  == [x \in (DOMAIN f) \cup {k} |-> IF x = k THEN v ELSE f[x]]
Without(f, S) == [x \in (DOMAIN f) \ S |-> f[x]]

\* attribute slots of the object kinds used (a secret key): byte strings, a boolean, a mechanism set, a nested template
ByteSlots   == {"lab", "val", "date"}
Slots       == ByteSlots \cup {"flag", "mech", "tmpl", "utmpl"}     \* (utmpl: CKA_UNWRAP_TEMPLATE, never supplied: stays empty)
Settable    == {"lab", "flag", "date"}          \* C_SetAttributeValue / C_CopyObject may change these
Default(s)  == IF s = "flag" THEN "F" ELSE IF s \in {"mech", "tmpl", "utmpl"} THEN "none" ELSE ""
Blank       == [s \in Slots |-> Default(s)]

Bad(tmpl)   == \E i \in DOMAIN tmpl : tmpl[i][1] = "bad"
RECURSIVE Apply(_, _)
Apply(a, tmpl) == IF tmpl = <<>> THEN a ELSE Apply([a EXCEPT ![Head(tmpl)[1]] = Head(tmpl)[2]], Tail(tmpl))
OnlySettable(tmpl) == \A i \in DOMAIN tmpl : tmpl[i][1] \in Settable

\* how a value is laid down in the token directory
FormOf(private, s, v) == IF private /\ s \in ByteSlots /\ v # "" THEN "enc" ELSE "plain"
ToDisk(private, a) == [s \in Slots |-> [form |-> FormOf(private, s, a[s]), v |-> a[s]]]

Fail(code) == rv' = code /\ UNCHANGED state
Init == mem = <<>> /\ disk = <<>> /\ gone = {} /\ rv = "OK"

\* C_CreateObject, and C_GenerateKey / C_UnwrapKey / C_DeriveKey (how): there the key value comes from the
\* library; "?" stands for a non-empty value the model does not know
Create(id, tok, private, tmpl, how) ==
    IF Bad(tmpl) THEN Fail("REFUSED")
    ELSE LET a0 == Apply(Blank, tmpl)
             a1 == IF how = "create" THEN a0 ELSE [a0 EXCEPT !["val"] = "?"] IN
         /\ id \notin DOMAIN mem /\ id \notin gone
         /\ mem'  = Ext(mem, id, [tok |-> tok, priv |-> private, a |-> a1])
         /\ disk' = IF tok THEN Ext(disk, id, [priv |-> private, a |-> ToDisk(private, a1)]) ELSE disk
         /\ rv' = "OK" /\ UNCHANGED gone

SetAttrs(id, tmpl) ==
    IF id \notin DOMAIN mem THEN Fail("HANDLE")
    ELSE IF Bad(tmpl) \/ ~OnlySettable(tmpl) THEN Fail("REFUSED")
    ELSE LET na == Apply(mem[id].a, tmpl) IN
         /\ mem'  = [mem EXCEPT ![id].a = na]
         /\ disk' = IF mem[id].tok THEN [disk EXCEPT ![id].a = ToDisk(mem[id].priv, na)] ELSE disk
         /\ rv' = "OK" /\ UNCHANGED gone

\* C_CopyObject; the copy may move (token/session) and may become private (values are then encrypted)
Copy(id, src, tok, private, tmpl) ==
    IF src \notin DOMAIN mem THEN Fail("HANDLE")
    ELSE IF Bad(tmpl) \/ ~OnlySettable(tmpl) \/ (mem[src].priv /\ ~private) THEN Fail("REFUSED")
    ELSE LET na == Apply(mem[src].a, tmpl) IN
         /\ id \notin DOMAIN mem /\ id \notin gone
         /\ mem'  = Ext(mem, id, [tok |-> tok, priv |-> private, a |-> na])
         /\ disk' = IF tok THEN Ext(disk, id, [priv |-> private, a |-> ToDisk(private, na)]) ELSE disk
         /\ rv' = "OK" /\ UNCHANGED gone

Destroy(id) ==
    IF id \notin DOMAIN mem THEN Fail("HANDLE")
    ELSE /\ mem' = Without(mem, {id}) /\ disk' = Without(disk, {id}) /\ gone' = gone \cup {id} /\ rv' = "OK"

\* C_Finalize + C_Initialize, or the view of a new process: only what the disk holds
FromDisk == [id \in DOMAIN disk |-> [tok |-> TRUE, priv |-> disk[id].priv, a |-> [s \in Slots |-> disk[id].a[s].v]]]
Restart == mem' = FromDisk /\ rv' = "OK" /\ UNCHANGED <<disk, gone>>
          \* session objects die with the library instance

-----------------------------------------------------------------------------
TypeOK == DOMAIN disk \subseteq DOMAIN mem
\* C05: after every successful call the disk says exactly what memory says about token objects
Durable == /\ DOMAIN disk = {id \in DOMAIN mem : mem[id].tok}
           /\ \A id \in DOMAIN disk : disk[id].priv = mem[id].priv /\ \A s \in Slots : disk[id].a[s].v = mem[id].a[s]
NeverReappear == DOMAIN mem \cap gone = {}
\* C06: byte strings of private objects are encrypted on disk, nothing else is
PrivateBytesEncrypted == \A id \in DOMAIN disk : \A s \in Slots :
                            disk[id].a[s].form = FormOf(disk[id].priv, s, disk[id].a[s].v)
\* C09
FailedNoEffect == [][rv' # "OK" => UNCHANGED state]_vars
RestartRestores == [][(mem' = FromDisk /\ UNCHANGED disk) => \A id \in DOMAIN mem : mem[id].tok => mem'[id] = mem[id]]_vars
=============================================================================
