------------------------------- MODULE Trace_MP -------------------------------
(* Trace specification for P11MP (coordinator vf/drv_mp.py): two or three REAL processes, each with its own       *)
(* library instance, make their calls on one token directory in the order a TLC behaviour prescribes.  Every     *)
(* event is one P11MP action; return value, value read and the set of objects found are bound to its result.    *)
EXTENDS P11MP, Json, IOUtils
VARIABLE l
T == ndJsonDeserialize(IOEnv.TRACE)
E == T[l]
tvars == <<vars, l>>
IsEv(name) == l <= Len(T) /\ E.e = name /\ l' = l + 1
Cls(x) == IF x = "OK" THEN "OK" ELSE IF x = "OBJECT_HANDLE_INVALID" THEN "INV" ELSE "ERR"
Found == {<<E.found[i][1], E.found[i][2]>> : i \in 1 .. Len(E.found)}

TReset   == IsEv("Reset") /\ obj' = [o \in Ids |-> None] /\ nxt' = 0 /\ hnd' = [p \in Procs |-> {}]
            /\ snap' = [p \in Procs |-> {}] /\ stale' = [p \in Procs |-> {}] /\ calls' = NCalls /\ out' = Out("none", 0, 0, {})
TCreate  == IsEv("Create") /\ MCreate(E.p, E.priv, E.tok) /\ E.rv = "OK" /\ E.o = out'.o
TSet     == IsEv("Set") /\ MSet(E.p, E.o, E.v) /\ Cls(E.rv) = out'.rv
TBadSet  == IsEv("BadSet") /\ MBadSet(E.p, E.o) /\ (IF out'.rv = "ERR" THEN Cls(E.rv) \notin {"OK", "INV"} ELSE Cls(E.rv) = out'.rv)
TGet     == IsEv("Get") /\ MGet(E.p, E.o) /\ Cls(E.rv) = out'.rv /\ (E.rv = "OK" => E.lab = out'.lab /\ E.same)
TDestroy == IsEv("Destroy") /\ MDestroy(E.p, E.o) /\ Cls(E.rv) = out'.rv
\* found exactly the visible matching objects, each once, with their current values
TFind    == IsEv("Find") /\ MFind(E.p, E.v) /\ E.rv = "OK" /\ Found = out'.found /\ Len(E.found) = Cardinality(Found)
            /\ E.unreadable = 0
\* a process started afterwards (logged in) sees exactly the live token objects
TFresh   == IsEv("Fresh") /\ E.rv = "OK" /\ Found = {<<o, obj[o].lab>> : o \in LiveTok} /\ Len(E.found) = Cardinality(Found)
            /\ E.unreadable = 0 /\ UNCHANGED vars

TInit == Init /\ l = 1 /\ TLCSet(1, 1)
TNext == TReset \/ TCreate \/ TSet \/ TBadSet \/ TGet \/ TDestroy \/ TFind \/ TFresh
TSpec == TInit /\ [][TNext]_tvars
TrackMax == IF l > TLCGet(1) THEN TLCSet(1, l) ELSE TRUE
TraceAccepted == PrintT(<<"MAXL", TLCGet(1)>>)
=============================================================================
