------------------------------- MODULE MC_Store -------------------------------
(* Bounded instance of Store.  Templates: valid ones, and every position of a  *)
(* bad entry (unknown / read-only / wrong size / inconsistent attribute, bad   *)
(* mechanism parameter, malformed wrapped blob) in templates of length <= 3.   *)
EXTENDS Store
CONSTANTS MaxObj, Acts, Level

Ids    == 1 .. MaxObj
NextId == Cardinality(DOMAIN mem \cup gone) + 1
Room   == NextId <= MaxObj
kv(a, v) == <<a, v>>
BadKinds == IF Level = "small" THEN {"readonly", "unknown"}
            ELSE {"unknown", "readonly", "wrongsize", "inconsistent"}
Goods  == { <<kv("lab", "x"), kv("val", "y")>>, <<kv("val", "x")>> }
          \cup (IF Level = "bytes" THEN { <<kv("lab", ""), kv("val", "x"), kv("date", "d1")>>, <<kv("lab", "y"), kv("val", "big")>> }
                ELSE IF Level = "small" THEN {} ELSE
                { <<kv("lab", ""), kv("val", "x"), kv("date", "d1")>>, <<kv("val", "y"), kv("mech", "m1"), kv("flag", "T")>>,
                  <<kv("lab", "y"), kv("val", "big"), kv("tmpl", "t1")>> })
\* a bad entry first, in the middle, last
WithBad(t, k) == { <<kv("bad", k)>> \o t, t \o <<kv("bad", k)>> }
                 \cup (IF Len(t) >= 2 THEN { <<t[1], kv("bad", k)>> \o SubSeq(t, 2, Len(t)) } ELSE {})
CreateT == Goods \cup UNION { WithBad(t, k) : t \in {<<kv("lab", "x"), kv("val", "y")>>}, k \in BadKinds }
MakeT   == { <<kv("lab", "x")>>, <<kv("lab", "y"), kv("flag", "T")>> }
           \cup UNION { WithBad(<<kv("lab", "x")>>, k) : k \in BadKinds \cup {"mechparam"} }
\* blob: garbage; blobtrunc: truncated; blobtype: a well-formed blob of another key class than the template asks
\* for (a wrapped secret unwrapped as a private key); toolong: more key bytes asked than the mechanism yields
UnwrapT == MakeT \cup { <<kv("lab", "x"), kv("bad", "blob")>>, <<kv("bad", "blobtrunc"), kv("lab", "x")>>,
                        <<kv("lab", "x"), kv("bad", "blobtype")>>, <<kv("bad", "toolong"), kv("lab", "y")>> }
SetT    == IF Level = "bytes"
           THEN { <<kv("lab", "y")>>, <<kv("lab", "")>>, <<kv("lab", "x")>>, <<kv("val", "y")>>,
                  <<kv("lab", "y"), kv("bad", "readonly")>> }
           ELSE { <<kv("lab", "y")>>, <<kv("lab", "")>>, <<kv("flag", "T")>>, <<kv("date", "d2")>>, <<kv("lab", "x"), kv("date", "")>>,
                  <<kv("val", "y")>>, <<kv("lab", "y"), kv("val", "x")>>, <<kv("mech", "m2")>> }
                \cup UNION { WithBad(<<kv("lab", "y"), kv("flag", "T")>>, k) : k \in BadKinds }
                \* one attribute twice (the last entry counts), alone and in front of an entry that is refused
                \cup { <<kv("lab", "y"), kv("lab", "x")>>, <<kv("lab", "y"), kv("lab", "x"), kv("bad", "readonly")>>,
                       <<kv("flag", "T"), kv("lab", "y"), kv("flag", "F"), kv("bad", "unknown")>> }
CopyT   == { <<>>, <<kv("lab", "y")>>, <<kv("lab", "y"), kv("bad", "readonly")>>, <<kv("bad", "unknown"), kv("lab", "y")>>,
             <<kv("lab", "y"), kv("lab", "x"), kv("bad", "readonly")>> }

\* a refused call needs no room: it is tried in every state
MCreate(tok, private, t)   == "create" \in Acts /\ (Room \/ Bad(t)) /\ Create(NextId, tok, private, t, "create")
DeriveT == MakeT \cup { <<kv("bad", "toolong"), kv("lab", "y")>>, <<kv("lab", "x"), kv("bad", "toolong")>> }
MMake(how, tok, private, t) == "make" \in Acts /\ (Room \/ Bad(t))
                               /\ t \in (IF how = "unwrap" THEN UnwrapT ELSE IF how = "derive" THEN DeriveT ELSE MakeT)
                               /\ Create(NextId, tok, private, t, how)
MSet(id, t)                == "set" \in Acts /\ id \in DOMAIN mem /\ SetAttrs(id, t)
MCopy(src, tok, private, t) == "copy" \in Acts /\ (Room \/ Bad(t)) /\ src \in DOMAIN mem /\ Copy(NextId, src, tok, private, t)
MDestroy(id)               == "destroy" \in Acts /\ id \in DOMAIN mem /\ Destroy(id)
MRestart                   == "restart" \in Acts /\ Restart

Next == \/ \E tok \in BOOLEAN, private \in BOOLEAN, t \in CreateT : MCreate(tok, private, t)
        \/ \E how \in {"generate", "unwrap", "derive"}, tok \in BOOLEAN, private \in BOOLEAN, t \in UnwrapT \cup DeriveT :
              MMake(how, tok, private, t)
        \/ \E id \in Ids, t \in SetT : MSet(id, t)
        \/ \E src \in Ids, tok \in BOOLEAN, private \in BOOLEAN, t \in CopyT : MCopy(src, tok, private, t)
        \/ \E id \in Ids : MDestroy(id)
        \/ MRestart
Spec == Init /\ [][Next]_vars
View == state
=============================================================================
