---- MODULE MC_Core_TTrace_1790421041 ----
EXTENDS Sequences, TLCExt, Toolbox, MC_Core, Naturals, TLC

_expression ==
    LET MC_Core_TEExpression == INSTANCE MC_Core_TEExpression
    IN MC_Core_TEExpression!expression
----

_trace ==
    LET MC_Core_TETrace == INSTANCE MC_Core_TETrace
    IN MC_Core_TETrace!trace
----

_inv ==
    ~(
        TLCGet("level") = Len(_TETrace)
        /\
        tok = ([t1 |-> [so |-> "P1", user |-> "P2"]])
        /\
        rv = ("OK")
        /\
        fop = (<<>>)
        /\
        obj = (<<[t |-> "t1", tokobj |-> TRUE, lab |-> "a", owner |-> 0, priv |-> FALSE]>>)
        /\
        sess = (<<[t |-> "t1", rw |-> TRUE]>>)
        /\
        oh = ((2 :> 1))
        /\
        dead = ({})
        /\
        issued = ({1, 2})
        /\
        login = ([t1 |-> "none"])
        /\
        out = (<<2>>)
    )
----

_init ==
    /\ sess = _TETrace[1].sess
    /\ fop = _TETrace[1].fop
    /\ oh = _TETrace[1].oh
    /\ out = _TETrace[1].out
    /\ tok = _TETrace[1].tok
    /\ issued = _TETrace[1].issued
    /\ rv = _TETrace[1].rv
    /\ login = _TETrace[1].login
    /\ obj = _TETrace[1].obj
    /\ dead = _TETrace[1].dead
----

_next ==
    /\ \E i,j \in DOMAIN _TETrace:
        /\ \/ /\ j = i + 1
              /\ i = TLCGet("level")
        /\ sess  = _TETrace[i].sess
        /\ sess' = _TETrace[j].sess
        /\ fop  = _TETrace[i].fop
        /\ fop' = _TETrace[j].fop
        /\ oh  = _TETrace[i].oh
        /\ oh' = _TETrace[j].oh
        /\ out  = _TETrace[i].out
        /\ out' = _TETrace[j].out
        /\ tok  = _TETrace[i].tok
        /\ tok' = _TETrace[j].tok
        /\ issued  = _TETrace[i].issued
        /\ issued' = _TETrace[j].issued
        /\ rv  = _TETrace[i].rv
        /\ rv' = _TETrace[j].rv
        /\ login  = _TETrace[i].login
        /\ login' = _TETrace[j].login
        /\ obj  = _TETrace[i].obj
        /\ obj' = _TETrace[j].obj
        /\ dead  = _TETrace[i].dead
        /\ dead' = _TETrace[j].dead

\* Uncomment the ASSUME below to write the states of the error trace
\* to the given file in Json format. Note that you can pass any tuple
\* to `JsonSerialize`. For example, a sub-sequence of _TETrace.
    \* ASSUME
    \*     LET J == INSTANCE Json
    \*         IN J!JsonSerialize("MC_Core_TTrace_1790421041.json", _TETrace)

=============================================================================

 Note that you can extract this module `MC_Core_TEExpression`
  to a dedicated file to reuse `expression` (the module in the 
  dedicated `MC_Core_TEExpression.tla` file takes precedence 
  over the module `MC_Core_TEExpression` below).

---- MODULE MC_Core_TEExpression ----
EXTENDS Sequences, TLCExt, Toolbox, MC_Core, Naturals, TLC

expression == 
    [
        \* To hide variables of the `MC_Core` spec from the error trace,
        \* remove the variables below.  The trace will be written in the order
        \* of the fields of this record.
        sess |-> sess
        ,fop |-> fop
        ,oh |-> oh
        ,out |-> out
        ,tok |-> tok
        ,issued |-> issued
        ,rv |-> rv
        ,login |-> login
        ,obj |-> obj
        ,dead |-> dead
        
        \* Put additional constant-, state-, and action-level expressions here:
        \* ,_stateNumber |-> _TEPosition
        \* ,_sessUnchanged |-> sess = sess'
        
        \* Format the `sess` variable as Json value.
        \* ,_sessJson |->
        \*     LET J == INSTANCE Json
        \*     IN J!ToJson(sess)
        
        \* Lastly, you may build expressions over arbitrary sets of states by
        \* leveraging the _TETrace operator.  For example, this is how to
        \* count the number of times a spec variable changed up to the current
        \* state in the trace.
        \* ,_sessModCount |->
        \*     LET F[s \in DOMAIN _TETrace] ==
        \*         IF s = 1 THEN 0
        \*         ELSE IF _TETrace[s].sess # _TETrace[s-1].sess
        \*             THEN 1 + F[s-1] ELSE F[s-1]
        \*     IN F[_TEPosition - 1]
    ]

=============================================================================



Parsing and semantic processing can take forever if the trace below is long.
 In this case, it is advised to uncomment the module below to deserialize the
 trace from a generated binary file.

\*
\*---- MODULE MC_Core_TETrace ----
\*EXTENDS IOUtils, MC_Core, TLC
\*
\*trace == IODeserialize("MC_Core_TTrace_1790421041.bin", TRUE)
\*
\*=============================================================================
\*

---- MODULE MC_Core_TETrace ----
EXTENDS MC_Core, TLC

trace == 
    <<
    ([tok |-> [t1 |-> [so |-> "P1", user |-> "P2"]],rv |-> "OK",fop |-> <<>>,obj |-> <<>>,sess |-> <<>>,oh |-> <<>>,dead |-> {},issued |-> {},login |-> [t1 |-> "none"],out |-> <<>>]),
    ([tok |-> [t1 |-> [so |-> "P1", user |-> "P2"]],rv |-> "OK",fop |-> <<>>,obj |-> <<>>,sess |-> <<[t |-> "t1", rw |-> TRUE]>>,oh |-> <<>>,dead |-> {},issued |-> {1},login |-> [t1 |-> "none"],out |-> <<1>>]),
    ([tok |-> [t1 |-> [so |-> "P1", user |-> "P2"]],rv |-> "OK",fop |-> <<>>,obj |-> <<[t |-> "t1", tokobj |-> TRUE, lab |-> "a", owner |-> 0, priv |-> FALSE]>>,sess |-> <<[t |-> "t1", rw |-> TRUE]>>,oh |-> (2 :> 1),dead |-> {},issued |-> {1, 2},login |-> [t1 |-> "none"],out |-> <<2>>])
    >>
----


=============================================================================

---- CONFIG MC_Core_TTrace_1790421041 ----
CONSTANTS
    Tokens = { "t1" }
    Pins = { "P1" , "P2" , "P3" , "short" }
    InitSoPin = "P1"
    InitUserPin = "P2"
    Labels = { "a" }
    Acts = { "sess" , "obj" , "copy" , "attr" , "find" , "use" , "make" }
    MaxH = 4
    MaxO = 2
    LoginPins = { "P1" , "P2" }

INVARIANT
    _inv

CHECK_DEADLOCK
    \* CHECK_DEADLOCK off because of PROPERTY or INVARIANT above.
    FALSE

INIT
    _init

NEXT
    _next

CONSTANT
    _TETrace <- _trace

ALIAS
    _expression
=============================================================================
\* Generated on Sat Sep 26 11:10:43 UTC 2026