------------------------------- MODULE MC_Ops -------------------------------
(* Bounded instance of P11Ops: call sequences (Init / single-part / Update /  *)
(* Final / length query / too small buffer, in one or two sessions) for       *)
(* replay.  Outcomes are resolved optimistically here (they are legal         *)
(* outcomes of P11Ops.Call); the trace specification binds the real ones.     *)
EXTENDS P11Ops, Json
CONSTANTS ModeNames, Lens, Depth, Foreign
VARIABLES steps, hist

AllFns == UNION {FnsOf(k) : k \in Kinds}
BufClasses == {"null", "small", "exact", "large"}

mvars == <<vars, steps, hist>>
H(x) == hist' = Append(hist, x) /\ steps' = steps + 1
Budget == steps < Depth

MInit(s, k, m) == Budget /\ k \in KindsOf(m) /\ InitOp(s, k, ModeTable[m], TRUE) /\ H(<<"MInit", s, k, m>>)

Lfix(x) == IF x.mode.fixed > 0 THEN x.mode.fixed ELSE 1
Optimistic(s, fn, bc) == [val |-> "na", fedn |-> 0 - 1] @@
    LET x == ses[s] IN
    IF x.op # KindOf(fn) THEN [rv |-> "OPERATION_NOT_INITIALIZED", L |-> 0, w |-> 0]
    ELSE IF ~HasOutput(fn) THEN [rv |-> "OK", L |-> 0, w |-> 0]
    ELSE IF bc = "null" THEN [rv |-> "OK", L |-> Lfix(x), w |-> 0]
    ELSE IF bc = "small" THEN [rv |-> "BUFFER_TOO_SMALL", L |-> Lfix(x), w |-> 0]
    ELSE [rv |-> "OK", L |-> x.mode.fixed, w |-> x.mode.fixed]
Ann(bc) == IF bc = "null" THEN 0 - 1 ELSE IF bc = "small" THEN 0 ELSE 100000

\* calls of the active kind with every length / buffer class; calls of other kinds only in "Foreign" configurations
MCall(s, fn, n, bc) ==
    /\ Budget
    /\ (fn \in FnsOf(ses[s].op)) \/ (Foreign /\ bc = "exact" /\ n = 16)
    /\ (TakesInput(fn) \/ n = 16) /\ (HasOutput(fn) \/ bc = "exact")
    /\ ~(bc = "small" /\ ses[s].q # <<>> /\ ses[s].q[1] = fn /\ ses[s].q[2] = (IF TakesInput(fn) THEN n ELSE 0))
    /\ Call(s, fn, IF TakesInput(fn) THEN n ELSE 0, Ann(bc), Optimistic(s, fn, bc))
    /\ H(<<"MCall", s, fn, n, bc>>)

Next == \/ \E s \in Sessions, k \in Kinds, m \in ModeNames : MInit(s, k, m)
        \/ \E s \in Sessions, fn \in AllFns, n \in Lens, bc \in BufClasses : MCall(s, fn, n, bc)
Spec == Init /\ steps = 0 /\ hist = <<>> /\ [][Next]_mvars
View == <<ses, steps>>
Emit == (steps = Depth) => PrintT(<<"BEH", ToJson(hist)>>)
=============================================================================
