---------------------------- MODULE Trace_Fixture ----------------------------
(* C05, stable on-disk format: a token directory written by the pinned        *)
(* version is opened by the current library.  The single event carries the    *)
(* state the pinned version returned (expected.json: tokens, which PINs log   *)
(* in, every object with every attribute value) and the state observed now;   *)
(* the specification's state after OpenFixture IS the expected one, and the   *)
(* observation must equal it.                                                 *)
EXTENDS Naturals, Sequences, TLC, Json, IOUtils
VARIABLES l, st
T == ndJsonDeserialize(IOEnv.TRACE)
E == T[l]
TOpen == l <= Len(T) /\ E.e = "OpenFixture" /\ l' = l + 1
         /\ st' = E.expected                       \* the model state: what the pinned version recorded
         /\ E.observed = st'                       \* conformance: the current library shows exactly that
TInit == l = 1 /\ st = <<>> /\ TLCSet(1, 1)
TSpec == TInit /\ [][TOpen]_<<l, st>>
TrackMax == IF l > TLCGet(1) THEN TLCSet(1, l) ELSE TRUE
TraceAccepted == PrintT(<<"MAXL", TLCGet(1)>>)
=============================================================================
