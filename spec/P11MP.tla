-------------------------------- MODULE P11MP --------------------------------
(***************************************************************************)
(* Several processes, each with its own library instance, on ONE token     *)
(* directory, at CALL grain (C15): every call of a process is atomic, the  *)
(* calls of different processes interleave arbitrarily.  The token         *)
(* directory is the only thing shared; a call that returned CKR_OK has     *)
(* committed, and every other process must observe it at its next call:    *)
(* the object is found with its new value, or the handle has become        *)
(* invalid.  Session objects live in one process and are never seen by     *)
(* another.  A process that is not logged in never sees a private object   *)
(* another process created.                                                *)
(*                                                                         *)
(* snap and stale describe what the implementation caches per process (the *)
(* directory listing of its last call, OSToken::currentFiles; the objects  *)
(* whose file changed since it last looked, Generation).  The results of   *)
(* the calls do not depend on them - that is the property - but they make  *)
(* "p calls after its cache went stale in this particular way" a distinct  *)
(* transition, so that covering the transitions of the model covers the    *)
(* refresh paths of the code.                                              *)
(***************************************************************************)
EXTENDS Naturals, FiniteSets, Sequences, TLC
CONSTANTS Procs, MaxO, Vals, NCalls, Logged, Kinds

Ids == 1 .. MaxO
VARIABLES obj,     \* [Ids -> [st, lab, priv, owner]]  st: "none" (not yet created), "live", "dead"; owner 0: token object
          nxt,     \* objects created so far
          hnd,     \* per process: the objects it holds a handle of (some may be dead by now)
          snap,    \* per process: token objects in the directory at its last call
          stale,   \* per process: token objects changed by another process since it last looked at them
          calls,   \* calls left
          out      \* result of the last call (observation)
vars == <<obj, nxt, hnd, snap, stale, calls, out>>
View == <<obj, nxt, hnd, snap, stale, calls>>

None == [st |-> "none", lab |-> 0, priv |-> FALSE, owner |-> 0]
Live(o)       == obj[o].st = "live"
LiveTok       == {o \in Ids : Live(o) /\ obj[o].owner = 0}
Visible(p, o) == Live(o) /\ obj[o].owner \in {0, p} /\ (obj[o].priv => p \in Logged)
Out(rv, o, lab, found) == [rv |-> rv, o |-> o, lab |-> lab, found |-> found]

Init == /\ obj = [o \in Ids |-> None] /\ nxt = 0
        /\ hnd = [p \in Procs |-> {}] /\ snap = [p \in Procs |-> {}] /\ stale = [p \in Procs |-> {}]
        /\ calls = NCalls /\ out = Out("none", 0, 0, {})

\* every call of p re-reads the directory
Look(p, O) == snap' = [snap EXCEPT ![p] = O]
Spend == IF NCalls = 0 THEN UNCHANGED calls ELSE calls > 0 /\ calls' = calls - 1

MCreate(p, priv, tok) ==
    /\ Spend /\ "create" \in Kinds /\ nxt < MaxO /\ (priv => p \in Logged)
    /\ LET o == nxt + 1 IN
       /\ obj' = [obj EXCEPT ![o] = [st |-> "live", lab |-> 0, priv |-> priv, owner |-> IF tok THEN 0 ELSE p]]
       /\ nxt' = o /\ hnd' = [hnd EXCEPT ![p] = @ \cup {o}]
       /\ Look(p, LiveTok \cup (IF tok THEN {o} ELSE {}))
       /\ out' = Out("OK", o, 0, {}) /\ UNCHANGED stale

MSet(p, o, v) ==
    /\ Spend /\ "set" \in Kinds /\ o \in hnd[p] /\ v \in Vals /\ Look(p, LiveTok) /\ UNCHANGED nxt
    /\ IF Live(o)
       THEN /\ obj[o].lab # v
            /\ obj' = [obj EXCEPT ![o].lab = v] /\ out' = Out("OK", o, v, {}) /\ UNCHANGED hnd
            /\ stale' = [q \in Procs |-> IF q # p /\ obj[o].owner = 0 /\ o \in snap[q] THEN stale[q] \cup {o} ELSE stale[q] \ (IF q = p THEN {o} ELSE {})]
       ELSE /\ out' = Out("INV", o, 0, {}) /\ hnd' = [hnd EXCEPT ![p] = @ \ {o}] /\ UNCHANGED <<obj, stale>>

\* a C_SetAttributeValue that is REFUSED (an attribute the class does not have): like a read, it looks at the object -
\* and it changes nothing, in particular not what the process will see of the other processes' later changes
MBadSet(p, o) ==
    /\ Spend /\ "badset" \in Kinds /\ o \in hnd[p] /\ Look(p, LiveTok) /\ UNCHANGED <<obj, nxt>>
    /\ IF Live(o) THEN /\ out' = Out("ERR", o, 0, {}) /\ UNCHANGED hnd /\ stale' = [stale EXCEPT ![p] = @ \ {o}]
                  ELSE /\ out' = Out("INV", o, 0, {}) /\ hnd' = [hnd EXCEPT ![p] = @ \ {o}] /\ UNCHANGED stale

MGet(p, o) ==
    /\ Spend /\ "get" \in Kinds /\ o \in hnd[p] /\ Look(p, LiveTok) /\ UNCHANGED <<obj, nxt>>
    /\ IF Live(o) THEN /\ out' = Out("OK", o, obj[o].lab, {}) /\ UNCHANGED hnd /\ stale' = [stale EXCEPT ![p] = @ \ {o}]
                  ELSE /\ out' = Out("INV", o, 0, {}) /\ hnd' = [hnd EXCEPT ![p] = @ \ {o}] /\ UNCHANGED stale

MDestroy(p, o) ==
    /\ Spend /\ "destroy" \in Kinds /\ o \in hnd[p] /\ UNCHANGED nxt
    /\ hnd' = [hnd EXCEPT ![p] = @ \ {o}]
    /\ IF Live(o) THEN /\ obj' = [obj EXCEPT ![o].st = "dead"] /\ out' = Out("OK", o, 0, {}) /\ Look(p, LiveTok \ {o})
                       /\ stale' = [q \in Procs |-> stale[q] \ {o}]
                  ELSE /\ out' = Out("INV", o, 0, {}) /\ Look(p, LiveTok) /\ UNCHANGED <<obj, stale>>

\* v = 99: no value in the template (everything visible)
Match(p, v) == {o \in Ids : Visible(p, o) /\ (v = 99 \/ obj[o].lab = v)}
MFind(p, v) ==
    /\ Spend /\ "find" \in Kinds /\ v \in Vals \cup {99} /\ Look(p, LiveTok) /\ UNCHANGED <<obj, nxt>>
    /\ hnd' = [hnd EXCEPT ![p] = @ \cup Match(p, v)]
    /\ stale' = [stale EXCEPT ![p] = {}]
    /\ out' = Out("OK", 0, 0, {<<o, obj[o].lab>> : o \in Match(p, v)})

Next == \/ \E p \in Procs, priv \in BOOLEAN, tok \in BOOLEAN : MCreate(p, priv, tok)
        \/ \E p \in Procs, o \in Ids, v \in Vals : MSet(p, o, v)
        \/ \E p \in Procs, o \in Ids : MGet(p, o)
        \/ \E p \in Procs, o \in Ids : MBadSet(p, o)
        \/ \E p \in Procs, o \in Ids : MDestroy(p, o)
        \/ \E p \in Procs, v \in Vals \cup {99} : MFind(p, v)
Spec == Init /\ [][Next]_vars

TypeOK == /\ nxt \in 0 .. MaxO /\ \A o \in Ids : (o > nxt) = (obj[o].st = "none")
          /\ \A p \in Procs : hnd[p] \subseteq 1 .. nxt
\* a process only ever holds handles of objects it was allowed to see
HandlesLegit == \A p \in Procs : \A o \in hnd[p] : obj[o].owner \in {0, p} /\ (obj[o].priv => p \in Logged)
\* a destroyed object never comes back
DeadIsFinal == [][\A o \in Ids : obj[o].st = "dead" => obj'[o].st = "dead"]_vars
=============================================================================
