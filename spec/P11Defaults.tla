----------------------------- MODULE P11Defaults -----------------------------
(***************************************************************************)
(* Beyond the listed properties: the attribute values an object gets when  *)
(* C_CreateObject is given the smallest template its class admits - the    *)
(* testDefault* cases of the repository generalised to one table.  Where   *)
(* PKCS#11 v2.40 fixes the default the table follows it (CKA_TOKEN false,  *)
(* CKA_MODIFIABLE / CKA_COPYABLE / CKA_DESTROYABLE true, empty label, id,  *)
(* dates and subject, CKA_LOCAL false, CKA_ALWAYS_SENSITIVE and            *)
(* CKA_NEVER_EXTRACTABLE false for created keys, CKA_KEY_GEN_MECHANISM     *)
(* unavailable, CKA_TRUSTED false, certificate category 0); where the      *)
(* standard says "token-specific" it records what SoftHSM chose (private   *)
(* by default for data, private and secret keys; usage flags true;         *)
(* CKA_SENSITIVE and CKA_EXTRACTABLE false) - applications depend on it.   *)
(* Values: "T", "F", "" (empty byte string), "0", "unavail"                *)
(* (CK_UNAVAILABLE_INFORMATION); an attribute the class does not have is   *)
(* not in the record.                                                      *)
(***************************************************************************)
EXTENDS TLC
VARIABLES rv, out
vars == <<rv, out>>
Classes == {"data", "cert", "pub", "priv", "secret"}
Common == [TOKEN |-> "F", MODIFIABLE |-> "T", COPYABLE |-> "T", DESTROYABLE |-> "T", LABEL |-> ""]
KeyCommon == [ID |-> "", START_DATE |-> "", END_DATE |-> "", DERIVE |-> "F", LOCAL_ |-> "F", KEY_GEN_MECHANISM |-> "unavail"]
Defaults(c) ==
    CASE c = "data"   -> Common @@ [PRIVATE |-> "T", APPLICATION |-> "", OBJECT_ID |-> ""]
      [] c = "cert"   -> Common @@ [PRIVATE |-> "F", ID |-> "", TRUSTED |-> "F", CERTIFICATE_CATEGORY |-> "0", START_DATE |-> "",
                                     END_DATE |-> "", ISSUER |-> "", SERIAL_NUMBER |-> ""]
      [] c = "pub"    -> Common @@ KeyCommon @@ [PRIVATE |-> "F", TRUSTED |-> "F", SUBJECT |-> "", ENCRYPT |-> "T", VERIFY |-> "T",
                                                 VERIFY_RECOVER |-> "T", WRAP |-> "T"]
      [] c = "priv"   -> Common @@ KeyCommon @@ [PRIVATE |-> "T", SUBJECT |-> "", DECRYPT |-> "T", SIGN |-> "T", SIGN_RECOVER |-> "T",
                                                 UNWRAP |-> "T", SENSITIVE |-> "F", EXTRACTABLE |-> "F", ALWAYS_SENSITIVE |-> "F",
                                                 NEVER_EXTRACTABLE |-> "F", WRAP_WITH_TRUSTED |-> "F", ALWAYS_AUTHENTICATE |-> "F"]
      [] c = "secret" -> Common @@ KeyCommon @@ [PRIVATE |-> "T", TRUSTED |-> "F", ENCRYPT |-> "T", DECRYPT |-> "T", SIGN |-> "T",
                                                 VERIFY |-> "T", WRAP |-> "T", UNWRAP |-> "T", SENSITIVE |-> "F", EXTRACTABLE |-> "F",
                                                 ALWAYS_SENSITIVE |-> "F", NEVER_EXTRACTABLE |-> "F", WRAP_WITH_TRUSTED |-> "F"]
Init == rv = "OK" /\ out = <<>>
MCreateMin(c) == c \in Classes /\ rv' = "OK" /\ out' = Defaults(c)
Next == \E c \in Classes : MCreateMin(c)
Spec == Init /\ [][Next]_vars
View == rv
\* consequences every class shares
Sane == out # <<>> => out.TOKEN = "F" /\ out.MODIFIABLE = "T" /\ out.DESTROYABLE = "T"
=============================================================================
