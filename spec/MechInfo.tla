------------------------------ MODULE MechInfo -------------------------------
(***************************************************************************)
(* Beyond the listed properties: C_GetMechanismInfo tells the truth.       *)
(* For every mechanism m the token advertises, the capability flags        *)
(* (CKF_ENCRYPT, CKF_DECRYPT, CKF_DIGEST, CKF_SIGN, CKF_VERIFY,            *)
(* CKF_GENERATE, CKF_GENERATE_KEY_PAIR, CKF_WRAP, CKF_UNWRAP, CKF_DERIVE)  *)
(* agree with what the entry points do with m:                             *)
(*    StartedIsAdvertised   an operation that STARTED with m has its flag  *)
(*    AdvertisedIsUsable    a flag that is set belongs to an operation     *)
(*                          that started for at least one fitting key      *)
(* The trace is a projection of the executions of the C07 check (P11Mech's *)
(* table: every operation x key kind x mechanism): per mechanism one       *)
(* Info(m, flags) event, one Started(m, op) per operation kind that        *)
(* started successfully at least once with every usage attribute true and  *)
(* the configuration ALL, and End(m).                                      *)
(***************************************************************************)
EXTENDS Naturals, Sequences, FiniteSets, TLC, Json, IOUtils
VARIABLES l, cur, flags, started
vars == <<l, cur, flags, started>>
T == ndJsonDeserialize(IOEnv.TRACE)
E == T[l]
Set(s) == {s[i] : i \in 1 .. Len(s)}
FlagOf(op) == CASE op = "Encrypt" -> "ENCRYPT" [] op = "Decrypt" -> "DECRYPT" [] op = "Sign" -> "SIGN" [] op = "Verify" -> "VERIFY"
                [] op = "Wrap" -> "WRAP" [] op = "Unwrap" -> "UNWRAP" [] op = "Derive" -> "DERIVE" [] op = "DigestInit" -> "DIGEST"
                [] op = "GenerateKey" -> "GENERATE" [] op = "GenerateKeyPair" -> "GENERATE_KEY_PAIR" [] OTHER -> "?"
IsEv(name) == l <= Len(T) /\ E.e = name /\ l' = l + 1

TInfo    == IsEv("Info") /\ cur' = E.m /\ flags' = Set(E.fl) /\ started' = {}
TStarted == IsEv("Started") /\ E.m = cur /\ started' = started \cup {FlagOf(E.op)} /\ UNCHANGED <<cur, flags>>
StartedIsAdvertised == started \subseteq flags
AdvertisedIsUsable  == flags \subseteq started
TEnd     == IsEv("End") /\ E.m = cur /\ StartedIsAdvertised /\ AdvertisedIsUsable /\ UNCHANGED <<cur, flags, started>>

TInit == l = 1 /\ cur = "" /\ flags = {} /\ started = {} /\ TLCSet(1, 1)
TNext == TInfo \/ TStarted \/ TEnd
TSpec == TInit /\ [][TNext]_vars
TrackMax == IF l > TLCGet(1) THEN TLCSet(1, l) ELSE TRUE
TraceAccepted == PrintT(<<"MAXL", TLCGet(1)>>)
=============================================================================
