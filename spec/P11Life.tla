------------------------------- MODULE P11Life -------------------------------
(***************************************************************************)
(* The library life cycle (beyond the listed properties; reported in the   *)
(* evidence notes of C03): C_Initialize argument rules, double             *)
(* initialisation and finalisation, every entry point before C_Initialize, *)
(* the entry points SoftHSM does not support, and a session handle that    *)
(* does not exist.  One action per call; rv is the return value class.     *)
(***************************************************************************)
EXTENDS Naturals, FiniteSets, TLC
CONSTANTS Fns,          \* every C_* entry point except the four below
          Unsupported,  \* subset of Fns: session-taking entry points that return CKR_FUNCTION_NOT_SUPPORTED
          NotParallel   \* subset of Fns: C_GetFunctionStatus, C_CancelFunction
VARIABLES up,           \* between a successful C_Initialize and C_Finalize
          sess,         \* a session is open (handle known to the driver)
          rv
vars == <<up, sess, rv>>

Init == up = FALSE /\ sess = FALSE /\ rv = "OK"

\* how: "null" (pInitArgs = NULL), "oslock" (CKF_OS_LOCKING_OK), "callbacks" (all four), "partial" (some callbacks),
\*      "reserved" (pReserved # NULL)
\* (the library looks at its state first, at the arguments second)
MInitialize(how) ==
    /\ UNCHANGED sess
    /\ IF up THEN rv' = "CRYPTOKI_ALREADY_INITIALIZED" /\ UNCHANGED up
       ELSE IF how \in {"partial", "reserved"} THEN rv' = "ARGUMENTS_BAD" /\ UNCHANGED up
       ELSE rv' = "OK" /\ up' = TRUE
MFinalize(arg) ==
    IF ~up THEN rv' = "CRYPTOKI_NOT_INITIALIZED" /\ UNCHANGED <<up, sess>>
    ELSE IF arg = "nonnull" THEN rv' = "ARGUMENTS_BAD" /\ UNCHANGED <<up, sess>>
    ELSE rv' = "OK" /\ up' = FALSE /\ sess' = FALSE
MOpen  == /\ up /\ ~sess /\ sess' = TRUE /\ rv' = "OK" /\ UNCHANGED up
\* any entry point with all-zero arguments and the session handle h: "open" (the open session) or "none" (0)
MCall(fn, h) ==
    /\ fn \in Fns /\ (h = "open" => sess) /\ UNCHANGED up
    \* (C_CloseSession on the open session is the one zero-argument call that changes something)
    /\ sess' = IF fn = "C_CloseSession" /\ h = "open" /\ up THEN FALSE ELSE sess
    \* (C_WaitForSlotEvent without CKF_DONT_BLOCK answers CKR_FUNCTION_NOT_SUPPORTED even before C_Initialize: it looks at
    \*  its flags first - noted, not judged)
    /\ rv' = IF fn = "C_WaitForSlotEvent" THEN "ANY"
             ELSE IF ~up THEN "CRYPTOKI_NOT_INITIALIZED"
             ELSE IF fn \in Unsupported \cup NotParallel
             THEN (IF h = "none" THEN "SESSION_HANDLE_INVALID"
                   ELSE IF fn \in NotParallel THEN "FUNCTION_NOT_PARALLEL" ELSE "FUNCTION_NOT_SUPPORTED")
             ELSE "ANY"
MGetFunctionList == rv' = "OK" /\ UNCHANGED <<up, sess>>      \* works in every state

\* C_GetSlotList(tokenPresent, pSlotList, pulCount) with the driver's set-up: NSlots slots - the initialised tokens and,
\* last, the one slot with an uninitialised token (every SoftHSM slot has a token present).  buf: "null" (count only),
\* "small" (one entry too few), "exact", "large".  The expectation is [rv, n]: the count is reported in every case.
MSlotList(present, buf) ==
    /\ UNCHANGED <<up, sess>>
    /\ rv' = IF ~up THEN "CRYPTOKI_NOT_INITIALIZED" ELSE IF buf = "small" THEN "BUFFER_TOO_SMALL" ELSE "OK"
\* C_GenerateRandom / C_SeedRandom through the open session or a handle that does not exist; n bytes asked
MRandom(fn, h, n) ==
    /\ fn \in {"C_GenerateRandom", "C_SeedRandom"} /\ (h = "open" => sess) /\ UNCHANGED <<up, sess>>
    /\ rv' = IF ~up THEN "CRYPTOKI_NOT_INITIALIZED" ELSE IF h = "none" THEN "SESSION_HANDLE_INVALID" ELSE "OK"

Next == \/ \E how \in {"null", "oslock", "callbacks", "partial", "reserved"} : MInitialize(how)
        \/ \E arg \in {"null", "nonnull"} : MFinalize(arg)
        \/ MOpen
        \/ \E fn \in Fns, h \in {"open", "none"} : MCall(fn, h)
        \/ MGetFunctionList
        \/ \E present \in BOOLEAN, buf \in {"null", "small", "exact", "large"} : MSlotList(present, buf)
        \/ \E fn \in {"C_GenerateRandom", "C_SeedRandom"}, h \in {"open", "none"}, n \in {1, 16, 1000} : MRandom(fn, h, n)
Spec == Init /\ [][Next]_vars
View == <<up, sess>>
TypeOK == up \in BOOLEAN /\ sess \in BOOLEAN /\ (sess => up)
=============================================================================
