------------------------------- MODULE P11Ops -------------------------------
(***************************************************************************)
(* C12: one active operation per session and the output-length protocol.   *)
(*                                                                         *)
(* Per session: the active operation (kind + mode) and exact bookkeeping   *)
(* of the bytes fed to it and the bytes it has returned.  A call is        *)
(*    Init(s, kind, mode, ok)                                              *)
(*    Call(s, fn, n, a, o)   fn in Single/Update/Final (+ the calls        *)
(*                           without output), n input bytes, a announced   *)
(*                           buffer (-1 = NULL pointer), o = [rv, L, w]:   *)
(*                           return value, reported length, bytes written  *)
(* The action ACCEPTS an outcome o only if it obeys the property:          *)
(*   - no operation / another kind active: CKR_OPERATION_NOT_INITIALIZED,  *)
(*     nothing changes; Init while active: CKR_OPERATION_ACTIVE;           *)
(*   - NULL pointer or CKR_BUFFER_TOO_SMALL: nothing changes, the reported *)
(*     length is bounded (input + buffered + one block + tag for ciphers;  *)
(*     exactly the fixed size for digest / MAC / signature / modulus);     *)
(*   - a buffer as large as the length reported for the same call is never *)
(*     answered with CKR_BUFFER_TOO_SMALL (sufficient);                    *)
(*   - success writes at most min(announced, bound) bytes; Single and      *)
(*     Final end the operation;                                            *)
(*   - any other failure ends the operation;                               *)
(*   - "unchanged" is meant to the byte: the output that a finishing call  *)
(*     delivers is the mechanism's function of exactly the input of the    *)
(*     ACCEPTED calls (fed): o.val = "bad" says that it is not (a length   *)
(*     query or a refused too-small buffer has left a trace in it), and    *)
(*     o.fedn, the input the driver counted, must be the model's count.    *)
(* The model checker resolves o optimistically; the trace specification    *)
(* binds o to what the implementation returned.                            *)
(***************************************************************************)
EXTENDS Integers, FiniteSets, Sequences, TLC

CONSTANTS Sessions

VARIABLES ses,   \* session -> [op, mode, fed, out, q]   q = <<fn, n, L>> of the last length answer, or <<>>
          rv

vars == <<ses, rv>>

Kinds == {"Find", "Digest", "Encrypt", "Decrypt", "Sign", "Verify"}
\* a mode: [b |-> block size (1 for stream), t |-> tag/extra bytes, fixed |-> fixed output size or 0]
Idle == [op |-> "none", mode |-> [b |-> 1, t |-> 0, fixed |-> 0, multi |-> TRUE, nopad |-> FALSE, minin |-> 0, maxin |-> 0],
         fed |-> 0, out |-> 0, upd |-> FALSE, q |-> <<>>]

Init == ses = [s \in Sessions |-> Idle] /\ rv = "OK"

\* the modes exercised: block size, tag bytes and fixed output size follow from the mechanism definitions
\* multi: multi-part calls are defined for the mechanism; nopad: block mode without padding (lengths must be
\* block multiples); maxin / minin: input length limits of single-part asymmetric mechanisms (1024-bit RSA key)
Mode(b, t, fixed, multi, nopad, minin, maxin) ==
    [b |-> b, t |-> t, fixed |-> fixed, multi |-> multi, nopad |-> nopad, minin |-> minin, maxin |-> maxin]
ModeTable == [ ecb      |-> Mode(16, 0, 0, TRUE, TRUE, 0, 0),    cbc     |-> Mode(16, 0, 0, TRUE, TRUE, 0, 0),
               cbcpad   |-> Mode(16, 0, 0, TRUE, FALSE, 0, 0),   ctr     |-> Mode(1, 0, 0, TRUE, FALSE, 0, 0),
               gcm16    |-> Mode(1, 16, 0, TRUE, FALSE, 0, 0),   gcm4    |-> Mode(1, 4, 0, TRUE, FALSE, 0, 0),
               des3pad  |-> Mode(8, 0, 0, TRUE, FALSE, 0, 0),    des3ecb |-> Mode(8, 0, 0, TRUE, TRUE, 0, 0),
               sha256   |-> Mode(1, 0, 32, TRUE, FALSE, 0, 0),   sha1    |-> Mode(1, 0, 20, TRUE, FALSE, 0, 0),
               hmac     |-> Mode(1, 0, 32, TRUE, FALSE, 0, 0),   cmac    |-> Mode(1, 0, 16, TRUE, FALSE, 0, 0),
               rsasig   |-> Mode(1, 0, 128, TRUE, FALSE, 0, 0),  rsaraw  |-> Mode(1, 0, 128, FALSE, FALSE, 0, 117),
               rsapss   |-> Mode(1, 0, 128, TRUE, FALSE, 0, 0),
               ecdsa    |-> Mode(1, 0, 64, FALSE, FALSE, 1, 64), eddsa   |-> Mode(1, 0, 64, FALSE, FALSE, 0, 0),
               rsaenc   |-> Mode(1, 0, 128, FALSE, FALSE, 0, 117), rsaoaep |-> Mode(1, 0, 128, FALSE, FALSE, 0, 86),
               find     |-> Mode(1, 0, 0, TRUE, FALSE, 0, 0) ]
Ciphers  == {"ecb", "cbc", "cbcpad", "ctr", "gcm16", "gcm4", "des3pad", "des3ecb", "rsaenc", "rsaoaep"}
KindsOf(m) == IF m \in Ciphers THEN {"Encrypt", "Decrypt"}
              ELSE IF m \in {"sha256", "sha1"} THEN {"Digest"}
              ELSE IF m = "find" THEN {"Find"} ELSE {"Sign", "Verify"}
FnsOf(k) == IF k = "Encrypt" THEN {"Encrypt", "EncryptUpdate", "EncryptFinal"}
            ELSE IF k = "Decrypt" THEN {"Decrypt", "DecryptUpdate", "DecryptFinal"}
            ELSE IF k = "Digest" THEN {"Digest", "DigestUpdate", "DigestFinal"}
            ELSE IF k = "Sign" THEN {"Sign", "SignUpdate", "SignFinal"}
            ELSE IF k = "Verify" THEN {"Verify", "VerifyUpdate", "VerifyFinal"}
            ELSE {"FindObjects", "FindObjectsFinal"}


\* which operation kind a call belongs to
KindOf(fn) == IF fn \in {"Encrypt", "EncryptUpdate", "EncryptFinal"} THEN "Encrypt"
              ELSE IF fn \in {"Decrypt", "DecryptUpdate", "DecryptFinal"} THEN "Decrypt"
              ELSE IF fn \in {"Digest", "DigestUpdate", "DigestFinal"} THEN "Digest"
              ELSE IF fn \in {"Sign", "SignUpdate", "SignFinal"} THEN "Sign"
              ELSE IF fn \in {"Verify", "VerifyUpdate", "VerifyFinal"} THEN "Verify"
              ELSE "Find"
Ends(fn)    == fn \in {"Encrypt", "EncryptFinal", "Decrypt", "DecryptFinal", "Digest", "DigestFinal", "Sign",
                       "SignFinal", "Verify", "VerifyFinal", "FindObjectsFinal"}
HasOutput(fn) == fn \in {"Encrypt", "EncryptUpdate", "EncryptFinal", "Decrypt", "DecryptUpdate", "DecryptFinal",
                         "Digest", "DigestFinal", "Sign", "SignFinal"}
TakesInput(fn) == fn \in {"Encrypt", "EncryptUpdate", "Decrypt", "DecryptUpdate", "Digest", "DigestUpdate", "Sign",
                          "SignUpdate", "Verify", "VerifyUpdate"}

Buffered(x) == x.fed - x.out
\* the most the mechanism can need for this call
Bound(x, n) == IF x.mode.fixed > 0 THEN x.mode.fixed
               ELSE n + (IF Buffered(x) > 0 THEN Buffered(x) ELSE 0) + x.mode.b + x.mode.t

InitOp(s, kind, mode, ok) ==
    IF ses[s].op # "none" THEN rv' = "OPERATION_ACTIVE" /\ UNCHANGED ses
    ELSE IF ok THEN ses' = [ses EXCEPT ![s] = [op |-> kind, mode |-> mode, fed |-> 0, out |-> 0, upd |-> FALSE, q |-> <<>>]]
                    /\ rv' = "OK"
    ELSE rv' = "ERR" /\ UNCHANGED ses

Gone(s) == ses' = [ses EXCEPT ![s] = Idle]

\* Situations in which a call cannot legitimately fail: producing output from valid input.  (Decryption and
\* verification depend on the validity of the data and are not listed.)  It makes "a length query or a too small
\* buffer leaves the operation unchanged" observable: whatever preceded, the operation still works.
SinglePart(fn) == fn \in {"Encrypt", "Digest", "Sign"}
UpdateFn(fn)   == fn \in {"EncryptUpdate", "DigestUpdate", "SignUpdate"}
FinalFn(fn)    == fn \in {"EncryptFinal", "DigestFinal", "SignFinal"}
MustWork(x, fn, n) ==
    /\ x.op \in {"Encrypt", "Digest", "Sign"}
    /\ \/ SinglePart(fn) /\ ~x.upd /\ (x.mode.nopad => n % x.mode.b = 0)
          /\ n >= x.mode.minin /\ (x.mode.maxin > 0 => n <= x.mode.maxin)
       \/ UpdateFn(fn) /\ x.mode.multi
       \/ FinalFn(fn) /\ x.mode.multi /\ (x.mode.nopad => x.fed % x.mode.b = 0)

Call(s, fn, n, a, o) ==
    LET x == ses[s] IN
    IF x.op # KindOf(fn) THEN                                   \* nothing of that kind was started
         /\ o.rv = "OPERATION_NOT_INITIALIZED" /\ rv' = o.rv /\ UNCHANGED ses
    ELSE /\ rv' = o.rv
         /\ MustWork(x, fn, n) => o.rv \in {"OK", "BUFFER_TOO_SMALL"}
         /\ IF ~HasOutput(fn) THEN
                 \* calls without an output buffer: continue, finish or fail
                 IF o.rv = "OK" THEN
                      IF Ends(fn) THEN Gone(s)
                      ELSE ses' = [ses EXCEPT ![s].fed = @ + n, ![s].out = @ + n, ![s].upd = TRUE]
                 ELSE Gone(s)
            ELSE IF o.rv = "OK" /\ a < 0 THEN                   \* length query: nothing changes
                 /\ o.L <= Bound(x, n) /\ (x.mode.fixed > 0 => o.L = x.mode.fixed)
                 /\ ses' = [ses EXCEPT ![s].q = <<fn, n, o.L>>]
            ELSE IF o.rv = "BUFFER_TOO_SMALL" THEN              \* nothing changes; honest and not after a sufficient buffer
                 /\ a >= 0 /\ a < o.L /\ o.L <= Bound(x, n) /\ (x.mode.fixed > 0 => o.L = x.mode.fixed)
                 /\ ~(x.q # <<>> /\ x.q[1] = fn /\ x.q[2] = n /\ a >= x.q[3])
                 /\ ses' = [ses EXCEPT ![s].q = <<fn, n, o.L>>]
            ELSE IF o.rv = "OK" THEN                            \* real output
                 /\ a >= 0 /\ o.w <= a /\ o.w <= Bound(x, n) /\ o.w = o.L
                 /\ (Ends(fn) => o.val # "bad" /\ o.fedn \in {-1, x.fed + n})
                 /\ IF Ends(fn) THEN Gone(s)
                    ELSE ses' = [ses EXCEPT ![s].fed = @ + n, ![s].out = @ + o.w, ![s].upd = TRUE, ![s].q = <<>>]
            ELSE Gone(s)                                        \* any other failure ends the operation

\* AtMostOneOp is structural: one op field per session.  Checked properties:
TypeOK == \A s \in Sessions : ses[s].op \in Kinds \cup {"none"} /\ ses[s].fed >= 0 /\ ses[s].out >= 0
QueryKeepsOp == [][\A s \in Sessions : rv' = "BUFFER_TOO_SMALL" =>
                      (ses'[s].op = ses[s].op /\ ses'[s].fed = ses[s].fed /\ ses'[s].out = ses[s].out)]_vars
=============================================================================
