---------------------------- MODULE Trace_Policy ----------------------------
(* Trace specification for P11Policy (driver vf/drv_policy.py): the recorded  *)
(* return value class of every call, the complete policy/history attribute    *)
(* record of every live object after every call, and the outcome of reading   *)
(* secret attributes in every way must be what the specification says.        *)
EXTENDS P11Policy, Json, IOUtils
VARIABLE l
T == ndJsonDeserialize(IOEnv.TRACE)
E == T[l]
tvars == <<vars, l>>
ToSet(s) == {s[i] : i \in DOMAIN s}
Cls(x) == IF x \in {"OK", "ATTRIBUTE_SENSITIVE"} THEN x ELSE "ERR"

Names == {"S", "E", "W", "M", "C", "D", "T", "P", "L", "AS", "NE", "G"}
ObjProj == LET os == ToSet(E.objs) IN
           /\ {p.id : p \in os} = DOMAIN obj' /\ Len(E.objs) = Cardinality(DOMAIN obj')
           /\ \A p \in os : p.ok /\ \A n \in Names : p[n] = obj'[p.id][n]
Post == Cls(rv') = Cls(E.rv) /\ ObjProj
\* E.leaks: for every 8-byte window of known secret material found in an output buffer of the call, the set of
\* objects holding that material.  The bytes may be out only if one of the holders is not protected (or is gone).
NoLeak == \A hs \in ToSet(E.leaks) : \E i \in ToSet(hs) : i \notin DOMAIN obj' \/ ~Protected(obj'[i])
IsEv(name) == l <= Len(T) /\ E.e = name /\ l' = l + 1

TReset   == IsEv("Reset") /\ obj' = <<>> /\ who' = "user" /\ gone' = {} /\ rv' = "OK" /\ out' = <<>>
TGen     == IsEv("MGen") /\ Generate(E.id, E.t) /\ Post
TImport  == IsEv("MImport") /\ Import(E.id, E.t, E.op) /\ Post
TDerive  == IsEv("MDerive") /\ Derive(E.id, E.b, E.b2, E.m, E.t) /\ Post
TSet     == IsEv("MSet") /\ SetAttrs(E.id, E.t) /\ Post
TCopy    == IsEv("MCopy") /\ CopyObj(E.id, E.src, E.t) /\ Post
TDestroy == IsEv("MDestroy") /\ Destroy(E.id) /\ Post
\* every way of asking (alone / mixed with other attributes; NULL, too small, exact, larger buffer; every secret
\* attribute of the class) gives the same answer; a protected value is answered with CKR_ATTRIBUTE_SENSITIVE, the
\* length CK_UNAVAILABLE_INFORMATION and not one byte written; no output buffer holds a window of a protected value
TGet     == IsEv("MGet") /\ GetSecret(E.id) /\ Post
            /\ E.allsame /\ E.guards /\ NoLeak
            /\ (rv' = "ATTRIBUTE_SENSITIVE" => (E.unavail /\ E.clean))
TWrap    == IsEv("MWrap") /\ Wrap(E.id, E.tr) /\ Post /\ (rv' # "OK" => ~E.yields) /\ NoLeak
TRelogin == IsEv("MRelogin") /\ Relogin(E.u) /\ Post

TInit == Init /\ l = 1 /\ TLCSet(1, 1)
TNext == TReset \/ TGen \/ TImport \/ TDerive \/ TSet \/ TCopy \/ TDestroy \/ TGet \/ TWrap \/ TRelogin
TSpec == TInit /\ [][TNext]_tvars
TrackMax == IF l > TLCGet(1) THEN TLCSet(1, l) ELSE TRUE
TraceAccepted == PrintT(<<"MAXL", TLCGet(1)>>)
=============================================================================
