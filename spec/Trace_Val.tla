------------------------------ MODULE Trace_Val ------------------------------
(* Trace specification for P11Val (driver vf/drv_val.py).  Byte strings appear as short hashes.  sem remembers which *)
(* bytes every term had: within one execution for terms rooted in randomness (generated keys), across ALL          *)
(* configurations (file/db x OpenSSL/Botan replay the same behaviour under the same number) for the others: equal   *)
(* terms are equal bytes everywhere.  ref is what the independent reference computed from the same concrete inputs. *)
EXTENDS P11Val, Json, IOUtils
CONSTANT Dev      \* accepted deviations (known findings): subset of {"AdvertisedButUnusable", "BotanEmptyCbc"}
VARIABLES l, bn, cfg, sem
T == ndJsonDeserialize(IOEnv.TRACE)
E == T[l]
tvars == <<vars, l, bn, cfg, sem>>
IsEv(name) == l <= Len(T) /\ E.e = name /\ l' = l + 1
Keep == UNCHANGED <<bn, cfg>>
RvOK == CASE out'.rv = "OK" -> E.rv = "OK" [] out'.rv = "ERR" -> E.rv # "OK" [] OTHER -> TRUE

RECURSIVE Rand(_, _)
Rand(tb, i) == IF i = 0 \/ i > Len(tb) THEN FALSE
               ELSE LET x == tb[i] IN
                    IF x.t \in {"gen", "junk", "rblob"} THEN TRUE
                    ELSE IF x.t \in {"der", "pad8", "blob"} THEN Rand(tb, x.a) \/ (x.t = "blob" /\ Rand(tb, x.d \div 10))
                    ELSE IF x.t = "out" THEN Rand(tb, x.a)
                    ELSE FALSE
\* the term with number i had / has the bytes h
KeyOf(tb, i) == <<bn, IF Rand(tb, i) THEN cfg ELSE "*", tb[i]>>
Bound(tb, i)  == \E p \in sem : p[1] = KeyOf(tb, i)
Agrees(tb, i, h) == \A p \in sem : p[1] = KeyOf(tb, i) => p[2] = h
Bind(i, h) == /\ Agrees(tbl', i, h)
              /\ sem' = IF Bound(tbl', i) THEN sem ELSE sem \cup {<<KeyOf(tbl', i), h>>}
\* the same for an output term (not in the table)
OKey(x) == <<bn, IF Rand(tbl, x.a) THEN cfg ELSE "*", x>>
BindOut(x, h) == /\ \A p \in sem : p[1] = OKey(x) => p[2] = h
                 /\ sem' = IF \E p \in sem : p[1] = OKey(x) THEN sem ELSE sem \cup {<<OKey(x), h>>}
KcvOK == E.kcv = E.kcvref

TReset    == IsEv("Reset") /\ key' = [i \in 1 .. MaxK |-> NoKey] /\ blob' = [i \in 1 .. MaxB |-> NoBlob] /\ nk' = 0 /\ nb' = 0
             /\ tbl' = <<>> /\ out' = Out("none", 0, 0, 0, 0) /\ bn' = E.b /\ cfg' = E.cfg
             \* the executions of one behaviour (one per configuration) are adjacent: its bytes are kept until the next one
             /\ sem' = IF E.b = bn THEN sem ELSE {}
\* a mechanism the configuration advertises works (C20 compares what every configuration advertises)
TProbe    == IsEv("Probe") /\ UNCHANGED <<vars, sem>> /\ Keep
             /\ (E.advertised /\ ~E.works => "AdvertisedButUnusable" \in Dev /\ PrintT(<<"DEV", bn, "AdvertisedButUnusable">>))
TImport   == IsEv("Import") /\ MImport(E.kind, E.i) /\ RvOK /\ E.k = out'.k /\ Bind(out'.v, E.v) /\ KcvOK /\ E.v = E.ref /\ Keep
TImportT  == IsEv("ImportT") /\ MImportT(E.kind, E.i, E.enc, E.wt, E.ut) /\ RvOK /\ E.k = out'.k /\ Bind(out'.v, E.v) /\ KcvOK
             /\ E.v = E.ref /\ Keep
TGenerate == IsEv("Generate") /\ MGenerate(E.kind) /\ RvOK /\ E.k = out'.k /\ Bind(out'.v, E.v) /\ KcvOK /\ Keep
TWrap     == IsEv("Wrap") /\ MWrap(E.m, E.w, E.k, E.iv) /\ RvOK /\ Keep
             /\ IF out'.rv = "OK" THEN /\ E.b = out'.b /\ Bind(out'.v, E.v)
                                       /\ (IF Randomised(E.m) THEN E.refun ELSE E.v = E.ref)   \* the standard's bytes
                                  ELSE UNCHANGED sem
TDamage   == IsEv("Damage") /\ MDamage(E.b, E.how) /\ UNCHANGED sem /\ Keep
\* enc: CKA_ENCRYPT of the new key as read back ("absent" for an RSA private key)
UnwrapJudged == /\ RvOK /\ Keep
                /\ IF E.rv = "OK" THEN /\ out'.rv = "OK" /\ E.k = out'.k /\ E.made = 1 /\ Bind(out'.v, E.v) /\ KcvOK /\ E.attrsok
                                       /\ E.enc = EncOf(key'[out'.k].kind, key'[out'.k].enc)
                                  ELSE out'.rv # "OK" /\ E.made = 0 /\ UNCHANGED sem      \* rejected: nothing was created
TUnwrap   == IsEv("Unwrap") /\ MUnwrap(E.m, E.w, E.b) /\ UnwrapJudged
TUnwrapT  == IsEv("UnwrapT") /\ MUnwrapT(E.m, E.w, E.b, E.te) /\ UnwrapJudged
TUnwrapAs == IsEv("UnwrapAs") /\ MUnwrapAs(E.m, E.w, E.b) /\ E.rv # "OK" /\ E.made = 0 /\ UNCHANGED sem /\ Keep
TDerive   == IsEv("Derive") /\ MDerive(E.m, E.base, E.d, E.kind) /\ RvOK /\ Keep
             /\ IF out'.rv = "OK" THEN E.k = out'.k /\ E.made = 1 /\ Bind(out'.v, E.v) /\ E.v = E.ref /\ KcvOK /\ E.attrsok
                                  ELSE E.made = 0 /\ UNCHANGED sem
\* attrsok: the attributes that say how the key was made (CKA_LOCAL, CKA_KEY_GEN_MECHANISM, CKA_ALWAYS_SENSITIVE,
\* CKA_NEVER_EXTRACTABLE, CKA_VALUE_LEN, key type and class) still tell the truth
TValue    == IsEv("Value") /\ MValue(E.k) /\ RvOK /\ Bind(out'.v, E.v) /\ Keep /\ ("attrsok" \in DOMAIN E => E.attrsok)
TValueR   == IsEv("ValueR") /\ MValueR(E.k) /\ RvOK /\ Bind(out'.v, E.v) /\ Keep /\ E.attrsok
\* rt: the library's inverse operation (same chunking) gives the input back / verifies; tamper: every altered variant
\* (data, signature / MAC / tag, IV, AAD) is rejected
TCrypt    == IsEv("Crypt") /\ MCrypt(E.mode, E.k, E.d, E.ch) /\ Keep
             /\ IF NeedsBlocks(E.mode) /\ E.len % (IF E.mode = "des3-ecb" THEN 8 ELSE 16) # 0
                THEN E.rv # "OK" /\ UNCHANGED sem
                ELSE /\ E.rv = "OK" /\ BindOut(out'.term, E.v) /\ E.v = E.ref /\ E.tamper
                     \* (as built, Botan: C_Decrypt of an EMPTY input under CBC without padding fails)
                     /\ \/ E.rt
                        \/ /\ "BotanEmptyCbc" \in Dev /\ E.len = 0 /\ E.mode \in {"aes-cbc", "des3-cbc"} /\ cfg \in {"botan-file", "botan-db"}
                           /\ PrintT(<<"DEV", bn, "BotanEmptyCbc">>)
TDigest   == IsEv("Digest") /\ MDigest(E.mode, E.d, E.ch) /\ E.rv = "OK" /\ BindOut(out'.term, E.v) /\ E.v = E.ref /\ Keep
TRCrypt   == IsEv("RCrypt") /\ MRCrypt(E.mode, E.k, E.d) /\ E.rv = "OK" /\ E.refok /\ E.libok /\ E.tamper /\ UNCHANGED sem /\ Keep

TInit == Init /\ l = 1 /\ bn = 0 /\ cfg = "" /\ sem = {} /\ TLCSet(1, 1)
TNext == TReset \/ TProbe \/ TImport \/ TImportT \/ TGenerate \/ TWrap \/ TDamage \/ TUnwrap \/ TUnwrapT \/ TUnwrapAs \/ TDerive \/ TValue \/ TValueR \/ TCrypt \/ TDigest \/ TRCrypt
TSpec == TInit /\ [][TNext]_tvars
TrackMax == IF l > TLCGet(1) THEN TLCSet(1, l) ELSE TRUE
TraceAccepted == PrintT(<<"MAXL", TLCGet(1)>>)
=============================================================================
