------------------------------- MODULE MC_Val --------------------------------
(* Model-checking instance of P11Val: the behaviours whose edges the driver replays. *)
EXTENDS P11Val
=============================================================================
