------------------------------- MODULE MC_Mech -------------------------------
(* Bounded instance of P11Mech: Init -> Configure -> MakeKey -> Start* ->     *)
(* DropKey -> ... -> Unconfigure.  Every Start edge is one cell of the table  *)
(* operation x key kind x usage x mechanism x allowed-list x configuration.   *)
EXTENDS P11Mech
CONSTANTS Kinds, KCs, Uses, Als, AAMechs

MConfigure(kind, m0) == conf.kind = "none" /\ Configure(kind, m0)
MUnconfigure         == conf.kind # "none" /\ key.kc = "none" /\ ~aa.active
                        /\ conf' = [kind |-> "none"] /\ rv' = "OK" /\ UNCHANGED <<key, aa>>
MMakeKey(kc, use, al) == key.kc = "none" /\ ~aa.active /\ MakeKey(kc, use, al)
MDropKey             == key.kc # "none" /\ key' = [kc |-> "none"] /\ rv' = "OK" /\ UNCHANGED <<conf, aa>>
MStart(op)           == key.kc # "none" /\ Start(op, TRUE)
MStartKeyless(ep)    == key.kc = "none" /\ ~aa.active /\ StartKeyless(ep, TRUE)
AAOK                 == conf.kind = "ALL" /\ conf.m0 \in AAMechs /\ key.kc = "none"
MAAInit              == AAOK /\ ~aa.active /\ AAInit(TRUE)
MAALogin(right)      == AAOK /\ AALogin(right)
MAAUse               == AAOK /\ AAUse(TRUE)

UseSet == {u \in UseKinds : u[1] \in Uses}

Next ==
    \/ \E kind \in Kinds, m0 \in Mechs : MConfigure(kind, m0)
    \/ MUnconfigure
    \/ \E kc \in KCs, use \in UseSet, al \in Als : MMakeKey(kc, use, al)
    \/ MDropKey
    \/ \E op \in Ops : MStart(op)
    \/ \E ep \in Keyless : MStartKeyless(ep)
    \/ MAAInit
    \/ \E right \in BOOLEAN : MAALogin(right)
    \/ MAAUse
Spec == Init /\ [][Next]_vars
View == <<conf, key, aa>>
=============================================================================
