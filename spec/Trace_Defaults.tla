---------------------------- MODULE Trace_Defaults ----------------------------
(* Trace specification for P11Defaults (driver vf/drv_defaults.py): the event carries every attribute of the table that *)
(* could be read (attrs: name -> value symbol) and the attributes that could not (missing).                             *)
EXTENDS P11Defaults, Json, IOUtils, Sequences, Naturals
VARIABLE l
T == ndJsonDeserialize(IOEnv.TRACE)
E == T[l]
tvars == <<vars, l>>
IsEv(name) == l <= Len(T) /\ E.e = name /\ l' = l + 1
TReset  == IsEv("Reset") /\ rv' = "OK" /\ out' = <<>>
TCreate == IsEv("MCreateMin") /\ MCreateMin(E.c) /\ E.rv = "OK"
           /\ DOMAIN E.attrs = DOMAIN out' /\ \A a \in DOMAIN out' : E.attrs[a] = out'[a]
TInit == Init /\ l = 1 /\ TLCSet(1, 1)
TNext == TReset \/ TCreate
TSpec == TInit /\ [][TNext]_tvars
TrackMax == IF l > TLCGet(1) THEN TLCSet(1, l) ELSE TRUE
TraceAccepted == PrintT(<<"MAXL", TLCGet(1)>>)
=============================================================================
