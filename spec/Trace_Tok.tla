------------------------------ MODULE Trace_Tok ------------------------------
(* Trace specification for P11Tok (driver vf/drv_tok.py).  After every action  *)
(* the recorded projections must equal the specification's next state:         *)
(*   live   slot list, labels, flags, session states, visible objects, seen    *)
(*          through the acting library                                         *)
(*   fresh  the same token directory seen by a NEW PROCESS, plus which PIN     *)
(*          symbols authenticate as SO / user and whether private objects      *)
(*          read back intact                                                   *)
EXTENDS P11Tok, Json, IOUtils

CONSTANTS Obs
VARIABLE l
T == ndJsonDeserialize(IOEnv.TRACE)
E == T[l]
tvars == <<vars, l>>

ToSet(s) == {s[i] : i \in DOMAIN s}
Cls(x) == IF x = "OK" THEN "OK" ELSE IF x = "SESSION_HANDLE_INVALID" THEN x ELSE "ERR"

StateN(h) == LET k == sess'[h].k  rw == sess'[h].rw IN
             IF login'[k] = "so" THEN "RW_SO"
             ELSE IF login'[k] = "user" THEN (IF rw THEN "RW_USER" ELSE "RO_USER")
             ELSE (IF rw THEN "RW_PUBLIC" ELSE "RO_PUBLIC")

VisibleN(k) == {o \in DOMAIN tk'[k].objs : tk'[k].objs[o] => login'[k] = "user"}
PubN(k)     == {o \in DOMAIN tk'[k].objs : ~tk'[k].objs[o]}
PrivN(k)    == {o \in DOMAIN tk'[k].objs : tk'[k].objs[o]}

LiveOK ==
    IF ~up' THEN TRUE
    ELSE LET v == E.live  ts == ToSet(v.toks) IN
         /\ "live" \in Obs =>
              /\ {t.k : t \in ts} = DOMAIN tk' /\ Len(v.toks) = Cardinality(DOMAIN tk')
              /\ v.nfree = 1
              /\ \A t \in ts : /\ t.lab = tk'[t.k].label
                               /\ (t.slotok \/ tk'[t.k].fresh)
                               /\ t.userinit = (tk'[t.k].user # "nopin")
                               /\ t.ulow = low'[t.k].u /\ t.slow = low'[t.k].s
              /\ \A p \in ToSet(v.ss) : IF p[1] \in DOMAIN sess' THEN p[2] = StateN(p[1]) ELSE p[2] = "INVALID"
         /\ "objs" \in Obs => \A t \in ts : t.k \in DOMAIN tk' => ToSet(t.vis) = VisibleN(t.k)

FreshOK ==
    LET v == E.fresh  ts == ToSet(v.toks) IN
    /\ "fresh" \in Obs =>
         /\ {t.k : t \in ts} = DOMAIN tk' /\ Len(v.toks) = Cardinality(DOMAIN tk')
         /\ v.nfree = 1
         /\ \A t \in ts : /\ t.lab = tk'[t.k].label
                          /\ t.slotok
                          /\ t.userinit = (tk'[t.k].user # "nopin")
                          \* (the helper process tries PINs itself, see "pins": it reports the flags it found BEFORE doing so)
                          /\ t.ulow = low'[t.k].u /\ t.slow = low'[t.k].s
    /\ "pins" \in Obs =>
         \A t \in ts : t.k \in DOMAIN tk' =>
              /\ ToSet(t.so_pins) = {tk'[t.k].so}
              /\ ToSet(t.user_pins) = (IF tk'[t.k].user = "nopin" THEN {} ELSE {tk'[t.k].user})
    /\ "objs" \in Obs =>
         \A t \in ts : t.k \in DOMAIN tk' =>
              /\ ToSet(t.pub) = PubN(t.k)
              /\ (tk'[t.k].user # "nopin") =>
                     (/\ {p[1] : p \in ToSet(t.priv)} = PrivN(t.k)
                      /\ \A p \in ToSet(t.priv) : p[2])          \* private values read back intact

Post == Cls(rv') = Cls(E.rv) /\ LiveOK /\ FreshOK
IsEv(name) == l <= Len(T) /\ E.e = name /\ l' = l + 1

TReset == /\ IsEv("Reset")
          /\ tk' = <<>> /\ up' = TRUE /\ sess' = <<>> /\ login' = <<>> /\ issued' = {} /\ gone' = {} /\ low' = <<>> /\ rv' = "OK"
TInitFresh  == IsEv("MInitFresh") /\ InitFresh(E.k, E.pin, E.lab) /\ Post
TReInit     == IsEv("MReInit") /\ ReInit(E.k, E.pin, E.lab) /\ Post
TRestart    == IsEv("MRestart") /\ Restart /\ Post
TFinalize   == IsEv("MFinalize") /\ Finalize /\ Post
TInitialize == IsEv("MInitialize") /\ Initialize /\ Post
TUtilInit   == IsEv("MUtilInit") /\ UtilInit(E.k, E.so, E.user, E.lab) /\ Post
TUtilDelete == IsEv("MUtilDelete") /\ UtilDelete(E.k) /\ Post
TOpen       == IsEv("MOpen") /\ OpenSession(E.k, E.rw, E.nh) /\ Post
TClose      == IsEv("MClose") /\ CloseSession(E.h) /\ Post
TCloseAll   == IsEv("MCloseAll") /\ CloseAll(E.k) /\ Post
TLogin      == IsEv("MLogin") /\ Login(E.h, E.u, E.pin) /\ Post
TLogout     == IsEv("MLogout") /\ Logout(E.h) /\ Post
TInitPIN    == IsEv("MInitPIN") /\ InitPIN(E.h, E.pin) /\ Post
TSetPIN     == IsEv("MSetPIN") /\ SetPIN(E.h, E.old, E.new) /\ Post
TCreateObj  == IsEv("MCreateObj") /\ CreateObj(E.h, E.o, E.priv) /\ Post
TDestroyObj == IsEv("MDestroyObj") /\ DestroyObj(E.h, E.o) /\ Post

TInit == Init /\ l = 1 /\ TLCSet(1, 1)
TNext == \/ TReset \/ TInitFresh \/ TReInit \/ TRestart \/ TFinalize \/ TInitialize \/ TUtilInit \/ TUtilDelete
         \/ TOpen \/ TClose \/ TCloseAll \/ TLogin \/ TLogout \/ TInitPIN \/ TSetPIN \/ TCreateObj \/ TDestroyObj
TSpec == TInit /\ [][TNext]_tvars
TrackMax == IF l > TLCGet(1) THEN TLCSet(1, l) ELSE TRUE
TraceAccepted == PrintT(<<"MAXL", TLCGet(1)>>)
=============================================================================
