------------------------------ MODULE P11Policy ------------------------------
(***************************************************************************)
(* Attribute policy of key objects at call grain (C08, C02, attribute side *)
(* of C13).  An object is a record of its policy attributes                *)
(*   S sensitive  E extractable  W wrap-with-trusted  M modifiable         *)
(*   C copyable   D destroyable  T trusted            P private            *)
(*   L local  AS always-sensitive  NE never-extractable  G key-gen-mech    *)
(* plus ghost fields tL, tAS, tNE, tG that record, following the text of   *)
(* PKCS#11, what the four history attributes OUGHT to say.  The real       *)
(* fields are computed the way the code computes them (rule engine         *)
(* P11Attribute::update over the footnote masks, the updateAttr overrides, *)
(* and the fix-up transaction of generate / create / unwrap / derive);     *)
(* HistoryTruth demands that both agree in every reachable state.          *)
(*                                                                         *)
(* A template is a sequence of <<attribute, value>> pairs applied in       *)
(* order; the first refused entry refuses the whole call and nothing is    *)
(* changed.                                                                *)
(***************************************************************************)
EXTENDS Naturals, FiniteSets, Sequences, TLC

VARIABLES obj,    \* object id -> record
          who,    \* "user" | "so" : who is logged in
          gone,   \* ids destroyed
          rv, out

vars  == <<obj, who, gone, rv, out>>
state == <<obj, who, gone>>

Ext(f, k, v)  == [x \in (DOMAIN f) \cup {k} |-> IF x = k THEN v ELSE f[x]]
Without(f, S) == [x \in (DOMAIN f) \ S |-> f[x]]
Fail(code)    == rv' = code /\ out' = <<>> /\ UNCHANGED state
Ok(o)         == rv' = "OK" /\ out' = o

Flags   == {"S", "E", "W", "M", "C", "D", "T", "P"}       \* caller-settable booleans
History == {"L", "AS", "NE", "G"}                           \* must never be accepted from the caller
Ops     == {"CREATE", "GENERATE", "UNWRAP", "DERIVE", "SET", "COPY"}

\* the state of a freshly allocated key object before any template entry is applied (the code's setDefault)
Blank == [S |-> FALSE, E |-> FALSE, W |-> FALSE, M |-> TRUE, C |-> TRUE, D |-> TRUE, T |-> FALSE, P |-> FALSE,
          L |-> FALSE, AS |-> FALSE, NE |-> TRUE, G |-> "none",
          tL |-> FALSE, tAS |-> FALSE, tNE |-> FALSE, tG |-> "none"]

-----------------------------------------------------------------------------
(* One template entry.  Result: a record [ok, o] - refused, or the object     *)
(* after the entry was applied.  Transcribed from P11Attribute::update and    *)
(* the updateAttr overrides.                                                  *)
No(o)  == [ok |-> FALSE, o |-> o]
Yes(o) == [ok |-> TRUE, o |-> o]

Apply(o, a, v, op) ==
    IF ~o.M /\ op \notin {"GENERATE", "CREATE"} THEN No(o)               \* CKA_MODIFIABLE false
    ELSE IF a \in History THEN No(o)                                     \* ck2/ck4/ck6 and read-only updateAttr
    ELSE IF a = "S" THEN
         IF op \in {"SET", "COPY"} /\ o.S THEN No(o)                     \* one way: cannot be touched once true
         ELSE IF v THEN Yes([o EXCEPT !.S = TRUE, !.AS = IF op \in {"GENERATE", "DERIVE"} THEN TRUE ELSE @])
         ELSE Yes([o EXCEPT !.S = FALSE, !.AS = FALSE])
    ELSE IF a = "E" THEN
         IF op \in {"SET", "COPY"} /\ ~o.E THEN No(o)                    \* one way: cannot be touched once false
         ELSE IF v THEN Yes([o EXCEPT !.E = TRUE, !.NE = FALSE])
         ELSE Yes([o EXCEPT !.E = FALSE])
    ELSE IF a = "W" THEN
         IF op \in {"SET", "COPY"} /\ o.W THEN No(o)
         ELSE Yes([o EXCEPT !.W = v])
    ELSE IF a \in {"M", "D", "P"} THEN                                   \* ck17: creation and copy only
         IF op = "SET" THEN No(o) ELSE Yes([o EXCEPT ![a] = v])
    ELSE IF a = "C" THEN                                                 \* ck12: creation only
         IF op \in {"SET", "COPY"} THEN No(o) ELSE Yes([o EXCEPT !.C = v])
    ELSE IF a = "T" THEN                                                 \* ck10: creation only, true only by the SO
         IF op \in {"SET", "COPY"} THEN No(o)
         ELSE IF v /\ who # "so" THEN No(o)
         ELSE Yes([o EXCEPT !.T = v])
    ELSE No(o)

RECURSIVE ApplyAll(_, _, _)
ApplyAll(o, tmpl, op) ==
    IF tmpl = <<>> THEN Yes(o)
    ELSE LET r == Apply(o, Head(tmpl)[1], Head(tmpl)[2], op) IN
         IF r.ok THEN ApplyAll(r.o, Tail(tmpl), op) ELSE No(o)

\* session access: the SO (and a public session) cannot reach private objects, nor create them
Denied(o) == o.P /\ who # "user"

-----------------------------------------------------------------------------
(* Making keys *)

\* C_GenerateKey / C_GenerateKeyPair (private key)
Generate(id, tmpl) ==
    LET r == ApplyAll(Blank, tmpl, "GENERATE") IN
    IF ~r.ok \/ Denied(r.o) THEN Fail("REFUSED")
    ELSE /\ id \notin DOMAIN obj /\ id \notin gone
         /\ obj' = Ext(obj, id, [r.o EXCEPT !.L = TRUE, !.G = "gen", !.AS = r.o.S, !.NE = ~r.o.E,
                                            !.tL = TRUE, !.tG = "gen", !.tAS = r.o.S, !.tNE = ~r.o.E])
         /\ Ok(<<id>>) /\ UNCHANGED <<who, gone>>

\* C_CreateObject and C_UnwrapKey: never local, never always-sensitive, never never-extractable
Import(id, tmpl, op) ==
    LET r == ApplyAll(Blank, tmpl, op) IN
    IF ~r.ok \/ Denied(r.o) THEN Fail("REFUSED")
    ELSE /\ id \notin DOMAIN obj /\ id \notin gone
         /\ obj' = Ext(obj, id, [r.o EXCEPT !.L = FALSE, !.AS = FALSE, !.NE = FALSE,
                                            !.tL = FALSE, !.tG = "none", !.tAS = FALSE, !.tNE = FALSE])
         /\ Ok(<<id>>) /\ UNCHANGED <<who, gone>>

\* C_DeriveKey.  mech: "enc" (X_ECB/CBC_ENCRYPT_DATA, and the key-agreement mechanisms),
\*               "catd" (CONCATENATE_BASE_AND_DATA / DATA_AND_BASE), "catk" (CONCATENATE_BASE_AND_KEY with key b2)
Derive(id, b, b2, mech, tmpl) ==
    IF b \notin DOMAIN obj \/ (mech = "catk" /\ b2 \notin DOMAIN obj) THEN Fail("HANDLE")
    ELSE IF Denied(obj[b]) \/ (mech = "catk" /\ Denied(obj[b2])) THEN Fail("REFUSED")
    ELSE LET r  == ApplyAll(Blank, tmpl, "DERIVE")
             B  == obj[b]
             B2 == IF mech = "catk" THEN obj[b2] ELSE obj[b]
             d  == r.o
             fin == IF mech = "catk" THEN
                        [d EXCEPT !.S  = IF B.S \/ B2.S THEN TRUE ELSE @,
                                  !.E  = IF ~(B.E /\ B2.E) THEN FALSE ELSE @,
                                  !.AS = B.AS /\ B2.AS, !.NE = B.NE /\ B2.NE,
                                  !.tAS = B.tAS /\ B2.tAS, !.tNE = B.tNE /\ B2.tNE]
                    ELSE IF mech = "catd" THEN
                        [d EXCEPT !.S  = IF B.S THEN TRUE ELSE @,
                                  !.E  = IF ~B.E THEN FALSE ELSE @,
                                  !.AS = B.AS, !.NE = B.NE, !.tAS = B.tAS, !.tNE = B.tNE]
                    ELSE [d EXCEPT !.AS = IF B.AS THEN d.S ELSE FALSE,
                                   !.NE = IF B.NE THEN ~d.E ELSE FALSE,
                                   !.tAS = B.tAS /\ d.S, !.tNE = B.tNE /\ ~d.E] IN
         IF ~r.ok \/ Denied(r.o) THEN Fail("REFUSED")
         ELSE /\ id \notin DOMAIN obj /\ id \notin gone
              /\ obj' = Ext(obj, id, [fin EXCEPT !.L = FALSE, !.tL = FALSE, !.tG = "none"])
              /\ Ok(<<id>>) /\ UNCHANGED <<who, gone>>

-----------------------------------------------------------------------------
(* Changing, copying, destroying *)

SetAttrs(id, tmpl) ==
    IF id \notin DOMAIN obj THEN Fail("HANDLE")
    ELSE IF Denied(obj[id]) THEN Fail("REFUSED")
    ELSE IF ~obj[id].M THEN Fail("ACTION_PROHIBITED")
    ELSE LET r == ApplyAll(obj[id], tmpl, "SET") IN
         IF ~r.ok THEN Fail("REFUSED")
         ELSE obj' = [obj EXCEPT ![id] = r.o] /\ Ok(<<>>) /\ UNCHANGED <<who, gone>>

CopyObj(id, src, tmpl) ==
    IF src \notin DOMAIN obj THEN Fail("HANDLE")
    ELSE IF Denied(obj[src]) THEN Fail("REFUSED")
    ELSE IF ~obj[src].C THEN Fail("ACTION_PROHIBITED")
    ELSE LET r == ApplyAll(obj[src], tmpl, "COPY") IN
         IF ~r.ok THEN Fail("REFUSED")
         ELSE IF obj[src].P /\ ~r.o.P THEN Fail("TEMPLATE_INCONSISTENT")      \* privacy cannot be downgraded
         ELSE IF Denied(r.o) THEN Fail("REFUSED")
         ELSE /\ id \notin DOMAIN obj /\ id \notin gone
              /\ obj' = Ext(obj, id, r.o)
              /\ Ok(<<id>>) /\ UNCHANGED <<who, gone>>

Destroy(id) ==
    IF id \notin DOMAIN obj THEN Fail("HANDLE")
    ELSE IF Denied(obj[id]) THEN Fail("REFUSED")
    ELSE IF ~obj[id].D THEN Fail("ACTION_PROHIBITED")
    ELSE obj' = Without(obj, {id}) /\ gone' = gone \cup {id} /\ Ok(<<>>) /\ UNCHANGED who

-----------------------------------------------------------------------------
(* Reading secret attributes and wrapping *)

Protected(o) == o.S \/ ~o.E

\* C_GetAttributeValue of a secret value attribute (CKA_VALUE, CKA_PRIVATE_EXPONENT, ...)
GetSecret(id) ==
    IF id \notin DOMAIN obj THEN Fail("HANDLE")
    ELSE IF Denied(obj[id]) THEN Fail("REFUSED")
    ELSE IF Protected(obj[id]) THEN rv' = "ATTRIBUTE_SENSITIVE" /\ out' = <<>> /\ UNCHANGED state
    ELSE Ok(<<"value">>) /\ UNCHANGED state

\* C_WrapKey of key id under a wrapping key whose CKA_TRUSTED is `trusted`
Wrap(id, trusted) ==
    IF id \notin DOMAIN obj THEN Fail("HANDLE")
    ELSE IF Denied(obj[id]) THEN Fail("REFUSED")
    ELSE IF ~obj[id].E THEN Fail("KEY_UNEXTRACTABLE")
    ELSE IF obj[id].W /\ ~trusted THEN Fail("KEY_NOT_WRAPPABLE")
    ELSE Ok(<<"blob">>) /\ UNCHANGED state

Relogin(u) == who' = u /\ rv' = "OK" /\ out' = <<>> /\ UNCHANGED <<obj, gone>>

Init == obj = <<>> /\ who = "user" /\ gone = {} /\ rv = "OK" /\ out = <<>>

-----------------------------------------------------------------------------
(* Properties *)

\* C08: the history attributes tell the truth
HistoryTruth == \A i \in DOMAIN obj : LET o == obj[i] IN
                    o.L = o.tL /\ o.AS = o.tAS /\ o.NE = o.tNE /\ o.G = o.tG
\* consequences that make the history attributes meaningful
HistoryConsistent == \A i \in DOMAIN obj : LET o == obj[i] IN
                    (o.AS => o.S) /\ (o.NE => ~o.E)

\* C02: the protections are one-way for every object that continues to exist
OneWay == [][\A i \in DOMAIN obj \cap DOMAIN obj' :
               /\ (obj[i].S => obj'[i].S) /\ (~obj[i].E => ~obj'[i].E) /\ (obj[i].W => obj'[i].W)
               /\ obj'[i].L = obj[i].L /\ obj'[i].G = obj[i].G
               /\ (obj'[i].AS => obj[i].AS) /\ (obj'[i].NE => obj[i].NE)]_vars
\* C08: not modifiable means no change at all; read-only attributes never change after creation
Frozen == [][\A i \in DOMAIN obj \cap DOMAIN obj' :
               /\ (~obj[i].M => obj'[i] = obj[i])
               /\ obj'[i].C = obj[i].C /\ obj'[i].T = obj[i].T /\ obj'[i].P = obj[i].P
               /\ obj'[i].M = obj[i].M /\ obj'[i].D = obj[i].D]_vars
NotDestroyable == [][\A i \in DOMAIN obj : (~obj[i].D) => i \in DOMAIN obj']_vars
FailedNoEffect == [][rv' # "OK" => UNCHANGED state]_vars
TrustedOnlyBySO == [][\A i \in (DOMAIN obj') \ (DOMAIN obj) :
                        obj'[i].T => (who = "so" \/ \E j \in DOMAIN obj : obj[j].T)]_vars
=============================================================================
