------------------------------ MODULE Trace_Mech ------------------------------
(* Trace specification for P11Mech (driver vf/drv_mech.py).  For a Start the   *)
(* logged outcome binds ok: the action then demands that a success was         *)
(* permitted; `yields` says whether the follow-up single-part call produced    *)
(* output - it may only after a successful start.                              *)
EXTENDS P11Mech, Json, IOUtils
VARIABLE l
T == ndJsonDeserialize(IOEnv.TRACE)
E == T[l]
tvars == <<vars, l>>
Cls(x) == IF x = "OK" THEN "OK" ELSE "ERR"
IsEv(name) == l <= Len(T) /\ E.e = name /\ l' = l + 1
Post == Cls(rv') = Cls(E.rv)
UseOf(u) == <<u[1], u[2]>>      \* JSON: ["all","-"] or ["only","Sign"]

TReset       == IsEv("Reset") /\ conf' = [kind |-> "none"] /\ key' = [kc |-> "none"]
                /\ aa' = [active |-> FALSE, reauth |-> FALSE] /\ rv' = "OK"
TConfigure   == IsEv("MConfigure") /\ Configure(E.kind, E.m0) /\ Post
TUnconfigure == IsEv("MUnconfigure") /\ conf' = [kind |-> "none"] /\ rv' = "OK" /\ UNCHANGED <<key, aa>>
TMakeKey     == IsEv("MMakeKey") /\ MakeKey(E.kc, UseOf(E.use), E.al) /\ Post
TDropKey     == IsEv("MDropKey") /\ key' = [kc |-> "none"] /\ rv' = "OK" /\ UNCHANGED <<conf, aa>>
TStart       == IsEv("MStart") /\ Start(E.op, E.rv = "OK") /\ Post /\ (E.yields => rv' = "OK")
TKeyless     == IsEv("MStartKeyless") /\ StartKeyless(E.ep, E.rv = "OK") /\ Post /\ (E.yields => rv' = "OK")
TAAInit      == IsEv("MAAInit") /\ AAInit(E.rv = "OK") /\ Post
TAALogin     == IsEv("MAALogin") /\ AALogin(E.right) /\ Post
TAAUse       == IsEv("MAAUse") /\ AAUse(E.rv = "OK") /\ Post /\ (E.yields => rv' = "OK")

TInit == Init /\ l = 1 /\ TLCSet(1, 1)
TNext == TReset \/ TConfigure \/ TUnconfigure \/ TMakeKey \/ TDropKey \/ TStart \/ TKeyless \/ TAAInit \/ TAALogin \/ TAAUse
TSpec == TInit /\ [][TNext]_tvars
TrackMax == IF l > TLCGet(1) THEN TLCSet(1, l) ELSE TRUE
TraceAccepted == PrintT(<<"MAXL", TLCGet(1)>>)
=============================================================================
