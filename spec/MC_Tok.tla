------------------------------- MODULE MC_Tok -------------------------------
(* Bounded instance of P11Tok: behaviours for replay and exhaustive checking. *)
EXTENDS P11Tok

CONSTANTS Acts, MaxH, MaxObj, PinSyms, NewPins, AsciiPins, Labs

NextTok  == Cardinality(DOMAIN tk) + Cardinality({g \in gone : g < 0}) + 1
AllObjs  == UNION {DOMAIN tk[k].objs : k \in DOMAIN tk}
NextObj  == Cardinality(AllObjs) + Cardinality({g \in gone : g > 0}) + 1
NextH    == Cardinality(issued) + 1
TS == 1 .. MaxTok
HS == 1 .. MaxH
OS == 1 .. MaxObj

MInitFresh(pin, lab)    == "init" \in Acts /\ NextTok <= MaxTok /\ InitFresh(NextTok, pin, lab)
MReInit(k, pin, lab)    == "init" \in Acts /\ ReInit(k, pin, lab)
MRestart                == "restart" \in Acts /\ Restart
MFinalize               == "util" \in Acts /\ Finalize
MInitialize             == "util" \in Acts /\ Initialize
MUtilInit(so, user, lab) == "util" \in Acts /\ NextTok <= MaxTok /\ UtilInit(NextTok, so, user, lab)
MUtilDelete(k)          == "util" \in Acts /\ UtilDelete(k)
MOpen(k, rw)            == "sess" \in Acts /\ NextH <= MaxH /\ OpenSession(k, rw, NextH)
MClose(h)               == "sess" \in Acts /\ h \in DOMAIN sess /\ CloseSession(h)
MCloseAll(k)            == "sess" \in Acts /\ SessionsOf(k) # {} /\ CloseAll(k)
MLogin(h, u, pin)       == "sess" \in Acts /\ h \in DOMAIN sess /\ Login(h, u, pin)
MLogout(h)              == "sess" \in Acts /\ h \in DOMAIN sess /\ login[sess[h].k] # "none" /\ Logout(h)
MInitPIN(h, pin)        == "pin" \in Acts /\ h \in DOMAIN sess /\ InitPIN(h, pin)
MSetPIN(h, old, new)    == "pin" \in Acts /\ h \in DOMAIN sess /\ SetPIN(h, old, new)
MCreateObj(h, private)  == "obj" \in Acts /\ h \in DOMAIN sess /\ NextObj <= MaxObj /\ CreateObj(h, NextObj, private)
MDestroyObj(h, o)       == "obj" \in Acts /\ h \in DOMAIN sess /\ o < NextObj /\ DestroyObj(h, o)

Next ==
    \/ \E pin \in NewPins, lab \in Labs : MInitFresh(pin, lab)
    \/ \E k \in TS, pin \in PinSyms, lab \in Labs : MReInit(k, pin, lab)
    \/ MRestart
    \/ MFinalize
    \/ MInitialize
    \/ \E so \in AsciiPins, user \in AsciiPins, lab \in Labs : MUtilInit(so, user, lab)
    \/ \E k \in TS : MUtilDelete(k)
    \/ \E k \in TS, rw \in BOOLEAN : MOpen(k, rw)
    \/ \E h \in HS : MClose(h)
    \/ \E k \in TS : MCloseAll(k)
    \/ \E h \in HS, u \in {"user", "so"}, pin \in PinSyms : MLogin(h, u, pin)
    \/ \E h \in HS : MLogout(h)
    \/ \E h \in HS, pin \in NewPins : MInitPIN(h, pin)
    \/ \E h \in HS, old \in PinSyms, new \in NewPins : MSetPIN(h, old, new)
    \/ \E h \in HS, private \in BOOLEAN : MCreateObj(h, private)
    \/ \E h \in HS, o \in OS : MDestroyObj(h, o)

Spec == Init /\ [][Next]_vars
View == <<state, low>>
\* for the wide, MC-only models: the status flags influence nothing else, the properties checked there do not mention them
ViewNoLow == state
=============================================================================
