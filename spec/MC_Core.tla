------------------------------ MODULE MC_Core ------------------------------
(* Bounded instance of P11Core for exhaustive checking and for generating   *)
(* the behaviours that are replayed on the implementation.  Fresh handles   *)
(* are the next unused number; handle arguments range over every handle     *)
(* ever issued (stale ones and handles of the wrong kind included) and 0    *)
(* (never issued).  Acts selects the action families of a configuration.    *)
EXTENDS P11Core

CONSTANTS Acts,      \* subset of action family names
          MaxH,      \* bound on the number of handles issued
          MaxO,      \* bound on the number of objects ever created
          LoginPins, \* PIN symbols tried by C_Login / C_SetPIN / C_InitPIN / C_InitToken
          Templates  \* search templates (sets of atoms) tried by C_FindObjectsInit

NextH   == Cardinality(issued) + 1
NextO   == Cardinality(DOMAIN obj \cup dead) + 1
HArgs   == issued \cup {0}
SArgs   == (DOMAIN sess) \cup (IF "stale" \in Acts THEN issued \cup {0} ELSE {})
\* object-handle arguments: live handles of the session's own token (cross-token use of handles is outside the
\* listed properties), plus - with "stale" - every dead or wrong-kind handle ever issued and 0 (never issued)
OArgsOf(h) == {g \in DOMAIN oh : h \in DOMAIN sess => obj[oh[g]].t = sess[h].t}
              \cup (IF "stale" \in Acts THEN (issued \ DOMAIN oh) \cup {0} ELSE {})
CanH    == NextH <= MaxH
CanO    == NextO <= MaxO

\* deterministic assignment of fresh handles to a set of objects: ascending object id
UArgs == IF "utypes" \in Acts THEN Users ELSE {"user", "so"}
TArgs == Templates
Rank(S, o) == Cardinality({p \in S : p < o})
FreshFor(S) == [o \in S |-> NextH + Rank(S, o)]
Need(h, tmpl) == IF h \in DOMAIN sess THEN {o \in FindSet(h, tmpl) : HandleOf(o) = {}} ELSE {}

MOpen(t, rw)                 == "sess" \in Acts /\ CanH /\ OpenSession(t, rw, NextH)
MClose(h)                    == h \in SArgs /\ "sess" \in Acts /\ CloseSession(h)
MCloseAll(t)                 == "sess" \in Acts /\ CloseAllSessions(t)
MInfo(h)                     == h \in SArgs /\ "info" \in Acts /\ GetSessionInfo(h)
\* "rightpin": only the correct PIN is tried (graphs whose subject is not authentication)
RightPin(h, u, pin)          == (h \in DOMAIN sess /\ u \in {"user", "so"})
                                   => pin = (IF u = "so" THEN tok[sess[h].t].so ELSE tok[sess[h].t].user)
MLogin(h, u, pin)            == h \in SArgs /\ u \in UArgs /\ "sess" \in Acts
                                /\ ("rightpin" \in Acts => RightPin(h, u, pin)) /\ Login(h, u, pin)
MVanish(t)                   == "vanish" \in Acts /\ SessionsOf(t) # {} /\ Vanish(t)
MLogout(h)                   == h \in SArgs /\ "sess" \in Acts /\ Logout(h)
MInitToken(t, pin)           == "pin" \in Acts /\ InitToken(t, pin)
MInitPIN(h, pin)             == h \in SArgs /\ "pin" \in Acts /\ InitPIN(h, pin)
MSetPIN(h, old, new)         == h \in SArgs /\ "pin" \in Acts /\ SetPIN(h, old, new)
MCreate(h, tokobj, pr, lab)  == h \in SArgs /\ "obj" \in Acts /\ CanH /\ CanO /\ CreateObject(h, NextO, tokobj, pr, lab, NextH)
MCopy(h, g, tokobj, pr)      == h \in SArgs /\ g \in OArgsOf(h) /\ "copy" \in Acts /\ CanH /\ CanO /\ CopyObject(h, g, NextO, tokobj, pr, NextH)
MDestroy(h, g)               == h \in SArgs /\ g \in OArgsOf(h) /\ "obj" \in Acts /\ DestroyObject(h, g)
MGetAttr(h, g)               == h \in SArgs /\ g \in OArgsOf(h) /\ "attr" \in Acts /\ GetAttr(h, g)
MSetAttr(h, g, lab)          == h \in SArgs /\ g \in OArgsOf(h) /\ "attr" \in Acts /\ SetAttr(h, g, lab)
MSize(h, g)                  == h \in SArgs /\ g \in OArgsOf(h) /\ "attr" \in Acts /\ GetObjectSize(h, g)
MUse(h, g, f)                == h \in SArgs /\ g \in OArgsOf(h) /\ "use" \in Acts /\ UseObject(h, g, f, TRUE)
MMake(h, how, tokobj, pr, lab) == h \in SArgs /\ "make" \in Acts /\ CanH /\ CanO
                                /\ MakeKey(h, how, NextO, tokobj, pr, lab, NextH, TRUE)
\* the same calls with a template that is refused only while the object is being built (after the access checks)
MMakeFail(h, how, tokobj, pr, lab) == h \in SArgs /\ "makefail" \in Acts
                                /\ MakeKey(h, how, NextO, tokobj, pr, lab, NextH, FALSE)
MMakePair(h, tokobj, pr, lab) == h \in SArgs /\ "make" \in Acts /\ NextH + 1 <= MaxH /\ NextO + 1 <= MaxO
                                /\ MakePair(h, NextO, NextO + 1, tokobj, pr, lab, NextH, NextH + 1, TRUE)
MFindAll(h, tmpl)            == h \in SArgs /\ "find" \in Acts /\ NextH + Cardinality(Need(h, tmpl)) <= MaxH + 1
                                /\ FindAll(h, tmpl, FreshFor(Need(h, tmpl)))
MFindInit(h, tmpl)           == h \in SArgs /\ "findop" \in Acts /\ NextH + Cardinality(Need(h, tmpl)) <= MaxH + 1
                                /\ FindObjectsInit(h, tmpl, FreshFor(Need(h, tmpl)))
MFind(h, n)                  == h \in SArgs /\ "findop" \in Acts
                                /\ IF h \in DOMAIN sess /\ h \in DOMAIN fop
                                     THEN \E b \in SUBSET fop[h] :
                                             /\ Cardinality(b) = (IF n < Cardinality(fop[h]) THEN n ELSE Cardinality(fop[h]))
                                             /\ \A x \in b, y \in fop[h] \ b : x < y     \* MC: lowest handles first
                                             /\ FindObjects(h, b)
                                     ELSE FindObjects(h, {})
MFindFinal(h)                == h \in SArgs /\ "findop" \in Acts /\ FindObjectsFinal(h)

\* Quantifier ranges are constant-level (HS) so that TLC attributes every transition to a named action instance
\* with its arguments (the labels of the dumped graph); the state-dependent argument sets are guards.
HS == 0 .. (MaxH + 1)
Next ==
    \/ \E t \in Tokens, rw \in BOOLEAN : MOpen(t, rw)
    \/ \E h \in HS : MClose(h)
    \/ \E h \in HS : MInfo(h)
    \/ \E h \in HS : MLogout(h)
    \/ \E t \in Tokens : MVanish(t)
    \/ \E t \in Tokens : MCloseAll(t)
    \/ \E h \in HS, u \in Users, pin \in LoginPins : MLogin(h, u, pin)
    \/ \E t \in Tokens, pin \in LoginPins : MInitToken(t, pin)
    \/ \E h \in HS, pin \in LoginPins : MInitPIN(h, pin)
    \/ \E h \in HS, old \in LoginPins, new \in LoginPins : MSetPIN(h, old, new)
    \/ \E h \in HS, tokobj \in BOOLEAN, pr \in BOOLEAN, lab \in Labels : MCreate(h, tokobj, pr, lab)
    \/ \E h \in HS, g \in HS, tokobj \in BOOLEAN, pr \in BOOLEAN : MCopy(h, g, tokobj, pr)
    \/ \E h \in HS, g \in HS : MDestroy(h, g)
    \/ \E h \in HS, g \in HS : MGetAttr(h, g)
    \/ \E h \in HS, g \in HS : MSize(h, g)
    \/ \E h \in HS, g \in HS, lab \in Labels : MSetAttr(h, g, lab)
    \/ \E h \in HS, g \in HS, f \in UseKinds : MUse(h, g, f)
    \/ \E h \in HS, how \in MakeKinds, tokobj \in BOOLEAN, pr \in BOOLEAN, lab \in Labels : MMake(h, how, tokobj, pr, lab)
    \/ \E h \in HS, how \in MakeKinds, tokobj \in BOOLEAN, pr \in BOOLEAN, lab \in Labels : MMakeFail(h, how, tokobj, pr, lab)
    \/ \E h \in HS, tokobj \in BOOLEAN, pr \in BOOLEAN, lab \in Labels : MMakePair(h, tokobj, pr, lab)
    \/ \E h \in HS, tmpl \in TArgs : MFindAll(h, tmpl)
    \/ \E h \in HS, tmpl \in TArgs : MFindInit(h, tmpl)
    \/ \E h \in HS, n \in {0, 1, 2} : MFind(h, n)
    \/ \E h \in HS : MFindFinal(h)

Spec == Init /\ [][Next]_vars

View == state      \* hides the observation variables rv, out
=============================================================================
