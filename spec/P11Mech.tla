------------------------------- MODULE P11Mech -------------------------------
(***************************************************************************)
(* C07: when may a cryptographic or key-management operation START?        *)
(*                                                                         *)
(*   Start(op) succeeds ONLY IF                                            *)
(*     - the key's usage attribute for op is true,                         *)
(*     - the key's class and type fit the mechanism for op (Fits, taken    *)
(*       from the PKCS#11 mechanism definitions, not from the code),       *)
(*     - the mechanism is in CKA_ALLOWED_MECHANISMS when that is non-empty,*)
(*     - the mechanism is enabled by slots.mechanisms.                     *)
(*   The configuration clause also binds the entry points without a key:   *)
(*   C_DigestInit, C_GenerateKey, C_GenerateKeyPair.                       *)
(*   A private-key operation on a key with CKA_ALWAYS_AUTHENTICATE cannot  *)
(*   produce output before a successful context-specific login.            *)
(*                                                                         *)
(* The state is one configuration (relative to a mechanism under test m0)  *)
(* and one key; operations that are permitted may still fail for reasons   *)
(* outside this module (ok = FALSE), they just must not succeed otherwise. *)
(***************************************************************************)
EXTENDS Naturals, FiniteSets, Sequences, TLC

CONSTANTS Mechs          \* the mechanism names exercised by a configuration of the model

VARIABLES conf,    \* [kind, m0] | [kind |-> "none"]       kind: how slots.mechanisms treats m0
          key,     \* [kc, use, al] | [kc |-> "none"]
          aa,      \* always-authenticate sub-machine: [active, reauth]
          rv

vars == <<conf, key, aa, rv>>

ConfKinds == {"ALL", "pos_in", "pos_out", "neg_in", "neg_out"}
Ops       == {"Encrypt", "Decrypt", "Sign", "Verify", "Wrap", "Unwrap", "Derive"}
Keyless   == {"DigestInit", "GenerateKey", "GenerateKeyPair"}
KeyKinds  == {"AES", "DES", "DES2", "DES3", "GENERIC", "RSA_PUB", "RSA_PRIV", "DSA_PUB", "DSA_PRIV",
              "DH_PUB", "DH_PRIV", "EC_PUB", "EC_PRIV", "ED_PUB", "ED_PRIV"}
Secret    == {"AES", "DES", "DES2", "DES3", "GENERIC"}
\* which operations' usage attributes are true on the key
UseKinds  == {<<"all", "-">>, <<"none", "-">>} \cup {<<"only", op>> : op \in Ops} \cup {<<"except", op>> : op \in Ops}
AlKinds   == {"empty", "has", "hasnt"}      \* CKA_ALLOWED_MECHANISMS: empty / contains m0 / non-empty without m0

Enabled(use, op) == use[1] = "all" \/ (use[1] = "only" /\ use[2] = op) \/ (use[1] = "except" /\ use[2] # op)

\* mechanism families (PKCS#11 v2.40 mechanism specifications)
AESCipher  == {"AES_ECB", "AES_CBC", "AES_CBC_PAD", "AES_CTR", "AES_GCM"}
DESCipher  == {"DES_ECB", "DES_CBC", "DES_CBC_PAD"}
DES3Cipher == {"DES3_ECB", "DES3_CBC", "DES3_CBC_PAD"}
RSACrypt   == {"RSA_PKCS", "RSA_X_509", "RSA_PKCS_OAEP"}
HMAC       == {"MD5_HMAC", "SHA_1_HMAC", "SHA224_HMAC", "SHA256_HMAC", "SHA384_HMAC", "SHA512_HMAC"}
RSASig     == {"RSA_PKCS", "RSA_X_509", "MD5_RSA_PKCS", "SHA1_RSA_PKCS", "SHA224_RSA_PKCS", "SHA256_RSA_PKCS",
               "SHA384_RSA_PKCS", "SHA512_RSA_PKCS", "RSA_PKCS_PSS", "SHA1_RSA_PKCS_PSS", "SHA224_RSA_PKCS_PSS",
               "SHA256_RSA_PKCS_PSS", "SHA384_RSA_PKCS_PSS", "SHA512_RSA_PKCS_PSS"}
DSASig     == {"DSA", "DSA_SHA1", "DSA_SHA224", "DSA_SHA256", "DSA_SHA384", "DSA_SHA512"}
AESWrap    == {"AES_KEY_WRAP", "AES_KEY_WRAP_PAD", "AES_CBC", "AES_CBC_PAD", "AES_ECB"}
DES3Wrap   == {"DES3_ECB", "DES3_CBC", "DES3_CBC_PAD"}
DESWrap    == {"DES_ECB", "DES_CBC", "DES_CBC_PAD"}
RSAWrap    == {"RSA_PKCS", "RSA_PKCS_OAEP", "RSA_X_509"}
Concat     == {"CONCATENATE_BASE_AND_DATA", "CONCATENATE_DATA_AND_BASE", "CONCATENATE_BASE_AND_KEY"}
Digests    == {"MD5", "SHA_1", "SHA224", "SHA256", "SHA384", "SHA512"}
KeyGens    == {"AES_KEY_GEN", "DES_KEY_GEN", "DES2_KEY_GEN", "DES3_KEY_GEN", "GENERIC_SECRET_KEY_GEN",
               "DSA_PARAMETER_GEN", "DH_PKCS_PARAMETER_GEN"}
PairGens   == {"RSA_PKCS_KEY_PAIR_GEN", "DSA_KEY_PAIR_GEN", "DH_PKCS_KEY_PAIR_GEN", "EC_KEY_PAIR_GEN",
               "EC_EDWARDS_KEY_PAIR_GEN"}

\* does a key of kind kc fit mechanism m for operation op?
Fits(op, m, kc) ==
    IF op \in {"Encrypt", "Decrypt"} THEN
         \/ (m \in AESCipher /\ kc = "AES") \/ (m \in DESCipher /\ kc = "DES") \/ (m \in DES3Cipher /\ kc \in {"DES2", "DES3"})
         \/ (m \in RSACrypt /\ kc = (IF op = "Encrypt" THEN "RSA_PUB" ELSE "RSA_PRIV"))
    ELSE IF op \in {"Sign", "Verify"} THEN
         LET priv == op = "Sign" IN
         \/ (m \in HMAC /\ kc = "GENERIC")
         \/ (m = "AES_CMAC" /\ kc = "AES") \/ (m = "DES3_CMAC" /\ kc \in {"DES2", "DES3"})
         \/ (m \in RSASig /\ kc = (IF priv THEN "RSA_PRIV" ELSE "RSA_PUB"))
         \/ (m \in DSASig /\ kc = (IF priv THEN "DSA_PRIV" ELSE "DSA_PUB"))
         \/ (m = "ECDSA" /\ kc = (IF priv THEN "EC_PRIV" ELSE "EC_PUB"))
         \/ (m = "EDDSA" /\ kc = (IF priv THEN "ED_PRIV" ELSE "ED_PUB"))
    ELSE IF op \in {"Wrap", "Unwrap"} THEN
         \/ (m \in AESWrap /\ kc = "AES") \/ (m \in DES3Wrap /\ kc \in {"DES2", "DES3"}) \/ (m \in DESWrap /\ kc = "DES")
         \/ (m \in RSAWrap /\ kc = (IF op = "Wrap" THEN "RSA_PUB" ELSE "RSA_PRIV"))
    ELSE \* Derive
         \/ (m = "DH_PKCS_DERIVE" /\ kc = "DH_PRIV")
         \/ (m = "ECDH1_DERIVE" /\ kc \in {"EC_PRIV", "ED_PRIV"})
         \/ (m \in {"DES_ECB_ENCRYPT_DATA", "DES_CBC_ENCRYPT_DATA"} /\ kc = "DES")
         \/ (m \in {"DES3_ECB_ENCRYPT_DATA", "DES3_CBC_ENCRYPT_DATA"} /\ kc \in {"DES2", "DES3"})
         \/ (m \in {"AES_ECB_ENCRYPT_DATA", "AES_CBC_ENCRYPT_DATA"} /\ kc = "AES")
         \/ (m \in Concat /\ kc \in Secret)

FitsKeyless(ep, m) == IF ep = "DigestInit" THEN m \in Digests
                      ELSE IF ep = "GenerateKey" THEN m \in KeyGens ELSE m \in PairGens

Configured == conf.kind \in {"ALL", "pos_in", "neg_out"}
Permitted(op) == /\ conf.kind # "none" /\ key.kc # "none"
                 /\ Enabled(key.use, op) /\ Fits(op, conf.m0, key.kc) /\ key.al # "hasnt" /\ Configured

Init == conf = [kind |-> "none"] /\ key = [kc |-> "none"] /\ aa = [active |-> FALSE, reauth |-> FALSE] /\ rv = "OK"

\* the library is (re-)initialised with slots.mechanisms treating m0 as `kind` says
Configure(kind, m0) == /\ conf' = [kind |-> kind, m0 |-> m0] /\ key' = [kc |-> "none"]
                       /\ aa' = [active |-> FALSE, reauth |-> FALSE] /\ rv' = "OK"
MakeKey(kc, use, al) == /\ conf.kind # "none" /\ key' = [kc |-> kc, use |-> use, al |-> al]
                        /\ aa' = [active |-> FALSE, reauth |-> FALSE] /\ rv' = "OK" /\ UNCHANGED conf
\* C_<op>Init / C_WrapKey / C_UnwrapKey / C_DeriveKey with mechanism m0 and the key
Start(op, ok) == /\ key.kc # "none"
                 /\ rv' = (IF Permitted(op) /\ ok THEN "OK" ELSE "ERR")
                 /\ UNCHANGED <<conf, key, aa>>
\* C_DigestInit / C_GenerateKey / C_GenerateKeyPair with mechanism m0
StartKeyless(ep, ok) == /\ conf.kind # "none"
                        /\ rv' = (IF Configured /\ FitsKeyless(ep, conf.m0) /\ ok THEN "OK" ELSE "ERR")
                        /\ UNCHANGED <<conf, key, aa>>

-----------------------------------------------------------------------------
(* CKA_ALWAYS_AUTHENTICATE: a private key (kept by the driver next to the     *)
(* key under test); every successful Init arms re-authentication.             *)
AAInit(ok) == /\ conf.kind = "ALL"
              /\ IF ok THEN aa' = [active |-> TRUE, reauth |-> TRUE] /\ rv' = "OK"
                 ELSE aa' = [active |-> FALSE, reauth |-> FALSE] /\ rv' = "ERR"
              /\ UNCHANGED <<conf, key>>
\* C_Login(CKU_CONTEXT_SPECIFIC, pin)
AALogin(right) == /\ conf.kind = "ALL"
                  /\ IF ~aa.active \/ ~aa.reauth THEN rv' = "ERR" /\ UNCHANGED aa
                     ELSE IF right THEN rv' = "OK" /\ aa' = [aa EXCEPT !.reauth = FALSE]
                     ELSE rv' = "ERR" /\ UNCHANGED aa
                  /\ UNCHANGED <<conf, key>>
\* C_Sign / C_SignUpdate+C_SignFinal / C_Decrypt ... : yields output only without pending re-authentication;
\* the operation is over afterwards (finished, or failed)
AAUse(ok) == /\ conf.kind = "ALL"
             /\ rv' = (IF aa.active /\ ~aa.reauth /\ ok THEN "OK" ELSE "ERR")
             /\ aa' = [active |-> FALSE, reauth |-> FALSE]
             /\ UNCHANGED <<conf, key>>

TypeOK == conf.kind \in ConfKinds \cup {"none"} /\ key.kc \in KeyKinds \cup {"none"}
=============================================================================
