------------------------------- MODULE StoreMP -------------------------------
(***************************************************************************)
(* Several processes working on ONE token object file through the protocol *)
(* of ObjectFile / Generation / File, at the grain of groups of file       *)
(* operations (C15; the crash window of C16).                              *)
(*                                                                         *)
(* C_SetAttributeValue in process p is the sequence                        *)
(*   refresh    ObjectFile::isValid -> refresh: re-index, compare the      *)
(*              generation under a read lock, reload if it differs; a      *)
(*              missing file invalidates the handle                        *)
(*   txlock     take the transaction lock (<uuid>.lock, fcntl);            *)
(*              [reload again under the lock - NOT done by the code];      *)
(*              change the attribute in the cached copy                    *)
(*   wlock      open (O_CREAT!) and write-lock the object file; read the   *)
(*              generation number on disk (Generation::sync)               *)
(*   trunc      ftruncate(0)            (Atomic: nothing happens yet)      *)
(*   flush      write the cache with generation + 1, unlock                *)
(*   txunlock   release the transaction lock; the call returns CKR_OK      *)
(* C_DestroyObject is  refresh, rm (unlink the object file), rmlock        *)
(* (unlink the lock file; the call returns).  C_GetAttributeValue and      *)
(* C_FindObjects are one step (they take only the read lock).              *)
(* Process p changes "its own" attribute p, so two committed updates never *)
(* conflict: nothing may be lost.                                          *)
(*                                                                         *)
(* Switches (sets of allowed choices, so that a trace specification can    *)
(* leave the choice open):                                                 *)
(*   Reload   = {FALSE}  the code as built: no reload under the lock       *)
(*            = {TRUE}   required: repairs the lost update                 *)
(*   Recreate = {TRUE}   as built: a commit re-creates a removed file      *)
(*            = {FALSE}  required: the commit fails instead                *)
(*   Atomic   = TRUE     write elsewhere, then rename: repairs the crash   *)
(*                       window                                            *)
(* TLC: the as-built variant violates NoLostCommittedUpdate,               *)
(* DestroyedStaysDestroyed and CrashOldOrNew; the required one satisfies   *)
(* all three.                                                              *)
(***************************************************************************)
EXTENDS Naturals, FiniteSets, Sequences, TLC
CONSTANTS Procs, NCalls, Kinds, Reload, Recreate, Atomic

Attrs == 1 .. 3                                 \* Procs \subseteq Attrs
VARIABLES disk,       \* the object file: [gen, attrs, e (empty: truncated), x (exists), ino, lk (the lock file exists)]
          objW,       \* process holding the write lock on the object file (0: none)
          txLock,     \* process holding the transaction lock (0: none)
          cache,      \* per process: its in-memory copy [gen, attrs, wino (the inode it has open for writing)]
          pc, kind,   \* per process: where it is in its call, and which call
          has,        \* per process: it holds an object handle it believes valid
          blind,      \* per process: it removed the file itself; its directory snapshot keeps the name, so it never
                      \* notices a file of that name again (matters only once a file is re-created: Recreate)
          todo, done,
          committed,  \* ghost: per attribute the last value whose call returned CKR_OK
          destroyed,  \* ghost: a C_DestroyObject returned CKR_OK
          out,        \* the result of the step (observation)
          crashed
vars == <<disk, objW, txLock, cache, pc, kind, has, blind, todo, done, committed, destroyed, out, crashed>>
View == <<disk, objW, txLock, cache, pc, kind, has, blind, todo, done, committed, destroyed, crashed>>

Zero == [a \in Attrs |-> 0]
NoOut == <<0, "none", "none", Zero>>
Loaded == [gen |-> disk.gen, attrs |-> disk.attrs, wino |-> 0]

\* (the object starts with a generation number well above what a re-created file reaches: its creation stored it many times)
Init == /\ disk = [gen |-> 10, attrs |-> Zero, e |-> FALSE, x |-> TRUE, ino |-> 1, lk |-> TRUE]
        /\ objW = 0 /\ txLock = 0
        /\ cache = [p \in Procs |-> [gen |-> 10, attrs |-> Zero, wino |-> 0]]
        /\ pc = [p \in Procs |-> "idle"] /\ kind = [p \in Procs |-> "none"]
        /\ has = [p \in Procs |-> TRUE] /\ blind = [p \in Procs |-> FALSE]
        /\ todo = [p \in Procs |-> NCalls] /\ done = [p \in Procs |-> 0]
        /\ committed = Zero /\ destroyed = FALSE /\ out = NoOut /\ crashed = FALSE

Goto(p, l) == pc' = [pc EXCEPT ![p] = l]
\* the call of p returns: rv, the handle stays (or not), one call less
Return(p, rv, keep) == /\ Goto(p, "idle") /\ todo' = [todo EXCEPT ![p] = @ - 1]
                       /\ has' = [has EXCEPT ![p] = keep]
                       /\ out' = <<p, kind[p], rv, Zero>>
Refreshed(p) == IF disk.gen # cache[p].gen THEN Loaded ELSE cache[p]

MBegin(p, k) == /\ ~crashed /\ pc[p] = "idle" /\ todo[p] > 0 /\ has[p] /\ k \in Kinds \cap {"set", "destroy"}
                /\ Goto(p, "refresh") /\ kind' = [kind EXCEPT ![p] = k] /\ out' = <<p, k, "begin", Zero>>
                /\ UNCHANGED <<disk, objW, txLock, cache, has, blind, todo, done, committed, destroyed, crashed>>

MRefresh(p) == /\ ~crashed /\ pc[p] = "refresh" /\ (disk.x => objW = 0)
               /\ IF ~disk.x
                  THEN Return(p, "INV", FALSE) /\ UNCHANGED cache
                  ELSE /\ cache' = [cache EXCEPT ![p] = Refreshed(p)]
                       /\ Goto(p, IF kind[p] = "set" THEN "txlock" ELSE "rm")
                       /\ out' = <<p, kind[p], "", Zero>> /\ UNCHANGED <<has, todo>>
               /\ UNCHANGED <<disk, objW, txLock, kind, blind, done, committed, destroyed, crashed>>

MTxLock(p, r) == /\ ~crashed /\ pc[p] = "txlock" /\ txLock = 0 /\ r \in Reload
                 /\ IF r /\ ~disk.x
                    THEN Return(p, "INV", FALSE) /\ UNCHANGED <<cache, txLock>>     \* found gone under the lock
                    ELSE /\ txLock' = p
                         /\ cache' = [cache EXCEPT ![p] = [(IF r THEN Refreshed(p) ELSE cache[p]) EXCEPT !.attrs[p] = done[p] + 1]]
                         /\ Goto(p, "wlock") /\ out' = <<p, kind[p], "", Zero>> /\ UNCHANGED <<has, todo>>
                 /\ disk' = [disk EXCEPT !.lk = IF r /\ ~disk.x THEN @ ELSE TRUE]                    \* open(O_CREAT) of <uuid>.lock
                 /\ UNCHANGED <<objW, kind, blind, done, committed, destroyed, crashed>>

MWLock(p, c) == /\ ~crashed /\ pc[p] = "wlock" /\ objW = 0 /\ c \in (IF disk.x THEN {TRUE} ELSE Recreate)
                /\ IF disk.x
                   THEN /\ objW' = p /\ UNCHANGED <<disk, txLock>>
                        /\ cache' = [cache EXCEPT ![p].gen = IF disk.e THEN 0 ELSE disk.gen, ![p].wino = disk.ino]   \* Generation::sync
                        /\ Goto(p, "trunc") /\ out' = <<p, kind[p], "", Zero>> /\ UNCHANGED <<has, todo>>
                   ELSE IF c
                   THEN /\ disk' = [gen |-> 0, attrs |-> Zero, e |-> TRUE, x |-> TRUE, ino |-> disk.ino + 1, lk |-> disk.lk]   \* O_CREAT
                        /\ objW' = p /\ UNCHANGED txLock
                        /\ cache' = [cache EXCEPT ![p].gen = 0, ![p].wino = disk.ino + 1]
                        /\ Goto(p, "trunc") /\ out' = <<p, kind[p], "", Zero>> /\ UNCHANGED <<has, todo>>
                   ELSE /\ Return(p, "ERR", has[p]) /\ txLock' = (IF txLock = p THEN 0 ELSE txLock)
                        /\ UNCHANGED <<disk, objW, cache>>
                /\ UNCHANGED <<kind, blind, done, committed, destroyed, crashed>>

Mine(p) == disk.x /\ cache[p].wino = disk.ino        \* the file p has open is the one in the directory
MTrunc(p) == /\ ~crashed /\ pc[p] = "trunc"
             /\ disk' = (IF Atomic \/ ~Mine(p) THEN disk ELSE [disk EXCEPT !.e = TRUE])
             /\ Goto(p, "flush") /\ out' = <<p, kind[p], "", Zero>>
             /\ UNCHANGED <<objW, txLock, cache, kind, has, blind, todo, done, committed, destroyed, crashed>>
MFlush(p) == /\ ~crashed /\ pc[p] = "flush"
             /\ disk' = (IF Mine(p) THEN [disk EXCEPT !.gen = cache[p].gen + 1, !.attrs = cache[p].attrs, !.e = FALSE] ELSE disk)
             /\ cache' = [cache EXCEPT ![p].gen = @ + 1]
             /\ objW' = (IF objW = p THEN 0 ELSE objW) /\ Goto(p, "txunlock") /\ out' = <<p, kind[p], "", Zero>>
             /\ UNCHANGED <<txLock, kind, has, blind, todo, done, committed, destroyed, crashed>>
MTxUnlock(p) == /\ ~crashed /\ pc[p] = "txunlock" /\ txLock' = (IF txLock = p THEN 0 ELSE txLock)
                /\ Return(p, "OK", TRUE)
                /\ done' = [done EXCEPT ![p] = @ + 1] /\ committed' = [committed EXCEPT ![p] = done[p] + 1]
                /\ UNCHANGED <<disk, objW, cache, kind, blind, destroyed, crashed>>

\* unlink needs no lock; a writer that has the file open goes on writing to the unlinked inode
\* (two processes destroying at once: the second unlink fails, its call returns an error)
MRm(p) == /\ ~crashed /\ pc[p] = "rm"
          /\ IF disk.x THEN /\ disk' = [disk EXCEPT !.x = FALSE] /\ objW' = 0
                             /\ Goto(p, "rmlock") /\ out' = <<p, kind[p], "", Zero>> /\ UNCHANGED <<has, todo>>
                        ELSE Return(p, "ERR", TRUE) /\ UNCHANGED <<disk, objW>>
          /\ UNCHANGED <<txLock, cache, kind, blind, done, committed, destroyed, crashed>>
\* a lock file that is unlinked no longer excludes anybody who opens the name afresh
\* (if the lock file is already gone - only possible after a re-creation - the call reports an error)
MRmLock(p) == /\ ~crashed /\ pc[p] = "rmlock" /\ txLock' = 0
              /\ IF disk.lk THEN Return(p, "OK", FALSE) /\ destroyed' = TRUE
                             ELSE Return(p, "ERR", TRUE) /\ UNCHANGED destroyed
              /\ disk' = [disk EXCEPT !.lk = FALSE]
              /\ blind' = [blind EXCEPT ![p] = TRUE]
              /\ UNCHANGED <<objW, cache, kind, done, committed, crashed>>

MGet(p) == /\ ~crashed /\ pc[p] = "idle" /\ todo[p] > 0 /\ has[p] /\ "get" \in Kinds /\ (disk.x => objW = 0)
           /\ Goto(p, "idle") /\ todo' = [todo EXCEPT ![p] = @ - 1]
           /\ IF disk.x THEN /\ cache' = [cache EXCEPT ![p] = Refreshed(p)] /\ out' = <<p, "get", "OK", Refreshed(p).attrs>>
                             /\ UNCHANGED has
                        ELSE /\ has' = [has EXCEPT ![p] = FALSE] /\ out' = <<p, "get", "INV", Zero>> /\ UNCHANGED cache
           /\ UNCHANGED <<disk, objW, txLock, kind, blind, done, committed, destroyed, crashed>>
Sees(p) == disk.x /\ ~blind[p]
MFind(p) == /\ ~crashed /\ pc[p] = "idle" /\ todo[p] > 0 /\ "find" \in Kinds /\ (Sees(p) => objW = 0)
            /\ Goto(p, "idle") /\ todo' = [todo EXCEPT ![p] = @ - 1]
            /\ has' = [has EXCEPT ![p] = Sees(p)]
            /\ IF Sees(p) THEN LET c == IF has[p] THEN Refreshed(p) ELSE Loaded IN
                              cache' = [cache EXCEPT ![p] = c] /\ out' = <<p, "find", "found", c.attrs>>
                         ELSE out' = <<p, "find", "absent", Zero>> /\ UNCHANGED cache
            /\ UNCHANGED <<disk, objW, txLock, kind, blind, done, committed, destroyed, crashed>>

\* every process dies (fcntl locks vanish, buffered data is lost, the disk stays as it is)
Crash == /\ ~crashed /\ crashed' = TRUE /\ pc' = [p \in Procs |-> "dead"] /\ objW' = 0 /\ txLock' = 0 /\ out' = NoOut
         /\ UNCHANGED <<disk, cache, kind, has, blind, todo, done, committed, destroyed>>

Next == \/ \E p \in Procs, k \in {"set", "destroy"} : MBegin(p, k)
        \/ \E p \in Procs : MRefresh(p)
        \/ \E p \in Procs, r \in BOOLEAN : MTxLock(p, r)
        \/ \E p \in Procs, c \in BOOLEAN : MWLock(p, c)
        \/ \E p \in Procs : MTrunc(p)
        \/ \E p \in Procs : MFlush(p)
        \/ \E p \in Procs : MTxUnlock(p)
        \/ \E p \in Procs : MRm(p)
        \/ \E p \in Procs : MRmLock(p)
        \/ \E p \in Procs : MGet(p)
        \/ \E p \in Procs : MFind(p)
Spec      == Init /\ [][Next]_vars
CrashSpec == Init /\ [][Next \/ Crash]_vars

TypeOK == /\ objW \in Procs \cup {0} /\ txLock \in Procs \cup {0}
          /\ \A p \in Procs : pc[p] \in {"idle", "refresh", "txlock", "wlock", "trunc", "flush", "txunlock", "rm", "rmlock", "dead"}
Quiescent == \A p \in Procs : pc[p] = "idle"
\* C15: no interleaving loses a committed update ...
NoLostCommittedUpdate == Quiescent /\ ~destroyed /\ ~crashed => (disk.x /\ ~disk.e /\ \A a \in Procs : disk.attrs[a] = committed[a])
\* ... or brings back an object whose destruction was committed
DestroyedStaysDestroyed == destroyed => ~disk.x
\* the object file is only rewritten under both locks
WriterExcludes == \A p \in Procs : pc[p] \in {"trunc", "flush"} /\ Mine(p) => objW = p
\* C16: after a crash the file holds a complete state (old or new), never nothing
CrashOldOrNew == crashed /\ disk.x => ~disk.e
=============================================================================
