------------------------------- MODULE StoreMP -------------------------------
(***************************************************************************)
(* Several processes updating ONE token object file through the protocol   *)
(* of ObjectFile / Generation / File (C15; the crash window of C16), at    *)
(* file-operation grain.                                                   *)
(*                                                                         *)
(* A C_SetAttributeValue in process p is                                   *)
(*   refresh      reload the object if the generation on disk differs      *)
(*                (ObjectFile::isValid -> refresh, under a read lock)      *)
(*   txlock       take the transaction lock (<uuid>.lock, fcntl)           *)
(*   [refresh2]   reload again under the lock - NOT done by the code       *)
(*   mem          change the attribute in the cached copy                  *)
(*   wlock        write-lock the object file; sync the generation number   *)
(*   trunc        ftruncate(0)            (Atomic: nothing happens yet)    *)
(*   flush        write cache with generation + 1, unlock the object file  *)
(*   txunlock     release the transaction lock; the call returns CKR_OK    *)
(* Each process changes "its own" attribute, so two committed updates      *)
(* never conflict: nothing may be lost.                                    *)
(*                                                                         *)
(* Two switches give the variants:                                         *)
(*   RefreshUnderTxLock = FALSE, Atomic = FALSE   the code as built        *)
(*   RefreshUnderTxLock = TRUE                    repairs the lost update  *)
(*   Atomic = TRUE (write elsewhere, then rename) repairs the crash window *)
(* TLC: the as-built variant violates NoLostCommittedUpdate (a 17-step     *)
(* schedule, replayed on two real processes by the C15 check) and          *)
(* CrashOldOrNew; the repaired variant satisfies both.                     *)
(***************************************************************************)
EXTENDS Naturals, FiniteSets, Sequences, TLC
CONSTANTS Procs, Attrs, NCalls, RefreshUnderTxLock, Atomic

VARIABLES disk,       \* the object file: [gen, attrs, e]; e = TRUE: empty (truncated)
          objW,       \* process holding the write lock on the object file (0: none)
          txLock,     \* process holding the transaction lock (0: none)
          cache,      \* per process: its in-memory copy [gen, attrs, e]
          pc, todo, done,
          committed,  \* ghost: per attribute the last value whose call returned CKR_OK
          crashed
vars == <<disk, objW, txLock, cache, pc, todo, done, committed, crashed>>

Rec(g, a) == [gen |-> g, attrs |-> a, e |-> FALSE]
EmptyF    == [gen |-> 0, attrs |-> [a \in Attrs |-> 0], e |-> TRUE]
Mine(p)   == p                                  \* Procs \subseteq Attrs

Init == /\ disk = Rec(1, [a \in Attrs |-> 0])
        /\ objW = 0 /\ txLock = 0
        /\ cache = [p \in Procs |-> Rec(1, [a \in Attrs |-> 0])]
        /\ pc = [p \in Procs |-> "idle"]
        /\ todo = [p \in Procs |-> NCalls]
        /\ done = [p \in Procs |-> 0]
        /\ committed = [a \in Attrs |-> 0]
        /\ crashed = FALSE

Goto(p, l) == pc' = [pc EXCEPT ![p] = l]

Begin(p) == pc[p] = "idle" /\ todo[p] > 0 /\ Goto(p, "refresh")
            /\ UNCHANGED <<disk, objW, txLock, cache, todo, done, committed, crashed>>
\* reload under a read lock (waits while another process holds the write lock); an empty file is skipped
Refresh(p, next) ==
    /\ objW = 0
    /\ cache' = IF disk.e THEN cache ELSE IF disk.gen # cache[p].gen THEN [cache EXCEPT ![p] = disk] ELSE cache
    /\ Goto(p, next)
    /\ UNCHANGED <<disk, objW, txLock, todo, done, committed, crashed>>
DoRefresh(p)  == pc[p] = "refresh" /\ Refresh(p, "txlock")
TxLock(p)     == pc[p] = "txlock" /\ txLock = 0 /\ txLock' = p
                 /\ Goto(p, IF RefreshUnderTxLock THEN "refresh2" ELSE "mem")
                 /\ UNCHANGED <<disk, objW, cache, todo, done, committed, crashed>>
DoRefresh2(p) == pc[p] = "refresh2" /\ Refresh(p, "mem")
Mem(p)        == pc[p] = "mem" /\ cache' = [cache EXCEPT ![p].attrs[Mine(p)] = done[p] + 1]
                 /\ Goto(p, "wlock") /\ UNCHANGED <<disk, objW, txLock, todo, done, committed, crashed>>
WLock(p)      == pc[p] = "wlock" /\ objW = 0 /\ objW' = p
                 /\ cache' = [cache EXCEPT ![p].gen = IF disk.e THEN 0 ELSE disk.gen]       \* Generation::sync
                 /\ Goto(p, "trunc") /\ UNCHANGED <<disk, txLock, todo, done, committed, crashed>>
Trunc(p)      == pc[p] = "trunc" /\ disk' = (IF Atomic THEN disk ELSE EmptyF) /\ Goto(p, "flush")
                 /\ UNCHANGED <<objW, txLock, cache, todo, done, committed, crashed>>
Flush(p)      == pc[p] = "flush" /\ disk' = Rec(cache[p].gen + 1, cache[p].attrs)
                 /\ cache' = [cache EXCEPT ![p].gen = cache[p].gen + 1]
                 /\ objW' = 0 /\ Goto(p, "txunlock")
                 /\ UNCHANGED <<txLock, todo, done, committed, crashed>>
TxUnlock(p)   == pc[p] = "txunlock" /\ txLock' = 0 /\ Goto(p, "idle")
                 /\ todo' = [todo EXCEPT ![p] = @ - 1] /\ done' = [done EXCEPT ![p] = @ + 1]
                 /\ committed' = [committed EXCEPT ![Mine(p)] = done[p] + 1]
                 /\ UNCHANGED <<disk, objW, cache, crashed>>
Step(p) == Begin(p) \/ DoRefresh(p) \/ TxLock(p) \/ DoRefresh2(p) \/ Mem(p) \/ WLock(p) \/ Trunc(p) \/ Flush(p) \/ TxUnlock(p)
\* every process dies (fcntl locks vanish, buffered data is lost, the disk stays as it is)
Crash == ~crashed /\ crashed' = TRUE /\ pc' = [p \in Procs |-> "dead"] /\ objW' = 0 /\ txLock' = 0
         /\ UNCHANGED <<disk, cache, todo, done, committed>>
Next == (~crashed /\ \E p \in Procs : Step(p)) \/ Crash
Spec == Init /\ [][Next]_vars

Quiescent == \A p \in Procs : pc[p] = "idle"
\* C15: no interleaving loses a committed update
NoLostCommittedUpdate == Quiescent => (~disk.e /\ \A a \in Procs : disk.attrs[a] = committed[a])
\* C16: after a crash the file holds a complete state (old or new), never nothing
CrashOldOrNew == crashed => ~disk.e
=============================================================================
