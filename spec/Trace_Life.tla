------------------------------ MODULE Trace_Life ------------------------------
(* Trace specification for P11Life (driver vf/drv_life.py). *)
EXTENDS P11Life, Json, IOUtils, Sequences
VARIABLE l
T == ndJsonDeserialize(IOEnv.TRACE)
E == T[l]
tvars == <<vars, l>>
IsEv(name) == l <= Len(T) /\ E.e = name /\ l' = l + 1
RvOK == rv' = "ANY" \/ rv' = E.rv
TReset == IsEv("Reset") /\ up' = FALSE /\ sess' = FALSE /\ rv' = "OK"
TInitialize == IsEv("MInitialize") /\ MInitialize(E.how) /\ RvOK
TFinalize   == IsEv("MFinalize") /\ MFinalize(E.arg) /\ RvOK
TOpen       == IsEv("MOpen") /\ MOpen /\ RvOK
TCall       == IsEv("MCall") /\ MCall(E.fn, E.h) /\ RvOK
TGFL        == IsEv("MGetFunctionList") /\ MGetFunctionList /\ RvOK
\* n: the count reported (NSlots in every answered case); order: initialised tokens first, the uninitialised one last, no
\* slot twice; w: bytes written into the caller's buffer (none behind the announced size)
TSlotList   == IsEv("MSlotList") /\ MSlotList(E.present, E.buf) /\ RvOK
               /\ (rv' \in {"OK", "BUFFER_TOO_SMALL"} => E.n = E.nslots)
               /\ (rv' = "OK" /\ E.buf # "null" => E.order /\ E.w = E.nslots)
               /\ (rv' # "OK" \/ E.buf = "null" => E.w = 0)
\* exactly n bytes are written by C_GenerateRandom (and they are not the buffer's filler); C_SeedRandom writes nothing
TRandom     == IsEv("MRandom") /\ MRandom(E.fn, E.h, E.n) /\ RvOK
               /\ (rv' = "OK" /\ E.fn = "C_GenerateRandom" => E.w = E.n /\ E.fresh) /\ (rv' # "OK" => E.w = 0)
TInit == Init /\ l = 1 /\ TLCSet(1, 1)
TNext == TReset \/ TInitialize \/ TFinalize \/ TOpen \/ TCall \/ TGFL \/ TSlotList \/ TRandom
TSpec == TInit /\ [][TNext]_tvars
TrackMax == IF l > TLCGet(1) THEN TLCSet(1, l) ELSE TRUE
TraceAccepted == PrintT(<<"MAXL", TLCGet(1)>>)
=============================================================================
