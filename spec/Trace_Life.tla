------------------------------ MODULE Trace_Life ------------------------------
(* Trace specification for P11Life (driver vf/drv_life.py). *)
EXTENDS P11Life, Json, IOUtils, Sequences
VARIABLE l
T == ndJsonDeserialize(IOEnv.TRACE)
E == T[l]
tvars == <<vars, l>>
IsEv(name) == l <= Len(T) /\ E.e = name /\ l' = l + 1
RvOK == rv' = "ANY" \/ rv' = E.rv
TReset == IsEv("Reset") /\ up' = FALSE /\ sess' = FALSE /\ rv' = "OK"
TInitialize == IsEv("MInitialize") /\ MInitialize(E.how) /\ RvOK
TFinalize   == IsEv("MFinalize") /\ MFinalize(E.arg) /\ RvOK
TOpen       == IsEv("MOpen") /\ MOpen /\ RvOK
TCall       == IsEv("MCall") /\ MCall(E.fn, E.h) /\ RvOK
TGFL        == IsEv("MGetFunctionList") /\ MGetFunctionList /\ RvOK
TInit == Init /\ l = 1 /\ TLCSet(1, 1)
TNext == TReset \/ TInitialize \/ TFinalize \/ TOpen \/ TCall \/ TGFL
TSpec == TInit /\ [][TNext]_tvars
TrackMax == IF l > TLCGet(1) THEN TLCSet(1, l) ELSE TRUE
TraceAccepted == PrintT(<<"MAXL", TLCGet(1)>>)
=============================================================================
