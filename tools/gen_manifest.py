#!/usr/bin/env python3
"""Regenerates MANIFEST.json from the table below (single source of truth for the interface)."""
import json
import os

ROOT = os.path.dirname(os.path.dirname(os.path.abspath(__file__)))
TECH = "TLA+ model checking (TLC) + edge-covering replay + TLC trace validation"
CHECKS = {
    "C01": dict(level="model_checking", ref="DESIGN.md 5 C01", tech=TECH,
                text="P11Core.tla is model checked exhaustively for the access invariants (a handle to a private object "
                     "exists only while the user is logged in; a refused call yields no output; private objects are "
                     "created only in user sessions; token objects change only with a read-write session). Every "
                     "transition of the bounded graphs - all login interleavings x object kinds x 20 entry points, with "
                     "handles kept across logout/close - is executed on the library per key class and the recorded "
                     "executions are validated by TLC against the specification. Key-making calls whose template is refused only while the object is built (after the access checks) are executed next to bystander objects, and every object-making call of every driver finds a LIVE handle in its output variable on entry.",
                note="Trusted: TLC, the ctypes driver, bounds (1 token: 4 handles/2 objects; 2 tokens: 4 handles/1-2 "
                     "objects; simulation to 9 handles). One representative mechanism per entry point and key class; "
                     "cross-token use of handles is not generated."),
    "C03": dict(level="model_checking", ref="DESIGN.md 5 C03", tech=TECH,
                text="P11Core.tla is model checked exhaustively (2 tokens, bounded handles, all PIN symbols, stale and "
                     "foreign handles) for the session/login invariants and action properties; every transition of the "
                     "bounded graphs is then executed on the real library and every recorded execution "
                     "(C_GetSessionInfo of every session after every call) is validated by TLC against the same "
                     "specification. The failing-call clause is also exercised with the token's files removed behind the library's back (Vanish): a C_Login that fails because the PIN cannot be verified any more leaves all sessions public.",
                note="Trusted: TLC, the ctypes driver's transcription of calls, the bounded constants (handles <= 4 "
                     "exhaustively, 8 by simulation). Token flags are not observed."),
    "C11": dict(level="model_checking", ref="DESIGN.md 5 C11", tech=TECH,
                text="P11Core.tla is model checked for NeverReissued, StableDenotation, the exact purge sets of "
                     "close/close-all/logout/destroy and one-handle-per-object; every transition of the bounded graphs "
                     "is executed on the library and after every call every handle ever issued is probed; TLC validates "
                     "validity, denotation and freshness of all handles in every recorded state. Kind-changing copies (token/session, public to private) are covered by TRANSITION PAIRS (line graph of the state graph), because the abstract state does not remember whether an object was copied or created.",
                note="Trusted: TLC, the driver, bounds (2 tokens, <= 4-5 handles, <= 2-3 objects exhaustively; 10 "
                     "handles by simulation). Identity is read through driver-written tag attributes."),
    "C19": dict(level="model_checking", ref="DESIGN.md 5 C19", tech=TECH,
                text="P11Core.tla defines the result of a search as exactly the visible matching objects; TLC enumerates "
                     "populations x login states x templates x batch sizes within bounds; every transition is executed "
                     "on the library and TLC checks soundness, completeness and exactly-once on the returned handles "
                     "(mapped back to objects through their identity attribute).",
                note="Trusted: TLC, the driver, bounds (<= 2-3 objects, 8 template shapes incl. empty value, absent "
                     "attribute, wrong size; batches 0,1,2). A search is a snapshot taken at C_FindObjectsInit."),
}
CHECKS["C14"] = dict(level="model_checking", ref="DESIGN.md 5 C14", tech=TECH,
    text="P11Tok.tla (token life cycle: free-slot initialisation, re-initialisation, softhsm2-util init/delete, PINs, "
         "token objects, restart) is model checked for its invariants and action properties; every transition of the "
         "bounded graphs is executed on the library and the softhsm2-util binary, and after every action the state of "
         "EVERY token - seen through the acting library and by a new process - is validated by TLC (isolation, "
         "restart, slot-from-serial, labels, flags, PINs, objects).",
    note="Trusted: TLC, the driver, bounds (2-3 tokens, <= 2 sessions, <= 2-3 objects). softhsm2-util acts only while "
         "the library is finalised. File backend in the quick tier, both backends in the thorough tier.")
CHECKS["C04"] = dict(level="model_checking", ref="DESIGN.md 5 C04", tech=TECH,
    text="P11Tok.tla tracks which PIN symbol is current for each user; TLC enumerates the histories of "
         "C_InitToken/C_InitPIN/C_SetPIN/C_Login/restart within bounds; every transition is executed and after every "
         "call a new process tries EVERY PIN symbol (prefix, extension, one-bit neighbour, embedded NUL, non-ASCII, "
         "too short/long, empty, the other user's PIN) as SO and as user and reads the private sentinel object; TLC "
         "demands that exactly the current PINs authenticate and nothing else changed. Under threads: two sessions change the user PIN at once (ConcTok, a linearizability specification with silent effect steps; all two-preemption schedules through the mutex callbacks): of two C_SetPIN calls naming the same old PIN only one may succeed.",
    note="Trusted: TLC, the driver. 'All byte strings' is sampled through named relations with bytes drawn per seed "
         "(3 concretisations quick, 50 thorough). Blob check accepts a wrong PIN with probability ~2^-24 by design.")
CHECKS["C08"] = dict(level="model_checking", ref="DESIGN.md 5 C08", tech=TECH,
    text="P11Policy.tla transcribes the attribute rule engine and the fix-up transactions, with ghost fields holding "
         "what PKCS#11 says the history attributes must be (HistoryTruth), and the action properties OneWay, Frozen, "
         "NotDestroyable, TrustedOnlyBySO, FailedNoEffect; TLC checks them over every history of <= 3 objects; every "
         "transition of the bounded graphs becomes one implementation test per key class, after which ALL policy and "
         "history attributes of all live objects are read back and validated by TLC. Templates that name one attribute twice (first refused / last refused, CKA_PRIVATE true then false) are part of the Set and Copy template sets.",
    note="Trusted: TLC, the driver. Template sets are those of MC_Policy.tla (single attributes and mixed templates up "
         "to 3 entries, every order for the listed pairs); key classes AES, generic, DES3, EC private, RSA private.")
CHECKS["C02"] = dict(level="model_checking", ref="DESIGN.md 5 C02", tech=TECH,
    text="P11Policy.tla defines when a key is protected (S or not E) and which wraps are allowed; TLC enumerates the flag "
         "histories over a key, its copies and derived keys; for every transition the implementation is asked for "
         "every secret attribute alone and mixed, with NULL/small/exact/large buffers, and to wrap under trusted and "
         "untrusted keys; TLC validates return code, unavailable length, untouched canary buffers, refusal of wraps "
         "and a leak scan of all returned bytes against the protected values. Under threads (ConcTok): CKA_VALUE of a shared sensitive session key is read at every scheduling point of another thread's refused - rolled back - C_SetAttributeValue.",
    note="Trusted: TLC, the driver, the leak scan (8-byte windows of values the driver knows: created, unwrapped, or "
         "read while legitimately readable). Side channels and C_DigestKey are not covered.")
CHECKS["C07"] = dict(level="model_checking", ref="DESIGN.md 5 C07", tech=TECH,
    text="P11Mech.tla states when an operation may start (usage attribute, Fits(op, mechanism, key kind) written from "
         "the PKCS#11 mechanism definitions, CKA_ALLOWED_MECHANISMS, slots.mechanisms) and the always-authenticate "
         "machine; TLC enumerates the finite table as the edges of MC_Mech; EVERY cell is executed on the library "
         "(re-initialised per configuration) and TLC validates 'started OK => permitted' and 'output only after a "
         "successful start / context login' on the recorded executions. slots.mechanisms lists carry names unknown to the build at the front, in the middle and at the end (they are ignored).",
    note="Trusted: TLC, the driver's key material and mechanism parameters. Quick: 21 mechanisms x 3 configuration "
         "kinds (about 160k cells); thorough: all 73 advertised mechanisms x 5 kinds x 16 usage patterns. A permitted "
         "start may fail for other reasons (only-if); successes are counted in the evidence.")
CHECKS["C12"] = dict(level="model_checking", ref="DESIGN.md 5 C12", tech=TECH,
    text="P11Ops.tla keeps, per session, the active operation and exact bookkeeping of bytes fed and returned; its "
         "Call action accepts an outcome (return value, reported length, bytes written) only if it obeys the protocol: "
         "OPERATION_ACTIVE / OPERATION_NOT_INITIALIZED, query and BUFFER_TOO_SMALL change nothing and report a bounded "
         "length (input + buffered + block + tag; exactly the fixed size otherwise), a buffer of the reported length is "
         "accepted, no overrun, failure ends the operation, and calls that cannot legitimately fail (MustWork) succeed. "
         "TLC enumerates all call interleavings to the depth bound and simulates beyond; every library call of every "
         "replayed sequence is validated against the specification. 'Unchanged' is checked to the byte: the output of every finishing call must be the mechanism's function of exactly the input of the accepted calls (reference digest / HMAC / CMAC / RSA signature, or the library's inverse operation), so a length query or a refused buffer that consumed input is caught.",
    note="Trusted: TLC, the driver's canary comparison (a written 0xA5 at the very end of the data cannot be told from an "
         "untouched byte), the ModeTable (block/tag/fixed sizes for a 1024-bit RSA key, P-256, Ed25519). Depth 3-4 "
         "exhaustive, 10-14 by simulation; 20 modes.")
TECH2 = TECH + " + independent decoder of the token directory"
CHECKS["C09"] = dict(level="model_checking", ref="DESIGN.md 5 C09", tech=TECH2,
    text="Store.tla states that a refused call changes neither the objects in memory nor the token directory "
         "(FailedNoEffect), wherever the refused entry stands; TLC enumerates every failing position of every bad "
         "entry kind in the templates of all creating and modifying calls over the reachable populations; every "
         "transition is executed and TLC compares the full object set with all attribute values (API) and the decoded "
         "directory (no junk files) with the specification after every call. " 
         "Fault clause: the same exploration with the other judgement: a call that returned an error must leave the token directory as it was (violated on the pinned tree: known finding K09-fault-not-atomic). Templates with a repeated attribute in front of a refused entry are included; object-making calls find a live handle in their output variable.",
    note="Trusted: TLC, the driver, vf/tokdec.py. Both backends in the thorough tier. Fault clause: every file operation of "
         "the listed writing calls fails once (LD_PRELOAD shim, Trace_Crash TFault); a call that returned an error must "
         "leave the token directory as it was - violated on the pinned tree: known finding K09-fault-not-atomic.")
CHECKS["C05"] = dict(level="model_checking", ref="DESIGN.md 5 C05", tech=TECH2,
    text="Store.tla relates memory and disk (Durable, NeverReappear, RestartRestores); TLC enumerates histories of "
         "create/copy/set/destroy/restart; every transition is executed on the file and the SQLite backend and after "
         "every call the acting library, a NEW PROCESS and the independent decoder must show the specification's "
         "state; session-object lifetime is replayed on P11Core; golden fixtures written by the pinned version are "
         "opened by the current library and TLC (Trace_Fixture) demands the recorded state. " 
         "Fault clause: every file operation of the listed writing calls is made to fail once (LD_PRELOAD shim; a failed flush loses the buffered data), the call goes on and a fresh process must see the new state whenever the call returned CKR_OK (Trace_Crash TFault). Value lengths next to every power of two up to 1 MiB (create, privacy-raising copy, restart) are swept.",
    note="Trusted: TLC, the driver, vf/tokdec.py, the fixtures (written once by the pinned build incl. a 300 kB value). "
         "Power loss is out of scope (no fsync in the code); durable = visible to a new process. Quick tier samples the "
         "walks of the bounded graph (exhaustive = false), thorough covers it. Fault clause: every file operation of the listed writing calls fails once (a failed flush loses the data); a "
         "call that returned CKR_OK must have persisted its effect (fix 044cdb8 recorded).")
CHECKS["C06"] = dict(level="model_checking", ref="DESIGN.md 5 C06", tech=TECH2,
    text="Store.tla fixes the storage form of every slot (PrivateBytesEncrypted); every storing path is executed and "
         "the independent decoder (own parser, PBE via hashlib, AES via libcrypto EVP) reads the directory with the "
         "user PIN after every call: forms and decrypted values must be the specification's; plus IV reuse, master "
         "key and private values in clear, and mode bits outside objectstore.umask (several umasks, both backends). Under threads (ConcTok): a key is unwrapped into a private token object while another thread logs the user out; after each execution the token directory is scanned for the key value in clear.",
    note="Trusted: TLC, vf/tokdec.py, libcrypto. Key classes: generic secret and X.509 certificate. An empty byte "
         "string may be stored in either form; a private copy re-uses the ciphertext of unchanged values.")
CHECKS["C16"] = dict(level="fault_enumeration", ref="DESIGN.md 5 C16",
    tech="TLA+ specification of the file-operation protocol (StoreFS, StoreMP) + LD_PRELOAD crash injection at every "
         "file-system operation + TLC trace validation of operation logs and recovery outcomes",
    text="Every crash point of every writing call is enumerated on the real library: the LD_PRELOAD shim records the "
         "call's file-system operations (validated by TLC against the StoreFS protocol: data only under the write "
         "lock, truncate then flush before unlock, nothing else in between) and kills the process before each "
         "operation k; a fresh time-limited process recovers; TLC computes from the operation log what each file "
         "holds at k and demands the required outcome (usable, untouched objects and PINs intact, written object old "
         "or new) or exactly a deviation that is listed as a known finding. StoreMP.tla shows at design level that "
         "the as-built truncate-then-write protocol violates CrashOldOrNew and an atomic variant satisfies it. Reading calls (search, attribute reads of every object incl. HMAC- and DES3-typed keys, C_GetObjectSize, signing, encryption, token info; read-write and read-only session) are recorded too: TLC demands that their operation log contains no write at all (ReadOnlyOK). Torn writes: the finished file of a newly created object (a plain one and one with every value kind of the file format) is cut at every byte offset and recovered from by a fresh process; a cut inside an attribute record must leave the object absent and everything else intact.",
    note="Trusted: TLC, harness/fsshim.c (crash = _exit before the operation: process death, buffered data lost), the "
         "recovery probe. File backend; objects below the stdio buffer size. Four known findings (in-place rewrite "
         "windows and multi-step creation) are reported as KNOWN-FINDING; anything else is a VIOLATION.")
CHECKS["C15"] = dict(level="model_checking", ref="DESIGN.md 5 C15",
    tech="TLA+ specifications at two grains (P11MP: calls of 2-3 processes; StoreMP: groups of file operations) + TLC "
         "exhaustive state graphs + replay of every transition on REAL processes (LD_PRELOAD gate for file-operation "
         "schedules) + TLC trace validation",
    text="Call grain: TLC enumerates P11MP (every interleaving of create/set/get/destroy/find by 2-3 processes on token, "
         "session and private objects; the per-process directory snapshot and stale sets of the code are state, so each "
         "way a cache can be stale is a distinct transition); every transition is replayed on real processes sharing one "
         "token directory and TLC validates every result (found exactly the visible objects with their committed values, "
         "each once; handle of a destroyed object invalid; a fresh process sees the committed state). File-operation "
         "grain: StoreMP (refresh / transaction lock / write lock / truncate / flush / unlock, unlink) is model checked "
         "in its required form (NoLostCommittedUpdate, DestroyedStaysDestroyed, with crashes); every transition of the "
         "model with all choices open is a schedule that the shim's gate mode imposes on 2-3 real processes, and TLC "
         "validates what each step returned and each value read. The call-grain behaviours are replayed a second time with the other process searching while every C_CreateObject is in progress (results discarded): the following calls must still be exact.",
    note="Trusted: TLC, harness/fsshim.c (gate), vf/mpworker.py. File backend, local file system. Two known findings "
         "(stale commit after a concurrent commit; re-creation of a concurrently destroyed object) are accepted only as "
         "the named deviation in exactly those schedules and printed as KNOWN-FINDING after a required-protocol "
         "validation of an example rejects it.")
CHECKS["C18"] = dict(level="model_checking", ref="DESIGN.md 5 C18",
    tech="TLA+ specifications Conc (threads as recorded lock programs; scheduler with bounded preemption) and ConcLin "
         "(interval linearizability of what threads observe) + TLC (deadlock freedom of all interleavings; enumeration "
         "of schedules) + replay of the schedules on real threads through the CK_C_INITIALIZE_ARGS mutex callbacks + "
         "TLC trace validation; free-running stress validated the same way",
    text="C_Initialize gets the four mutex callbacks and the callbacks are the scheduler: one thread runs at a time, a "
         "switch can happen before every LockMutex (in 'full' mode also after every UnlockMutex) and at call boundaries. "
         "A calibration run records every thread's lock program; TLC checks on Conc.tla that no interleaving of these "
         "programs deadlocks and enumerates every schedule with at most k preemptions (exhaustively for k = 1, sampled "
         "uniformly from the graph beyond the cap); the driver imposes them on real threads (each with its own session; "
         "token and session objects, searches, attribute changes, destruction, session churn, cryptography). TLC "
         "validates begin/end of every call against ConcLin: a search returns everything live during the whole call and "
         "nothing never-live, nothing twice, no handle issued twice, own-object results exact, every call returns, final "
         "token content exact. 8- and 16-thread free-running runs with OS locking are validated the same way. The state threads SHARE (login state, last-session logout, user PIN, private objects under construction) is specified in ConcTok.tla as a linearizability checker with silent effect steps; for its programs the calls take interleaving-dependent paths, so besides the TLC schedules every two-preemption schedule counted in points of the execution itself is run.",
    note="Trusted: TLC, vf/drv_conc.py (scheduler in the callbacks). File backend as the property states. Code that shares "
         "state without a mutex is reached only by the free-running part. Six known findings (object visible before its "
         "creation completed; torn read of a token object under concurrent searches; C_Logout not atomic with respect to "
         "the creation of private objects; a second transaction on an object refused as busy; dirty reads of an open "
         "transaction; a roll-back overlapping a commit tears the object file) are accepted only in the scoped "
         "situations ConcLin names and printed as KNOWN-FINDING after the model without the deviation rejects an example.")
VALTECH = ("TLA+ specification of values as terms (P11Val) + TLC exhaustive state graphs + replay of every transition on "
           "the library + independent reference implementation written out from the standards (vf/refcrypto.py) + TLC trace "
           "validation (reference equality, term laws, one byte string per term)")
CHECKS["C13"] = dict(level="model_checking", ref="DESIGN.md 0.1, 5 C13", tech=VALTECH,
    text="TLC enumerates sequences of import / generate / wrap (AES_KEY_WRAP, AES_KEY_WRAP_PAD, AES_CBC, AES_CBC_PAD, RSA_PKCS, "
         "RSA_PKCS_OAEP x wrapping key x wrapped key kind and length, incl. the RSA private key as PKCS#8, x IV) / damage (bit "
         "flip, truncation) / unwrap (right and wrong key, mechanism and object class) / derive (ECB and CBC encrypt-data, "
         "concatenation, DH and ECDH with peers whose shared secret starts with zero octets, x requested type and length) / "
         "read-back. Every event carries the bytes the library produced and the bytes the reference computes from the same "
         "inputs; TLC demands: blob = the standard's bytes (RSA blobs open under the reference), Unwrap(Wrap(k)) = k "
         "(zero-padded for AES_KEY_WRAP), unwrapped keys not local / never-extractable / always-sensitive with the template "
         "honoured, damaged or foreign blobs rejected WITHOUT creating an object, derived value = the definition cut to length "
         "(DES parity), non-empty CKA_CHECK_VALUE = the standard value. CKA_WRAP_TEMPLATE / CKA_UNWRAP_TEMPLATE of the wrapping key (AES and the RSA pair; entries on CKA_ENCRYPT and CKA_KEY_TYPE; absent, empty, matching, contradicting, silent caller template) are state of P11Val with the invariants WrapTemplateHonoured / UnwrapTemplateHonoured; every RSA component of an unwrapped private key is compared; library-made keys are private and public in turn; MValueR re-reads value and history attributes after C_Finalize / C_Initialize.",
    note="Trusted: TLC, vf/refcrypto.py (self-tested against RFC 3394/5649/4493 vectors), libcrypto's single-block AES/DES. "
         "Not modelled: byte-string entries in wrap templates, DES3 wrapping keys, EC/DSA/DH private keys as wrapped "
         "objects. Three fixes recorded (d2c8cef, 7cc798b, bacb4ad).")
CHECKS["C10"] = dict(level="model_checking", ref="DESIGN.md 0.1, 5 C10", tech=VALTECH,
    text="Every deterministic mode (AES ECB/CBC/CBC-PAD/CTR/GCM/CMAC, 3DES ECB/CBC-PAD/CMAC, HMAC-SHA1/256/512, RSA PKCS#1 "
         "v1.5 with and without SHA-256, raw RSA, Ed25519) x key size x message length (0, whole blocks, a length across block boundaries) x way "
         "of feeding the message (single-part, one part, uneven parts, too-small buffer first and retry) is a transition whose "
         "result TERM does not contain the way of feeding: TLC demands one byte string per term, equal to the reference; the "
         "inverse operation restores / verifies it; every altered variant (data, MAC, signature, GCM tag, IV, AAD, "
         "truncation) is rejected. Randomised schemes (PSS, OAEP, PKCS#1 v1.5 encryption, ECDSA P-256, DSA-SHA256): the reference accepts the "
         "library's output and the library the reference's. Digests; derived secrets (encrypt-data, concatenation, DH, ECDH).",
    note="Trusted as C13. NOT covered yet: ECDSA beyond P-256, Ed448, X25519/X448, RSA > 1024 bits, GCM IV / tag lengths "
         "other than (12,128) and (16,96), CTR counter widths other than 128 and 64 (DESIGN.md 0.1 'Not covered').")
CHECKS["C20"] = dict(level="model_checking", ref="DESIGN.md 0.1, 5 C20",
    tech=VALTECH + "; the same behaviours under file/OpenSSL, db/OpenSSL, file/Botan, db/Botan in ONE trace validation; "
         "P11Tok behaviours under both storage backends",
    text="The behaviours of P11Val (keys as TOKEN objects, so every value goes through the storage backend) are replayed "
         "under the four configurations, restricted to mechanisms both crypto backends advertise and can perform; each "
         "execution must satisfy P11Val, and the bytes bound to every deterministic term (key values, check values, wrapped "
         "blobs, ciphertexts, MACs, digests, deterministic signatures, derived secrets) must be identical in all four; "
         "randomised outputs of every configuration are accepted by the independent reference and vice versa. Every "
         "execution probes that the ECB family it advertises works. The token life cycle (P11Tok: initialisation, "
         "re-initialisation, PINs and PIN status flags, objects, restart, fresh-process view) is replayed under file and db. MValueR: after C_Finalize / C_Initialize every key is found again and value, CKA_LOCAL, CKA_KEY_GEN_MECHANISM (CK_UNAVAILABLE_INFORMATION, i.e. 2^64-1, for keys not generated), class and type must still be true under all four configurations.",
    note="Trusted as C13. Two known findings of the Botan build (ECB advertised but unusable with Botan 2.19; empty CBC "
         "decryption) are printed as KNOWN-FINDING; fix be36086 recorded. The other sequential checks (C01-C12, C19) run on "
         "file/OpenSSL; their thorough tiers add the db backend where the driver supports it.")
NA = {
    "C17": "memory safety and arbitrary byte-level inputs are outside what a TLA+ specification and trace validation can "
           "observe (DESIGN.md 5 C17); crashes met while replaying are reported under the property whose check ran",
}
PENDING = "check not built yet in this round (work in progress, see DESIGN.md 9)"


def main():
    props = [json.loads(l)["id"] for l in open(os.path.join(ROOT, "properties.jsonl"))]
    hooks = json.load(open(os.path.join(ROOT, "tools", "hooks.json"))) if os.path.exists(os.path.join(ROOT, "tools", "hooks.json")) else []
    m = {
        "version": 1,
        "setup_cmd": "bin/setup.sh",
        "hooks": {"guard": "SOFTHSMV2_VERIF",
                  "enable": "vf/build.py configures an out-of-tree CMake build of /repo's working tree with "
                            "-DCMAKE_CXX_FLAGS=-DSOFTHSMV2_VERIF (cache under ${VERIF_CACHE:-/var/tmp/verif-cache}, "
                            "keyed by a hash of the sources)",
                  "baseline_off_cmd": "bin/baseline_off.sh", "source_commits": hooks, "add_only": True},
        "engines": [{"name": "tlc", "path": "/opt/veriftools/tla/tla2tools.jar", "serves_properties": sorted(CHECKS),
                     "kind_free_text": "TLA+ specification (spec/*.tla) checked exhaustively by TLC; TLC-generated "
                                       "behaviours replayed on the library built from /repo; recorded traces "
                                       "validated by TLC against Trace_*.tla"}],
        "checks": [],
        "not_applicable": [],
        "notes": "bin/check exits 2 and prints BROKEN when the machinery itself fails (TLC error, build failure, "
                 "time-out); that is never a verdict about the code.",
    }
    for pid in props:
        if pid in CHECKS:
            c = CHECKS[pid]
            m["checks"].append({
                "property_id": pid,
                "quick_cmd": "bin/check %s --tier quick" % pid,
                "thorough_cmd": "bin/check %s --tier thorough" % pid,
                "evidence_file": "evidence/%s.json" % pid,
                "replay_cmd_template": "bin/check --replay {path}",
                "engine": "tlc",
                "level_claimed": {"category": c["level"], "text": c["text"], "design_ref": c["ref"]},
                "level_note": c["note"],
                "technique": c["tech"],
            })
        else:
            m["not_applicable"].append({"property_id": pid, "reason": NA.get(pid, PENDING)})
    with open(os.path.join(ROOT, "MANIFEST.json"), "w") as f:
        json.dump(m, f, indent=1)


if __name__ == "__main__":
    main()
