#!/bin/sh
# Builds /repo's working tree WITHOUT the verification guard in a scratch directory and runs the
# repository's own test suite (the 195 tests of the baseline).  The scratch build is removed afterwards.
set -e
B=$(mktemp -d /var/tmp/verif-baseline-XXXXXX)
trap 'rm -rf "$B"' EXIT
cmake -G Ninja -S /repo -B "$B" -DBUILD_TESTS=ON -DCMAKE_BUILD_TYPE=RelWithDebInfo -DCMAKE_CXX_FLAGS=-Wno-error \
      -DENABLE_ECC=ON -DENABLE_EDDSA=ON -DWITH_CRYPTO_BACKEND=openssl >/dev/null
cmake --build "$B" -j16 >/dev/null
ctest --test-dir "$B" -j8 --timeout 900 --output-junit "$B/junit.xml"
