#!/bin/sh
# Builds /repo's working tree WITHOUT the verification guard in a scratch directory and runs the repository's own
# test suite.  In this sandbox 7 single-DES cases fail on the pinned tree as well (OpenSSL 3 without the legacy
# provider); they are not part of the 195-case baseline.  The script exits 0 iff no case of BASELINE.json's
# stable_pass list fails.  The scratch build is removed afterwards.
B=$(mktemp -d /var/tmp/verif-baseline-XXXXXX)
trap 'rm -rf "$B"' EXIT
cmake -G Ninja -S /repo -B "$B" -DBUILD_TESTS=ON -DCMAKE_BUILD_TYPE=RelWithDebInfo -DCMAKE_CXX_FLAGS=-Wno-error \
      -DENABLE_ECC=ON -DENABLE_EDDSA=ON -DWITH_CRYPTO_BACKEND=openssl >/dev/null || exit 2
cmake --build "$B" -j16 >/dev/null || exit 2
ctest --test-dir "$B" -j8 --timeout 900 --output-on-failure > "$B/ctest.log" 2>&1
python3 - "$B/ctest.log" <<'PY'
import json, re, sys
log = open(sys.argv[1], errors="replace").read()
fails = set(m.group(1) for m in re.finditer(r"^\s*\d+\) test: (\S+) \((?:F|E)\)", log, re.M))
stable = set()
for n in json.load(open("/root/.vp/BASELINE.json"))["stable_pass"]:
    stable.add("::".join(n.split("::")[1:]).split(" with parameter")[0])
bad = sorted(f for f in fails if f in stable)
runs = [int(x) for x in re.findall(r"Run:\s+(\d+)", log)] + [int(x) for x in re.findall(r"^OK \((\d+)", log, re.M)]
print("cppunit cases failing: %d (%s)" % (len(fails), ", ".join(sorted(fails))))
print("cases run: %d; baseline (stable_pass) cases failing: %d %s" % (sum(runs), len(bad), bad))
m = re.search(r"\d+% tests passed.*", log)
print(m.group(0) if m else "no ctest summary")
sys.exit(1 if bad or not runs else 0)
PY
