#!/bin/sh
# Builds the framework from files on disk only (offline).  The drivers are python (stdlib + ctypes); the
# native helpers (LD_PRELOAD file-system shim, thread scheduler) are compiled here.
set -e
cd "$(dirname "$0")/.."
mkdir -p build evidence
if [ -f harness/fsshim.c ]; then
  cc -O1 -g -fPIC -shared -o build/fsshim.so harness/fsshim.c -ldl
fi
if [ -f harness/sched.cpp ]; then
  g++ -O1 -g -std=c++11 -I harness/pkcs11 -o build/sched harness/sched.cpp -ldl -lpthread
fi
python3 -c "import ctypes, json, hashlib" 
java -cp /opt/veriftools/tla/tla2tools.jar tlc2.TLC -h >/dev/null 2>&1 || true
echo setup ok
