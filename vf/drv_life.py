"""Driver for the behaviours of P11Life (library life cycle; beyond the listed properties).  Every entry point is called
through its exported symbol with all-zero arguments (after C_Finalize / before C_Initialize nothing else is looked at; the
unsupported entry points look at the session handle only).

usage: python3 -m vf.drv_life <lib> <behaviours.json> <out.ndjson> <workdir> <seed>
"""
import ctypes as C
import json
import sys

from . import p11const as K
from . import p11
from .harness import Harness, Emitter
from .p11 import rvname
from .tlaval import parse_call

# entry point -> number of arguments (PKCS#11 v2.40); the first argument of the session-taking ones is the session handle
ARGC = dict(C_GetInfo=1, C_GetSlotList=3, C_GetSlotInfo=2, C_GetTokenInfo=2, C_GetMechanismList=3, C_GetMechanismInfo=3,
            C_InitToken=4, C_InitPIN=3, C_SetPIN=5, C_OpenSession=5, C_CloseSession=1, C_CloseAllSessions=1,
            C_GetSessionInfo=2, C_GetOperationState=3, C_SetOperationState=5, C_Login=4, C_Logout=1, C_CreateObject=4,
            C_CopyObject=5, C_DestroyObject=2, C_GetObjectSize=3, C_GetAttributeValue=4, C_SetAttributeValue=4,
            C_FindObjectsInit=3, C_FindObjects=4, C_FindObjectsFinal=1, C_EncryptInit=3, C_Encrypt=5, C_EncryptUpdate=5,
            C_EncryptFinal=3, C_DecryptInit=3, C_Decrypt=5, C_DecryptUpdate=5, C_DecryptFinal=3, C_DigestInit=2, C_Digest=5,
            C_DigestUpdate=3, C_DigestKey=2, C_DigestFinal=3, C_SignInit=3, C_Sign=5, C_SignUpdate=3, C_SignFinal=3,
            C_SignRecoverInit=3, C_SignRecover=5, C_VerifyInit=3, C_Verify=5, C_VerifyUpdate=3, C_VerifyFinal=3,
            C_VerifyRecoverInit=3, C_VerifyRecover=5, C_DigestEncryptUpdate=5, C_DecryptDigestUpdate=5,
            C_SignEncryptUpdate=5, C_DecryptVerifyUpdate=5, C_GenerateKey=5, C_GenerateKeyPair=8, C_WrapKey=6,
            C_UnwrapKey=8, C_DeriveKey=6, C_SeedRandom=3, C_GenerateRandom=3, C_GetFunctionStatus=1, C_CancelFunction=1,
            C_WaitForSlotEvent=3)
UNSUPPORTED = ["C_GetOperationState", "C_SetOperationState", "C_SignRecoverInit", "C_SignRecover", "C_VerifyRecoverInit",
               "C_VerifyRecover", "C_DigestEncryptUpdate", "C_DecryptDigestUpdate", "C_SignEncryptUpdate",
               "C_DecryptVerifyUpdate"]
NOTPARALLEL = ["C_GetFunctionStatus", "C_CancelFunction"]
SESSION_FIRST = set(n for n in ARGC if n not in ("C_GetInfo", "C_GetSlotList", "C_GetSlotInfo", "C_GetTokenInfo",
                                                 "C_GetMechanismList", "C_GetMechanismInfo", "C_InitToken", "C_OpenSession",
                                                 "C_CloseAllSessions", "C_WaitForSlotEvent"))


class LifeDriver(Harness):
    def __init__(self, libpath, workdir, seed):
        Harness.__init__(self, libpath, workdir, seed, "file", tokens=("t1",))
        self.setup_tokens()
        self.p.finalize()
        self.up = False
        self.s = 0
        self.raw = C.CDLL(libpath, mode=2)
        self.keep = []

    def reset(self):
        if self.up:
            self.p.finalize()
        self.up = False
        self.s = 0

    def step(self, label):
        name, a = parse_call(label)
        p = self.p
        if name == "MInitialize":
            how = a[0]
            if how == "null":
                rv = p.initialize()
            else:
                args = p11.CK_C_INITIALIZE_ARGS()
                C.memset(C.byref(args), 0, C.sizeof(args))
                if how == "oslock":
                    args.flags = K.CKF_OS_LOCKING_OK
                elif how in ("callbacks", "partial"):
                    cb = [p11.CREATEMUTEX(lambda pp: 0), p11.MUTEXFN(lambda m: 0), p11.MUTEXFN(lambda m: 0),
                          p11.MUTEXFN(lambda m: 0)]
                    self.keep.append(cb)
                    args.CreateMutex, args.DestroyMutex, args.LockMutex = cb[0], cb[1], cb[2]
                    if how == "callbacks":
                        args.UnlockMutex = cb[3]
                else:
                    args.pReserved = C.cast(C.create_string_buffer(8), C.c_void_p)
                rv = p.lib.C_Initialize(C.byref(args))
            if rv == 0:
                self.up = True
            return dict(e=name, how=how, rv=rvname(rv))
        if name == "MFinalize":
            rv = p.lib.C_Finalize(C.cast(C.create_string_buffer(8), C.c_void_p) if a[0] == "nonnull" else None)
            if rv == 0:
                self.up = False
                self.s = 0
            return dict(e=name, arg=a[0], rv=rvname(rv))
        if name == "MOpen":
            self.map_slots()
            rv, self.s = p.open_session(self.slot["t1"], True)
            return dict(e=name, rv=rvname(rv))
        if name == "MGetFunctionList":
            fl = C.c_void_p(0)
            f = self.raw.C_GetFunctionList
            f.restype = C.c_ulong
            rv = f(C.byref(fl))
            return dict(e=name, rv=rvname(rv) if fl.value else "NULL_LIST")
        if name == "MSlotList":
            present, buf = a
            nslots = 2                      # the set-up: one initialised token and the slot with the uninitialised one
            n0 = p11.ULONG(0)
            r0 = p.lib.C_GetSlotList(1 if present else 0, None, C.byref(n0))
            if buf == "null":
                return dict(e=name, present=present, buf=buf, rv=rvname(r0), n=n0.value, nslots=nslots, order=True, w=0)
            size = {"small": max(nslots - 1, 0), "exact": nslots, "large": nslots + 3}[buf]
            FILL = 0xA5A5A5A5A5A5A5A5
            arr = (p11.ULONG * (size + 4))(*([FILL] * (size + 4)))
            n = p11.ULONG(size)
            rv = p.lib.C_GetSlotList(1 if present else 0, arr, C.byref(n))
            got = [arr[i] for i in range(size + 4)]
            w = max([i + 1 for i, x in enumerate(got) if x != FILL] or [0])
            order = False
            if rv == 0 and w == nslots and len(set(got[:w])) == w:
                inits = []
                for sl in got[:w]:
                    r2, ti = p.token_info(sl)
                    inits.append(bool(r2 == 0 and ti["flags"] & K.CKF_TOKEN_INITIALIZED))
                order = inits == sorted(inits, reverse=True) and inits[-1] is False
            return dict(e=name, present=present, buf=buf, rv=rvname(rv), n=n.value, nslots=nslots, order=order, w=w)
        if name == "MRandom":
            fn, h, n = a
            s = self.s if h == "open" else 0
            FILLB = 0xA5
            b = (C.c_ubyte * (n + 16))(*([FILLB] * (n + 16)))
            rv = getattr(p.lib, fn)(s, b, n)
            raw = bytes(b)
            w = max([i + 1 for i, x in enumerate(raw) if x != FILLB] or [0]) if fn == "C_GenerateRandom" else 0
            if fn == "C_GenerateRandom" and rv == 0 and w < n and raw[n:] == bytes([FILLB]) * 16:
                w = n               # (a random byte may equal the filler at the very end)
            if fn == "C_SeedRandom" and raw != bytes([FILLB]) * (n + 16):
                w = -1
            fresh = n < 16 or raw[:n].count(FILLB) < n // 2
            return dict(e=name, fn=fn, h=h, n=n, rv=rvname(rv), w=w, fresh=fresh)
        fn, h = a
        f = getattr(self.raw, fn)
        f.restype = C.c_ulong
        args = [C.c_ulong(0)] * ARGC[fn]
        if h == "open" and fn in SESSION_FIRST:
            args[0] = C.c_ulong(self.s)
        rv = f(*args)
        return dict(e=name, fn=fn, h=h, rv=rvname(rv))


def main():
    lib, bfile, out, workdir, seed = sys.argv[1:6]
    behaviours = json.load(open(bfile))
    d = LifeDriver(lib, workdir, int(seed))
    em = Emitter(out)
    for i, beh in enumerate(behaviours):
        em.emit({"e": "Reset", "b": i})
        d.reset()
        for label in beh:
            em.emit(d.step(label))
        em.flush()
    d.reset()
    em.close()


if __name__ == "__main__":
    from .harness import run_main
    run_main(main)
