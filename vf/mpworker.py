"""One PROCESS with its own library instance on a shared token directory (C15).  Reads one JSON command per line
on stdin, answers one JSON line on stdout.  Objects are generic secret keys tagged by CKA_VALUE = b"o<k>" (extractable, not sensitive) whose
CKA_LABEL, CKA_ID and CKA_START_DATE carry the model's values; the worker
only uses handles it obtained itself (C_CreateObject / C_FindObjects), as an application would.

usage: python3 -m vf.mpworker <lib> <conf> <user-pin-hex | ->          (LD_PRELOAD=fsshim.so for gated calls)

commands   {"c":"create","k":3,"priv":false,"token":true}       {"c":"set","k":3,"attr":"lab","v":2[,"gate":true]}
           {"c":"get","k":3}   {"c":"destroy","k":3[,"gate":true]}   {"c":"find","v":-1 | label value}   {"c":"quit"}
"""
import ctypes
import json
import os
import sys

from . import p11const as K
from .p11 import P11, rvname

ATTR = {"lab": K.CKA_LABEL, "id": K.CKA_ID, "sd": K.CKA_START_DATE}
ORDER = ["lab", "id", "sd"]


def enc(v, attr="lab"):
    if attr == "sd":
        return b"" if v == 0 else b"2000%02d%02d" % (1 + v // 28, 1 + v % 28)
    return b"v%d" % v


def dec(b, attr="lab"):
    try:
        s = b.decode()
        if attr == "sd":
            return 0 if s == "" else (int(s[4:6]) - 1) * 28 + int(s[6:8]) - 1 if (len(s) == 8 and s[:4] == "2000") else -1
        return int(s[1:]) if s.startswith("v") else -1
    except Exception:
        return -1


def template(k, priv, token=True):
    return [(K.CKA_CLASS, K.CKO_SECRET_KEY), (K.CKA_KEY_TYPE, K.CKK_GENERIC_SECRET), (K.CKA_TOKEN, bool(token)),
            (K.CKA_PRIVATE, bool(priv)), (K.CKA_SENSITIVE, False), (K.CKA_EXTRACTABLE, True), (K.CKA_VALUE, b"o%d" % k),
            (K.CKA_LABEL, enc(0)), (K.CKA_ID, enc(0)), (K.CKA_SIGN, True)]


def untag(b):
    try:
        s = b.decode()
        return int(s[1:]) if s.startswith("o") else -1
    except Exception:
        return -1


def main():
    lib, conf, pin = sys.argv[1:4]
    os.environ["SOFTHSM2_CONF"] = conf
    sh = ctypes.CDLL(None)
    gated = hasattr(sh, "fsshim_arm")
    p = P11(lib)
    rv = p.initialize()
    s = 0
    if rv == 0:
        rv2, slots = p.slot_list(True)
        slot = None
        for sl in slots:
            r, ti = p.token_info(sl)
            if r == 0 and ti["flags"] & K.CKF_TOKEN_INITIALIZED:
                slot = sl
        rv, s = p.open_session(slot, True)
        if rv == 0 and pin != "-":
            rv = p.login(s, K.CKU_USER, bytes.fromhex(pin))
    sys.stdout.write(json.dumps(dict(ready=rvname(rv))) + "\n")
    sys.stdout.flush()
    hnd = {}

    def read(g):
        rv, d = p.get_attrs(s, g, [K.CKA_VALUE, K.CKA_LABEL, K.CKA_ID, K.CKA_START_DATE, K.CKA_PRIVATE, K.CKA_TOKEN])
        if rv:
            return rv, None
        return 0, dict(k=untag(d.get(K.CKA_VALUE) or b""), vals=[dec(d.get(ATTR[a]) or b"", a) for a in ORDER],
                       priv=d.get(K.CKA_PRIVATE) == b"\x01", token=d.get(K.CKA_TOKEN) == b"\x01")

    for line in sys.stdin:
        c = json.loads(line)
        op = c["c"]
        if op == "quit":
            break
        if c.get("gate") and gated:
            sh.fsshim_arm(3, 0)
        out = {}
        if op == "create":
            rv, g = p.create_object(s, template(c["k"], c["priv"], c.get("token", True)))
            if rv == 0:
                hnd[c["k"]] = g
            out = dict(rv=rvname(rv))
        elif op == "set":
            if c["k"] not in hnd:
                out = dict(rv="NOHANDLE")
            else:
                rv = p.set_attrs(s, hnd[c["k"]], [(ATTR[c["attr"]], enc(c["v"], c["attr"]))])
                out = dict(rv=rvname(rv))
        elif op == "badset":
            if c["k"] not in hnd:
                out = dict(rv="NOHANDLE")
            else:
                # an attribute a secret key does not have: refused with CKR_ATTRIBUTE_TYPE_INVALID
                rv = p.set_attrs(s, hnd[c["k"]], [(K.CKA_LABEL, enc(7)), (K.CKA_MODULUS_BITS, 1024)])
                out = dict(rv=rvname(rv))
        elif op == "get":
            if c["k"] not in hnd:
                out = dict(rv="NOHANDLE")
            else:
                rv, d = read(hnd[c["k"]])
                out = dict(rv=rvname(rv))
                if rv == 0:
                    out.update(d)
                    out["same"] = d["k"] == c["k"]
        elif op == "destroy":
            if c["k"] not in hnd:
                out = dict(rv="NOHANDLE")
            else:
                rv = p.destroy_object(s, hnd[c["k"]])
                out = dict(rv=rvname(rv))
        elif op == "scan":
            # searches whose results nobody looks at, for c["ms"] milliseconds: they overlap a call of another process
            import time
            t1 = time.time() + c.get("ms", 15) / 1000.0
            n = 0
            while time.time() < t1:
                p.find(s, [(K.CKA_CLASS, K.CKO_SECRET_KEY)])
                n += 1
            out = dict(rv="OK", n=n)
        elif op == "find":
            tpl = [(K.CKA_CLASS, K.CKO_SECRET_KEY)]
            if c.get("v", -1) >= 0:
                tpl.append((ATTR[c.get("attr", "lab")], enc(c["v"], c.get("attr", "lab"))))
            rv, hs = p.find(s, tpl)
            found, dup, rehandle, unreadable = [], False, False, 0
            seen = set()
            for g in hs:
                r, d = read(g)
                if r:
                    unreadable += 1
                    continue
                if d["k"] in seen:
                    dup = True
                seen.add(d["k"])
                if d["k"] in hnd and hnd[d["k"]] != g and c.get("strict_handles"):
                    rehandle = True
                hnd[d["k"]] = g
                found.append([d["k"]] + d["vals"] + [d["priv"], d["token"]])
            out = dict(rv=rvname(rv), found=sorted(found), dup=dup, rehandle=rehandle, unreadable=unreadable)
        if c.get("gate") and gated:
            sh.fsshim_disarm()
        sys.stdout.write(json.dumps(out) + "\n")
        sys.stdout.flush()
    p.finalize()


if __name__ == "__main__":
    main()
