"""Driver for the behaviours of MC_Tok (token life cycle, PINs, persistence across restart; C14 and C04).

After every action two projections are recorded:
  live   through the acting library instance: slot list, token infos, session states, objects visible per token
  fresh  by a helper PROCESS that initialises its own library instance on the same token directory: tokens, labels,
         slot-from-serial, which PIN symbols authenticate as SO / as user, public objects, private objects and
         whether their values read back intact under a user PIN that authenticated.
No expected value lives here: Trace_Tok.tla is the oracle.

usage: python3 -m vf.drv_tok <lib> <behaviours.json> <out.ndjson> <workdir> <seed> <util-binary> [backend]
       python3 -m vf.drv_tok --helper <lib> <conf> <pins.json>        (helper process, talks over stdin/stdout)
"""
import hashlib
import json
import os
import subprocess
import sys

from . import p11const as K
from .harness import Harness, Emitter
from .p11 import P11, rvname, statename
from .tlaval import parse_call

USER = {"user": K.CKU_USER, "so": K.CKU_SO}


def slot_from_serial(serial):
    s = serial.rstrip(b" ").decode("ascii", "replace")
    tail = s[-8:] if len(s) >= 8 else s
    try:
        return int(tail, 16) & ((1 << 31) - 1)
    except ValueError:
        return -1


def label_bytes(k, lab):
    """the label symbol L2 stands for a label that fills all 32 bytes of CK_TOKEN_INFO.label (no blank padding)"""
    s = "T%d-%s" % (k, lab)
    return (s.ljust(31, ".") + "#").encode() if lab == "L2" else s.encode()


def parse_label(lab):
    """b'T3-L1   ...' -> (3, 'L1'); a label that is not byte for byte the one label_bytes makes -> (3, '?')"""
    try:
        s = lab.rstrip(b" ").decode()
        if s.startswith("T") and "-" in s:
            a, b = s[1:].split("-", 1)
            sym = b.split(".", 1)[0]
            return int(a), (sym if s.encode() == label_bytes(int(a), sym) else "?")
    except Exception:
        pass
    return -1, "?"


def value_of(tag):
    return hashlib.sha256(b"verif-value-" + tag).digest()


def untag(b):
    try:
        s = b.decode()
        return int(s[1:]) if s.startswith("o") else -1
    except Exception:
        return -1


def list_objects(p, s):
    """[(tag, private?, value_ok)] of everything session s can see"""
    rv, hs = p.find(s, [])
    out = []
    for g in hs:
        rv, d = p.get_attrs(s, g, [K.CKA_APPLICATION, K.CKA_PRIVATE, K.CKA_VALUE])
        if rv != 0 or d.get(K.CKA_APPLICATION) is None:
            out.append([-1, False, False])
            continue
        tag = d[K.CKA_APPLICATION]
        out.append([untag(tag), d.get(K.CKA_PRIVATE) == b"\x01", d.get(K.CKA_VALUE) == value_of(tag)])
    return sorted(out)


def probe_tokens(p, pins, try_pins):
    """Enumerates the tokens of an initialised library instance."""
    rv, slots = p.slot_list(True)
    toks = []
    nfree = 0
    for s in slots:
        rv, ti = p.token_info(s)
        if rv:
            toks.append(dict(k=-1, err=rvname(rv)))
            continue
        if not ti["flags"] & K.CKF_TOKEN_INITIALIZED:
            nfree += 1
            continue
        k, lab = parse_label(ti["label"])
        t = dict(k=k, lab=lab, slotok=(slot_from_serial(ti["serial"]) == s),
                 userinit=bool(ti["flags"] & K.CKF_USER_PIN_INITIALIZED),
                 ulow=bool(ti["flags"] & K.CKF_USER_PIN_COUNT_LOW), slow=bool(ti["flags"] & K.CKF_SO_PIN_COUNT_LOW))
        if try_pins:
            so_ok, user_ok = [], []
            rv, ss = p.open_session(s, True)
            if rv == 0:
                for sym in sorted(pins):
                    if p.login(ss, K.CKU_SO, pins[sym]) == 0:
                        so_ok.append(sym)
                        p.logout(ss)
                t["pub"] = [o[0] for o in list_objects(p, ss)]
                priv = None
                for sym in sorted(pins):
                    if p.login(ss, K.CKU_USER, pins[sym]) == 0:
                        user_ok.append(sym)
                        if priv is None:
                            priv = [[o[0], o[2]] for o in list_objects(p, ss) if o[1]]
                        p.logout(ss)
                p.close_session(ss)
                t["priv"] = priv if priv is not None else []
            else:
                t["err"] = "open:" + rvname(rv)
            t["so_pins"] = so_ok
            t["user_pins"] = user_ok
        toks.append(t)
    return dict(toks=sorted(toks, key=lambda x: x["k"]), nfree=nfree)


def helper_main(lib, conf, pinfile):
    """Every probe works on a COPY of the token directory: trying PINs writes the PIN status flags of a token."""
    import shutil
    import tempfile
    pins = {k: bytes.fromhex(v) for k, v in json.load(open(pinfile)).items()}
    lines = open(conf).read().splitlines()
    tokdir = [l.split("=", 1)[1].strip() for l in lines if l.startswith("directories.tokendir")][0]
    p = P11(lib)
    for line in sys.stdin:
        if line.strip() != "probe":
            break
        tmp = tempfile.mkdtemp(prefix="fresh", dir=os.path.dirname(conf))
        try:
            shutil.copytree(tokdir, os.path.join(tmp, "tokens"))
            c2 = os.path.join(tmp, "softhsm2.conf")
            with open(c2, "w") as f:
                f.write("\n".join(("directories.tokendir = " + os.path.join(tmp, "tokens")) if l.startswith("directories.tokendir")
                                  else l for l in lines) + "\n")
            os.environ["SOFTHSM2_CONF"] = c2
            rv = p.initialize()
            if rv:
                out = dict(err="init:" + rvname(rv))
            else:
                out = probe_tokens(p, pins, True)
                p.finalize()
        finally:
            shutil.rmtree(tmp, ignore_errors=True)
        sys.stdout.write(json.dumps(out) + "\n")
        sys.stdout.flush()


class TokDriver(Harness):
    def __init__(self, libpath, workdir, seed, util, backend="file", probe=None):
        Harness.__init__(self, libpath, workdir, seed, backend, tokens=())
        self.libpath = libpath
        self.util = util
        self.helper = None
        if probe:
            self.probe_pins = {k: self.pinbytes[k] for k in probe.split(",")}
        else:
            self.probe_pins = dict(self.pinbytes)

    def new_pins(self):
        r = self.rng

        def rnd(n, lo=1, hi=256):
            return bytes(r.randrange(lo, hi) for _ in range(n))
        # (the length of A goes through the list with the seed: every sixth driver process has a PIN of the maximum length)
        a = rnd([6, 255, 8, 17, 254, 32][self.seed % 6])
        pins = {"A": a}
        pins["Apre"] = a[:-1]                                                    # proper prefix
        pins["Aext"] = (a + rnd(1)) if len(a) < 255 else a[:-1] + bytes([a[-1] ^ 1])
        i = r.randrange(len(a))
        pins["Aflip"] = a[:i] + bytes([a[i] ^ (1 << r.randrange(8))]) + a[i + 1:]
        pins["Anul"] = a[:2] + b"\x00" + a[2:] if len(a) < 255 else b"\x00" + a[1:]
        pins["B"] = rnd(r.choice([4, 6, 9, 64]), 0x80, 256)                      # non-ASCII
        pins["C"] = b"\x00" + rnd(r.choice([3, 7, 30]), 0, 256)                  # leading NUL
        pins["U1"] = bytes(r.choice(b"abcdefghijklmnopqrstuvwxyz0123456789") for _ in range(r.choice([4, 8, 12])))
        pins["U2"] = bytes(r.choice(b"ABCDEFGHJKLMNPQRSTUVWXYZ") for _ in range(r.choice([5, 10])))
        pins["short"] = rnd(3)
        pins["long"] = rnd(256)
        pins["empty"] = b""
        # all distinct
        seen = set()
        for k in sorted(pins):
            while pins[k] in seen:
                pins[k] = pins[k][:-1] + bytes([(pins[k][-1] + 1) % 256 or 1])
            seen.add(pins[k])
        self.pinbytes = pins

    # ---- helper process
    def start_helper(self):
        pf = os.path.join(self.workdir, "pins.json")
        with open(pf, "w") as f:
            json.dump({k: v.hex() for k, v in self.probe_pins.items()}, f)
        env = dict(os.environ)
        self.helper = subprocess.Popen([sys.executable, "-m", "vf.drv_tok", "--helper", self.libpath, self.conf, pf],
                                       stdin=subprocess.PIPE, stdout=subprocess.PIPE, env=env,
                                       cwd=os.path.dirname(os.path.dirname(os.path.abspath(__file__))))

    def fresh(self):
        try:
            self.helper.stdin.write(b"probe\n")
            self.helper.stdin.flush()
            line = self.helper.stdout.readline()
            if not line:
                raise IOError("helper died")
            return json.loads(line.decode())
        except Exception as e:
            self.start_helper()
            return dict(err="helper:" + str(e))

    def stop_helper(self):
        if self.helper:
            try:
                self.helper.stdin.close()
                self.helper.wait(timeout=5)
            except Exception:
                self.helper.kill()
            self.helper = None

    # ---- per execution
    def begin(self):
        self.wipe()
        self.start()
        self.is_up = True
        self.m2r = {}
        self.nissued = 0
        self.sess_issued = []
        self.ntok = 0
        self.nobj = 0

    def slot_of(self, k):
        rv, slots = self.p.slot_list(True)
        for s in slots:
            rv, ti = self.p.token_info(s)
            if rv == 0 and ti["flags"] & K.CKF_TOKEN_INITIALIZED and parse_label(ti["label"])[0] == k:
                return s
        return 0x7ffffff0 + k

    def free_slot_id(self):
        rv, slots = self.p.slot_list(True)
        for s in slots:
            rv, ti = self.p.token_info(s)
            if rv == 0 and not ti["flags"] & K.CKF_TOKEN_INITIALIZED:
                return s
        return 0x7fffffee

    def real(self, mh):
        return self.m2r.get(mh, 0x7fff0000 + mh)

    def labbytes(self, k, lab):
        return label_bytes(k, lab)

    def live(self):
        p = self.p
        pr = probe_tokens(p, self.pinbytes, False)
        ss = []
        for h in self.sess_issued:
            rv, info = p.session_info(h)
            ss.append([h, statename(info["state"]) if rv == 0 else
                       ("INVALID" if rv == K.CKR_SESSION_HANDLE_INVALID else "ERR_" + rvname(rv))])
        for t in pr["toks"]:
            if t["k"] < 0:
                continue
            s = self.slot_of(t["k"])
            rv, tmp = p.open_session(s, True)
            if rv == 0:
                t["vis"] = [o[0] for o in list_objects(p, tmp)]
                p.close_session(tmp)
            else:
                t["vis"] = [-9]
        pr["ss"] = ss
        return pr

    def run_util(self, args):
        env = dict(os.environ, SOFTHSM2_CONF=self.conf)
        r = subprocess.run([self.util, "--module", self.libpath] + args, stdout=subprocess.PIPE, stderr=subprocess.STDOUT,
                           env=env, timeout=60)
        return "OK" if r.returncode == 0 else "UTIL_FAILED", r.stdout.decode(errors="replace")[-200:]

    def step(self, label):
        if isinstance(label, (list, tuple)):
            name, a = label[0], list(label[1:])
        else:
            name, a = parse_call(label)
        p = self.p
        ev = {"e": name}
        rv = 0
        rvs = None
        if name == "MInitFresh":
            self.ntok += 1
            k = self.ntok
            rv = p.init_token(self.free_slot_id(), self.pin(a[0]), self.labbytes(k, a[1]))
            if rv != 0:
                self.ntok -= 1
            ev.update(k=k, pin=a[0], lab=a[1])
        elif name == "MReInit":
            k = a[0]
            rv = p.init_token(self.slot_of(k), self.pin(a[1]), self.labbytes(k, a[2]))
            ev.update(k=k, pin=a[1], lab=a[2])
        elif name == "MRestart":
            rv = p.finalize()
            rv = rv or p.initialize()
            self.sess_issued = []
            self.m2r = {}
            self.nissued = 0
        elif name == "MFinalize":
            rv = p.finalize()
            self.is_up = False
            self.up = False
            self.sess_issued = []
            self.m2r = {}
            self.nissued = 0
        elif name == "MInitialize":
            rv = p.initialize()
            self.is_up = True
            self.up = True
        elif name == "MUtilInit":
            self.ntok += 1
            k = self.ntok
            rvs, msg = self.run_util(["--init-token", "--free", "--label", self.labbytes(k, a[2]).decode(),
                                      "--so-pin", self.pin(a[0]).decode("latin-1"), "--pin",
                                      self.pin(a[1]).decode("latin-1")])
            if rvs != "OK":
                self.ntok -= 1
                ev["msg"] = msg
            ev.update(k=k, so=a[0], user=a[1], lab=a[2])
        elif name == "MUtilDelete":
            k = a[0]
            lab = self.find_label_on_disk(k)
            rvs, msg = self.run_util(["--delete-token", "--token", lab])
            if rvs != "OK":
                ev["msg"] = msg
            ev.update(k=k)
        elif name == "MOpen":
            k, rw = a
            rv, h = p.open_session(self.slot_of(k), rw)
            ev.update(k=k, rw=rw, nh=h if rv == 0 else 0)
            if rv == 0:
                self.nissued += 1
                self.m2r[self.nissued] = h
                self.sess_issued.append(h)
        elif name == "MClose":
            h = self.real(a[0])
            rv = p.close_session(h)
            ev.update(h=h)
        elif name == "MCloseAll":
            rv = p.close_all(self.slot_of(a[0]))
            ev.update(k=a[0])
        elif name == "MLogin":
            h = self.real(a[0])
            rv = p.login(h, USER[a[1]], self.pin(a[2]))
            ev.update(h=h, u=a[1], pin=a[2])
        elif name == "MLogout":
            h = self.real(a[0])
            rv = p.logout(h)
            ev.update(h=h)
        elif name == "MInitPIN":
            h = self.real(a[0])
            rv = p.init_pin(h, self.pin(a[1]))
            ev.update(h=h, pin=a[1])
        elif name == "MSetPIN":
            h = self.real(a[0])
            rv = p.set_pin(h, self.pin(a[1]), self.pin(a[2]))
            ev.update(h=h, old=a[1], new=a[2])
        elif name == "MCreateObj":
            h = self.real(a[0])
            self.nobj += 1
            o = self.nobj
            tag = ("o%d" % o).encode()
            rv, g = p.create_object(h, [(K.CKA_CLASS, K.CKO_DATA), (K.CKA_TOKEN, True), (K.CKA_PRIVATE, bool(a[1])),
                                        (K.CKA_APPLICATION, tag), (K.CKA_LABEL, b"verif"), (K.CKA_VALUE, value_of(tag))])
            ev.update(h=h, o=o, priv=a[1])
        elif name == "MDestroyObj":
            h = self.real(a[0])
            o = a[1]
            tag = ("o%d" % o).encode()
            rvf, hs = p.find(h, [(K.CKA_APPLICATION, tag)])
            if rvf != 0:
                rv = rvf
            elif not hs:
                rvs = "NOTFOUND"
            else:
                rv = p.destroy_object(h, hs[0])
            ev.update(h=h, o=o)
        else:
            raise ValueError("unknown action " + str(label))
        ev["rv"] = rvs if rvs is not None else rvname(rv)
        ev["up"] = self.is_up
        ev["live"] = self.live() if self.is_up else {"toks": [], "nfree": 0, "ss": []}
        fr = self.fresh()
        if "err" in fr:
            fr = {"toks": [], "nfree": -1, "err": fr["err"]}
        for t in fr["toks"]:
            for key, dv in (("pub", []), ("priv", []), ("so_pins", []), ("user_pins", []), ("lab", "?"),
                            ("slotok", False), ("userinit", False), ("ulow", False),
                            ("slow", False)):
                t.setdefault(key, dv)
        for t in ev["live"]["toks"]:
            for key, dv in (("vis", [-9]), ("lab", "?"), ("slotok", False), ("userinit", False), ("ulow", False),
                                ("slow", False)):
                t.setdefault(key, dv)
        ev["fresh"] = fr
        return ev

    def find_label_on_disk(self, k):
        """label of token k, read by a throw-away library instance (the acting library is down)"""
        rv = self.p.initialize()
        lab = "T%d-?" % k
        if rv == 0:
            rv, slots = self.p.slot_list(True)
            for s in slots:
                rv, ti = self.p.token_info(s)
                if rv == 0 and ti["flags"] & K.CKF_TOKEN_INITIALIZED and parse_label(ti["label"])[0] == k:
                    lab = ti["label"].rstrip(b" ").decode()
            self.p.finalize()
        return lab


def main():
    if sys.argv[1] == "--helper":
        return helper_main(*sys.argv[2:5])
    lib, bfile, out, workdir, seed, util = sys.argv[1:7]
    backend = sys.argv[7] if len(sys.argv) > 7 else "file"
    probe = sys.argv[8] if len(sys.argv) > 8 else None
    behaviours = json.load(open(bfile))
    d = TokDriver(lib, workdir, int(seed), util, backend, probe)
    em = Emitter(out)
    d.start_helper()
    try:
        for i, beh in enumerate(behaviours):
            d.begin()
            em.emit({"e": "Reset", "b": i})
            for label in beh:
                em.emit(d.step(label))
            em.flush()
    finally:
        d.stop_helper()
    d.shutdown()
    em.close()


if __name__ == "__main__":
    from .harness import run_main
    run_main(main)
