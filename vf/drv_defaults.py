"""Driver for P11Defaults (beyond the listed properties): C_CreateObject with the smallest template of each class, then every
attribute of the specification's table is read back (one call per attribute, so that an absent one does not hide the others).

usage: python3 -m vf.drv_defaults <lib> <behaviours.json> <out.ndjson> <workdir> <seed>
"""
import json
import sys

from . import p11const as K
from . import testkeys as TK
from .harness import Harness, Emitter
from .p11 import rvname
from .tlaval import parse_call

NAMES = ["TOKEN", "PRIVATE", "MODIFIABLE", "COPYABLE", "DESTROYABLE", "LABEL", "ID", "APPLICATION", "OBJECT_ID", "TRUSTED",
         "CERTIFICATE_CATEGORY", "START_DATE", "END_DATE", "DERIVE", "LOCAL", "KEY_GEN_MECHANISM", "ENCRYPT", "DECRYPT", "SIGN",
         "VERIFY", "WRAP", "UNWRAP", "SIGN_RECOVER", "VERIFY_RECOVER", "SENSITIVE", "EXTRACTABLE", "ALWAYS_SENSITIVE",
         "NEVER_EXTRACTABLE", "WRAP_WITH_TRUSTED", "ALWAYS_AUTHENTICATE", "ISSUER", "SERIAL_NUMBER", "SUBJECT"]
GIVEN = {"cert": {"SUBJECT"}}          # attributes the smallest template has to supply: not defaults


def minimal(c):
    r = TK.RSA1024
    return {
        "data": [(K.CKA_CLASS, K.CKO_DATA)],
        "cert": [(K.CKA_CLASS, K.CKO_CERTIFICATE), (K.CKA_CERTIFICATE_TYPE, K.CKC_X_509), (K.CKA_SUBJECT, b"\x30\x00"),
                 (K.CKA_VALUE, b"\x30\x03\x02\x01\x01")],
        "pub": [(K.CKA_CLASS, K.CKO_PUBLIC_KEY), (K.CKA_KEY_TYPE, K.CKK_RSA), (K.CKA_MODULUS, r["n"]),
                (K.CKA_PUBLIC_EXPONENT, r["e"])],
        "priv": [(K.CKA_CLASS, K.CKO_PRIVATE_KEY), (K.CKA_KEY_TYPE, K.CKK_RSA), (K.CKA_MODULUS, r["n"]),
                 (K.CKA_PRIVATE_EXPONENT, r["d"]), (K.CKA_PUBLIC_EXPONENT, r["e"]), (K.CKA_PRIME_1, r["p"]),
                 (K.CKA_PRIME_2, r["q"]), (K.CKA_EXPONENT_1, r["dp"]), (K.CKA_EXPONENT_2, r["dq"]),
                 (K.CKA_COEFFICIENT, r["qi"])],
        "secret": [(K.CKA_CLASS, K.CKO_SECRET_KEY), (K.CKA_KEY_TYPE, K.CKK_AES), (K.CKA_VALUE, bytes(16))],
    }[c]


def sym(name, v):
    if v is None:
        return "?"
    if name in ("CERTIFICATE_CATEGORY", "KEY_GEN_MECHANISM"):
        n = int.from_bytes(v, "little")
        return "unavail" if n == 0xFFFFFFFFFFFFFFFF else str(n)
    if len(v) == 1 and name not in ("LABEL", "ID", "APPLICATION", "OBJECT_ID", "START_DATE", "END_DATE", "ISSUER", "SERIAL_NUMBER",
                                    "SUBJECT"):
        return "T" if v == b"\x01" else "F"
    return "" if v == b"" else "x:" + v.hex()[:16]


def main():
    lib, bfile, out, workdir, seed = sys.argv[1:6]
    behaviours = json.load(open(bfile))
    d = Harness(lib, workdir, int(seed), "file", tokens=("t1",))
    em = Emitter(out)
    for i, beh in enumerate(behaviours):
        em.emit({"e": "Reset", "b": i})
        d.setup_tokens()
        p = d.p
        rv, s = p.open_session(d.slot["t1"], True)
        p.login(s, K.CKU_USER, d.pin("P2"))
        for label in beh:
            name, a = parse_call(label)
            c = a[0]
            rv, g = p.create_object(s, minimal(c))
            attrs = {}
            if rv == 0:
                for n in NAMES:
                    if n in GIVEN.get(c, ()):
                        continue
                    r2, v = p.get_attr(s, g, getattr(K, "CKA_" + n))
                    if r2 == 0:
                        attrs["LOCAL_" if n == "LOCAL" else n] = sym(n, v)       # (LOCAL is a TLA+ keyword)
            em.emit(dict(e=name, c=c, rv=rvname(rv), attrs=attrs))
        em.flush()
    d.shutdown()
    em.close()


if __name__ == "__main__":
    from .harness import run_main
    run_main(main)
