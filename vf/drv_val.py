"""Driver for the behaviours of MC_Val (C13, C10, C20): wrap / unwrap / derive / key values / check values /
deterministic and randomised operations, under one or several configurations (file|db x OpenSSL|Botan).

Next to every byte string the library produced, the event carries what the independent reference (vf/refcrypto.py)
computes from the same concrete inputs; byte strings appear as short hashes.  Trace_Val.tla judges: reference
equality, the term laws (Unwrap(Wrap(k)) = k, multi-part = single-part, ...) and equality across configurations.

usage: python3 -m vf.drv_val <lib> <behaviours.json> <out.ndjson> <workdir> <seed> <cfgs> [<botanlib>]
       cfgs: comma list of ossl-file, ossl-db, botan-file, botan-db   (each runs in its own process: --one)
"""
import hashlib
import json
import os
import subprocess
import sys

from . import p11const as K
from . import p11
from . import refcrypto as R
from . import testkeys as TK
from .harness import Harness, Emitter
from .p11 import Mech, rvname
from .tlaval import parse_call

ROOTDIR = os.path.dirname(os.path.dirname(os.path.abspath(__file__)))
KINDS = {"aes16": (K.CKK_AES, 16), "aes32": (K.CKK_AES, 32), "des3": (K.CKK_DES3, 24), "gen16": (K.CKK_GENERIC_SECRET, 16),
         "gen20": (K.CKK_GENERIC_SECRET, 20), "gen24": (K.CKK_GENERIC_SECRET, 24), "gen32": (K.CKK_GENERIC_SECRET, 32),
         "gen64": (K.CKK_GENERIC_SECRET, 64)}
RKIND = {"aes16": "aes", "aes32": "aes", "des3": "des3", "gen16": "gen", "gen20": "gen", "gen24": "gen", "gen32": "gen",
         "gen64": "gen"}
IVS = {0: bytes(16), 1: bytes(range(16)), 2: bytes(range(100, 116))}
# 4: single-part call with a one-byte buffer first (CKR_BUFFER_TOO_SMALL), then again; 5: multi-part, the Final likewise
CHUNKS = {0: None, 1: [10 ** 6], 2: [1, 10 ** 6], 3: [15, 17, 1, 10 ** 6], 4: None, 5: [10 ** 6]}
TMPLS = {"empty": [], "encT": [(K.CKA_ENCRYPT, True)], "encF": [(K.CKA_ENCRYPT, False)], "ktAes": [(K.CKA_KEY_TYPE, K.CKK_AES)],
         "ktAesEncF": [(K.CKA_KEY_TYPE, K.CKK_AES), (K.CKA_ENCRYPT, False)], "ktDes3": [(K.CKA_KEY_TYPE, K.CKK_DES3)]}
PEERS = json.load(open(os.path.join(ROOTDIR, "fixtures", "peers.json")))


def h(b):
    return "" if b is None else hashlib.sha256(b).hexdigest()[:12]


def fixed_key(kind, i):
    n = KINDS[kind][1]
    b = hashlib.sha512(b"verif-fixed-key-%s-%d" % (kind.encode(), i)).digest()[:n]
    return R.des_parity(b) if kind == "des3" else b


def data_of(d):
    n = {0: 0, 1: 16, 2: 32, 3: 48, 4: 37}[d]
    return hashlib.sha512(b"verif-data-%d" % d).digest()[:n] if n <= 64 else None


def rsa_ints():
    return {k: int.from_bytes(v, "big") for k, v in TK.RSA1024.items()}


def flip(b, i=0):
    if not b:
        return b
    i %= len(b)
    return b[:i] + bytes([b[i] ^ 0x01]) + b[i + 1:]


class ValDriver(Harness):
    def __init__(self, libpath, workdir, seed, backend):
        Harness.__init__(self, libpath, workdir, seed, backend, tokens=("t1",))
        self.s = None
        self.keys = {}     # model key number -> dict(h=handle or (pub, priv), kind=, val=bytes or None)
        self.blobs = {}    # model blob number -> bytes

    def reset(self):
        self.setup_tokens()
        rv, self.s = self.p.open_session(self.slot["t1"], True)
        rv = rv or self.p.login(self.s, K.CKU_USER, self.pin("P2"))
        if rv:
            raise RuntimeError("set-up session: " + rvname(rv))
        self.keys, self.blobs = {}, {}
        self.nk = self.nb = 0

    def count(self):
        rv, hs = self.p.find(self.s, [])
        return len(hs)

    def kid(self, suffix=b""):
        """CKA_ID of the key that is made next (keys are found again by it after a restart)"""
        return b"k%d" % (self.nk + 1) + suffix

    def template(self, kind, label, extra=(), private=True):
        kt, n = KINDS[kind]
        return [(K.CKA_CLASS, K.CKO_SECRET_KEY), (K.CKA_KEY_TYPE, kt), (K.CKA_TOKEN, True), (K.CKA_PRIVATE, bool(private)),
                (K.CKA_ID, self.kid()),
                (K.CKA_SENSITIVE, False), (K.CKA_EXTRACTABLE, True), (K.CKA_LABEL, label), (K.CKA_ENCRYPT, True),
                (K.CKA_DECRYPT, True), (K.CKA_SIGN, True), (K.CKA_VERIFY, True), (K.CKA_WRAP, True), (K.CKA_UNWRAP, True),
                (K.CKA_DERIVE, True)] + list(extra)

    def read(self, g, kind):
        """-> (value bytes or None, kcv bytes or None)"""
        rv, d = self.p.get_attrs(self.s, g, [K.CKA_VALUE])
        val = d.get(K.CKA_VALUE) if rv == 0 else None
        rv, d = self.p.get_attrs(self.s, g, [K.CKA_CHECK_VALUE])
        kcv = d.get(K.CKA_CHECK_VALUE) if rv == 0 else None
        return val, kcv

    RSA_PARTS = (("n", K.CKA_MODULUS), ("d", K.CKA_PRIVATE_EXPONENT), ("e", K.CKA_PUBLIC_EXPONENT), ("p", K.CKA_PRIME_1),
                 ("q", K.CKA_PRIME_2), ("dp", K.CKA_EXPONENT_1), ("dq", K.CKA_EXPONENT_2), ("qi", K.CKA_COEFFICIENT))

    def rsa_value(self, priv):
        """every component of the private key, in a fixed order (the reference value: rsa_ref)"""
        rv, d = self.p.get_attrs(self.s, priv, [a for _, a in self.RSA_PARTS])
        return b"|".join((d.get(a) or b"").lstrip(b"\x00") for _, a in self.RSA_PARTS) if rv == 0 else None

    def rsa_ref(self):
        return b"|".join(TK.RSA1024[n].lstrip(b"\x00") for n, _ in self.RSA_PARTS)

    def keyinfo(self, g, kind):
        val, kcv = self.read(g, kind)
        ref = R.kcv(RKIND[kind], val) if (val and kcv) else kcv
        return val, h(kcv) if kcv else "", h(ref) if kcv else ""

    def attrs_ok(self, g, label):
        rv, d = self.p.get_attrs(self.s, g, [K.CKA_LOCAL, K.CKA_NEVER_EXTRACTABLE, K.CKA_ALWAYS_SENSITIVE, K.CKA_LABEL,
                                             K.CKA_EXTRACTABLE, K.CKA_SENSITIVE])
        return (rv == 0 and d.get(K.CKA_LOCAL) == b"\x00" and d.get(K.CKA_NEVER_EXTRACTABLE) == b"\x00" and
                d.get(K.CKA_ALWAYS_SENSITIVE) == b"\x00" and d.get(K.CKA_LABEL) == label and
                d.get(K.CKA_EXTRACTABLE) == b"\x01" and d.get(K.CKA_SENSITIVE) == b"\x00")

    def probe(self):
        """mechanisms the model relies on: advertised by C_GetMechanismList?  do they work at all?"""
        p, s = self.p, self.s
        rv, ms = p.mechanism_list(self.slot["t1"])
        out = []
        rv, ka = p.create_object(s, [x if x[0] != K.CKA_TOKEN else (K.CKA_TOKEN, False) for x in
                                     self.template("aes16", b"probe", [(K.CKA_VALUE, bytes(16))])])
        rv, kd = p.create_object(s, [x if x[0] != K.CKA_TOKEN else (K.CKA_TOKEN, False) for x in
                                     self.template("des3", b"probe", [(K.CKA_VALUE, R.des_parity(bytes(range(24))))])])
        for name, mech, key in (("AES_ECB", K.CKM_AES_ECB, ka), ("DES3_ECB", K.CKM_DES3_ECB, kd)):
            r1 = p.op_init("Encrypt", s, Mech(mech), key)
            r2, o = p.io_full("Encrypt", s, bytes(16)) if r1 == 0 else (r1, None)
            out.append(dict(e="Probe", mech=name, advertised=mech in ms, works=(r2 == 0)))
        for name, mech, key in (("AES_ECB_ENCRYPT_DATA", K.CKM_AES_ECB_ENCRYPT_DATA, ka),
                                ("DES3_ECB_ENCRYPT_DATA", K.CKM_DES3_ECB_ENCRYPT_DATA, kd)):
            t = [x if x[0] != K.CKA_TOKEN else (K.CKA_TOKEN, False) for x in self.template("aes16", b"probe")] + [(K.CKA_VALUE_LEN, 16)]
            r1, g = p.derive_key(s, Mech(mech, p11.keyderiv_string(bytes(32))), key, t)
            out.append(dict(e="Probe", mech=name, advertised=mech in ms, works=(r1 == 0)))
            if r1 == 0:
                p.destroy_object(s, g)
        p.destroy_object(s, ka)
        p.destroy_object(s, kd)
        return out

    # ---- actions
    def step(self, label):
        name, a = parse_call(label)
        return getattr(self, name)(*a)

    def MImportT(self, kind, i, enc, wt, ut):
        ev = self.MImport(kind, i, enc, wt, ut)
        ev.update(e="ImportT", enc=enc, wt=wt, ut=ut)
        return ev

    def MImport(self, kind, i, enc=True, wt="none", ut="none"):
        p, s = self.p, self.s
        xw = [(K.CKA_WRAP_TEMPLATE, TMPLS[wt])] if wt != "none" else []
        xu = [(K.CKA_UNWRAP_TEMPLATE, TMPLS[ut])] if ut != "none" else []
        if kind == "rsa":
            r = TK.RSA1024
            rv, pub = p.create_object(s, [(K.CKA_CLASS, K.CKO_PUBLIC_KEY), (K.CKA_KEY_TYPE, K.CKK_RSA), (K.CKA_TOKEN, True),
                                          (K.CKA_ID, self.kid(b"p")),
                                          (K.CKA_MODULUS, r["n"]), (K.CKA_PUBLIC_EXPONENT, r["e"]), (K.CKA_ENCRYPT, True),
                                          (K.CKA_VERIFY, True), (K.CKA_WRAP, True)] + xw)
            rv2, priv = p.create_object(s, [(K.CKA_CLASS, K.CKO_PRIVATE_KEY), (K.CKA_KEY_TYPE, K.CKK_RSA), (K.CKA_TOKEN, True),
                                            (K.CKA_ID, self.kid()), (K.CKA_LABEL, b"imp"),
                                            (K.CKA_MODULUS, r["n"]), (K.CKA_PUBLIC_EXPONENT, r["e"]),
                                            (K.CKA_PRIVATE_EXPONENT, r["d"]), (K.CKA_PRIME_1, r["p"]), (K.CKA_PRIME_2, r["q"]),
                                            (K.CKA_EXPONENT_1, r["dp"]), (K.CKA_EXPONENT_2, r["dq"]), (K.CKA_COEFFICIENT, r["qi"]),
                                            (K.CKA_DECRYPT, True), (K.CKA_SIGN, True), (K.CKA_UNWRAP, True),
                                            (K.CKA_SENSITIVE, False), (K.CKA_EXTRACTABLE, True)] + xu)
            ev = dict(e="Import", kind=kind, i=i, rv=rvname(rv or rv2), k=0, v="", ref=h(self.rsa_ref()), kcv="", kcvref="")
            if not (rv or rv2):
                self.nk += 1
                self.keys[self.nk] = dict(h=(pub, priv), kind=kind, val=R.pkcs8_rsa(rsa_ints()))
                ev.update(k=self.nk, v=h(self.rsa_value(priv)))
            return ev
        if kind in ("ed", "dsa"):
            if kind == "ed":
                d = TK.ED25519
                tpriv = [(K.CKA_CLASS, K.CKO_PRIVATE_KEY), (K.CKA_KEY_TYPE, K.CKK_EC_EDWARDS), (K.CKA_TOKEN, True),
                         (K.CKA_EC_PARAMS, d["params"]), (K.CKA_VALUE, d["d"]), (K.CKA_SIGN, True)]
                tpub = [(K.CKA_CLASS, K.CKO_PUBLIC_KEY), (K.CKA_KEY_TYPE, K.CKK_EC_EDWARDS), (K.CKA_TOKEN, True),
                        (K.CKA_EC_PARAMS, d["params"]), (K.CKA_EC_POINT, d["point"]), (K.CKA_VERIFY, True)]
                ident = d["point"]
            else:
                d = TK.DSA1024
                tpriv = [(K.CKA_CLASS, K.CKO_PRIVATE_KEY), (K.CKA_KEY_TYPE, K.CKK_DSA), (K.CKA_TOKEN, True),
                         (K.CKA_PRIME, d["p"]), (K.CKA_SUBPRIME, d["q"]), (K.CKA_BASE, d["g"]), (K.CKA_VALUE, d["x"]),
                         (K.CKA_SIGN, True)]
                tpub = [(K.CKA_CLASS, K.CKO_PUBLIC_KEY), (K.CKA_KEY_TYPE, K.CKK_DSA), (K.CKA_TOKEN, True),
                        (K.CKA_PRIME, d["p"]), (K.CKA_SUBPRIME, d["q"]), (K.CKA_BASE, d["g"]), (K.CKA_VALUE, d["y"]),
                        (K.CKA_VERIFY, True)]
                ident = d["y"]
            rv, g = p.create_object(s, tpriv)
            rv2, pub = p.create_object(s, tpub) if rv == 0 else (rv, 0)
            ev = dict(e="Import", kind=kind, i=i, rv=rvname(rv or rv2), k=0, v=h(ident), ref=h(ident), kcv="", kcvref="")
            if not (rv or rv2):
                self.nk += 1
                self.keys[self.nk] = dict(h=g, kind=kind, val=None, pub=pub)
                ev["k"] = self.nk
            return ev
        if kind in ("dh", "ec"):
            if kind == "dh":
                d = TK.DH1024
                t = [(K.CKA_CLASS, K.CKO_PRIVATE_KEY), (K.CKA_KEY_TYPE, K.CKK_DH), (K.CKA_TOKEN, True), (K.CKA_PRIME, d["p"]),
                     (K.CKA_BASE, d["g"]), (K.CKA_VALUE, d["x"]), (K.CKA_DERIVE, True)]
                ident = d["p"]
            else:
                d = TK.EC_P256
                t = [(K.CKA_CLASS, K.CKO_PRIVATE_KEY), (K.CKA_KEY_TYPE, K.CKK_EC), (K.CKA_TOKEN, True),
                     (K.CKA_EC_PARAMS, d["params"]), (K.CKA_VALUE, d["d"]), (K.CKA_DERIVE, True)]
                ident = d["point"]
            rv, g = p.create_object(s, t + ([(K.CKA_SIGN, True)] if kind == "ec" else []))
            pub = 0
            if kind == "ec" and rv == 0:
                rv, pub = p.create_object(s, [(K.CKA_CLASS, K.CKO_PUBLIC_KEY), (K.CKA_KEY_TYPE, K.CKK_EC), (K.CKA_TOKEN, True),
                                              (K.CKA_EC_PARAMS, d["params"]), (K.CKA_EC_POINT, d["point"]), (K.CKA_VERIFY, True)])
            ev = dict(e="Import", kind=kind, i=i, rv=rvname(rv), k=0, v=h(ident), ref=h(ident), kcv="", kcvref="")
            if rv == 0:
                self.nk += 1
                self.keys[self.nk] = dict(h=g, kind=kind, val=None, pub=pub)
                ev["k"] = self.nk
            return ev
        val = fixed_key(kind, i)
        t = [x if x[0] != K.CKA_ENCRYPT else (K.CKA_ENCRYPT, bool(enc)) for x in self.template(kind, b"imp", [(K.CKA_VALUE, val)])]
        rv, g = p.create_object(s, t + xw + xu)
        ev = dict(e="Import", kind=kind, i=i, rv=rvname(rv), k=0, v="", ref=h(val), kcv="", kcvref="")
        if rv == 0:
            self.nk += 1
            got, ev["kcv"], ev["kcvref"] = self.keyinfo(g, kind)
            self.keys[self.nk] = dict(h=g, kind=kind, val=got)
            ev.update(k=self.nk, v=h(got))
        return ev

    def MGenerate(self, kind):
        p, s = self.p, self.s
        kt, n = KINDS[kind]
        mech = {K.CKK_AES: K.CKM_AES_KEY_GEN, K.CKK_DES3: K.CKM_DES3_KEY_GEN, K.CKK_GENERIC_SECRET: K.CKM_GENERIC_SECRET_KEY_GEN}[kt]
        t = [x for x in self.template(kind, b"gen") if x[0] != K.CKA_KEY_TYPE or True]
        if kt != K.CKK_DES3:
            t.append((K.CKA_VALUE_LEN, n))
        rv, g = p.generate_key(s, Mech(mech), t)
        ev = dict(e="Generate", kind=kind, rv=rvname(rv), k=0, v="", kcv="", kcvref="")
        if rv == 0:
            self.nk += 1
            got, ev["kcv"], ev["kcvref"] = self.keyinfo(g, kind)
            self.keys[self.nk] = dict(h=g, kind=kind, val=got)
            ev.update(k=self.nk, v=h(got))
        return ev

    def wrap_mech(self, m, iv):
        if m == "KW":
            return Mech(K.CKM_AES_KEY_WRAP)
        if m == "KWP":
            return Mech(K.CKM_AES_KEY_WRAP_PAD)
        if m == "CBC":
            return Mech(K.CKM_AES_CBC, IVS[iv])
        if m == "CBCPAD":
            return Mech(K.CKM_AES_CBC_PAD, IVS[iv])
        if m == "RSA":
            return Mech(K.CKM_RSA_PKCS)
        return Mech(K.CKM_RSA_PKCS_OAEP, p11.oaep_params())

    def MWrap(self, m, w, k, iv):
        p, s = self.p, self.s
        kw, kk = self.keys[w], self.keys[k]
        wh = kw["h"][0] if kw["kind"] == "rsa" else kw["h"]
        kh = kk["h"][1] if kk["kind"] == "rsa" else kk["h"]
        rv, blob, _n = p.wrap_key(s, self.wrap_mech(m, iv), wh, kh)
        ev = dict(e="Wrap", m=m, w=w, k=k, iv=iv, rv=rvname(rv), b=0, v="", ref="", refun=False)
        if rv == 0:
            self.nb += 1
            self.blobs[self.nb] = blob
            ev.update(b=self.nb, v=h(blob))
            val = kk["val"]
            if kw["kind"] != "rsa" and kw["val"] and val:
                wk = kw["val"]
                if m == "KW":
                    ref = R.keywrap(wk, val + bytes(-len(val) % 8))
                elif m == "KWP":
                    ref = R.keywrap_pad(wk, val)
                elif m == "CBC":
                    ref = R.cbc("aes", wk, IVS[iv], val)
                else:
                    ref = R.cbc("aes", wk, IVS[iv], val, pad=True)
                ev["ref"] = h(ref) if ref is not None else "none"
            elif kw["kind"] == "rsa" and val:
                key = rsa_ints()
                got = R.rsa_decrypt_pkcs1(key, blob) if m == "RSA" else R.rsa_decrypt_oaep(key, "sha1", blob)
                ev["refun"] = got == val
        return ev

    def MDamage(self, b, how):
        blob = self.blobs[b]
        self.blobs[b] = flip(blob, len(blob) // 2) if how == "flip" else blob[:-3]
        return dict(e="Damage", b=b, how=how)

    def MUnwrapT(self, m, w, b, e):
        ev = self.MUnwrap(m, w, b, e)
        ev.update(e="UnwrapT", te=e)
        return ev

    def MUnwrap(self, m, w, b, e="T"):
        p, s = self.p, self.s
        kw = self.keys[w]
        wh = kw["h"][1] if kw["kind"] == "rsa" else kw["h"]
        # the mechanism parameters and the type of the key are those of the wrap that made the blob
        meta = self.blobmeta.get(b, dict(iv=0, kind="aes16"))
        kind = meta["kind"]
        if m == "KW" and KINDS[kind][1] % 8:
            kind = "gen24"
        before = self.count()
        # (the value of a key does not depend on CKA_PRIVATE: the keys the library makes are private and public in turn)
        self.made = getattr(self, "made", 0) + 1
        pv = self.made % 2 == 0
        t = self.priv_template(b"unwrapped", pv) if kind == "rsa" else self.template(kind, b"unwrapped", private=pv)
        if kind != "rsa":
            # what the caller's template says about CKA_ENCRYPT
            t = [x for x in t if x[0] != K.CKA_ENCRYPT] + {"absent": [], "T": [(K.CKA_ENCRYPT, True)], "F": [(K.CKA_ENCRYPT, False)],
                                                          "TF": [(K.CKA_ENCRYPT, True), (K.CKA_LABEL, b"unwrapped"), (K.CKA_ENCRYPT, False)],
                                                          "FT": [(K.CKA_ENCRYPT, False), (K.CKA_LABEL, b"unwrapped"), (K.CKA_ENCRYPT, True)]}[e]
            if e in ("TF", "FT"):
                t = [x for i, x in enumerate(t) if not (x[0] == K.CKA_LABEL and i < len(t) - 3)]
        rv, g = p.unwrap_key(s, self.wrap_mech(m, meta["iv"]), wh, self.blobs[b], t)
        ev = dict(e="Unwrap", m=m, w=w, b=b, rv=rvname(rv), k=0, v="", kcv="", kcvref="", made=self.count() - before,
                  attrsok=False, enc="")
        if rv == 0:
            self.nk += 1
            if kind == "rsa":
                got = self.rsa_value(g)
                self.keys[self.nk] = dict(h=(0, g), kind=kind, val=R.pkcs8_rsa(rsa_ints()))
            else:
                got, ev["kcv"], ev["kcvref"] = self.keyinfo(g, kind)
                self.keys[self.nk] = dict(h=g, kind=kind, val=got)
            rv2, d2 = p.get_attrs(s, g, [K.CKA_ENCRYPT])
            enc = d2.get(K.CKA_ENCRYPT) if rv2 == 0 else None
            ev.update(k=self.nk, v=h(got), attrsok=self.attrs_ok(g, b"unwrapped"),
                      enc="absent" if enc is None else ("T" if enc == b"\x01" else "F"))
        return ev

    def priv_template(self, label, private=True):
        return [(K.CKA_CLASS, K.CKO_PRIVATE_KEY), (K.CKA_KEY_TYPE, K.CKK_RSA), (K.CKA_TOKEN, True), (K.CKA_PRIVATE, bool(private)),
                (K.CKA_ID, self.kid()),
                (K.CKA_SENSITIVE, False), (K.CKA_EXTRACTABLE, True), (K.CKA_LABEL, label), (K.CKA_DECRYPT, True),
                (K.CKA_SIGN, True), (K.CKA_UNWRAP, True)]

    def MUnwrapAs(self, m, w, b):
        """a blob holding a secret key, unwrapped with the template of an RSA private key"""
        p, s = self.p, self.s
        kw = self.keys[w]
        wh = kw["h"][1] if kw["kind"] == "rsa" else kw["h"]
        meta = self.blobmeta.get(b, dict(iv=0, kind="aes16"))
        before = self.count()
        rv, g = p.unwrap_key(s, self.wrap_mech(m, meta["iv"]), wh, self.blobs[b], self.priv_template(b"unwrapped-as"))
        return dict(e="UnwrapAs", m=m, w=w, b=b, rv=rvname(rv), made=self.count() - before)

    def MDerive(self, m, base, d, kind):
        p, s = self.p, self.s
        kb = self.keys[base]
        data = data_of(d)
        bk = RKIND.get(kb["kind"], "")
        aes = bk == "aes"
        if m in ("DH", "ECDH"):
            tab = PEERS["dh" if m == "DH" else "ec"]
            peer = tab.get(str(d)) or tab["2"]
            if m == "DH":
                mech, full = Mech(K.CKM_DH_PKCS_DERIVE, bytes.fromhex(peer["y"])), bytes.fromhex(peer["z"])
            else:
                mech, full = Mech(K.CKM_ECDH1_DERIVE, p11.ecdh_params(bytes.fromhex(peer["point"]))), bytes.fromhex(peer["z"])
            if kb["kind"] != ("dh" if m == "DH" else "ec"):
                full = None
        elif m == "ECB":
            mech = Mech(K.CKM_AES_ECB_ENCRYPT_DATA if aes else K.CKM_DES3_ECB_ENCRYPT_DATA, p11.keyderiv_string(data))
            full = R.ecb(bk, kb["val"], data) if (kb["val"] and bk in ("aes", "des3")) else None
        elif m == "CBCD":
            iv = IVS[1][:16 if aes else 8]
            mech = Mech(K.CKM_AES_CBC_ENCRYPT_DATA if aes else K.CKM_DES3_CBC_ENCRYPT_DATA, p11.cbc_encrypt_data(iv, data))
            full = R.cbc(bk, kb["val"], iv, data) if (kb["val"] and bk in ("aes", "des3")) else None
        elif m == "CATBD":
            mech = Mech(K.CKM_CONCATENATE_BASE_AND_DATA, p11.keyderiv_string(data))
            full = (kb["val"] + data) if kb["val"] else None
        else:
            mech = Mech(K.CKM_CONCATENATE_DATA_AND_BASE, p11.keyderiv_string(data))
            full = (data + kb["val"]) if kb["val"] else None
        kt, n = KINDS[kind]
        self.made = getattr(self, "made", 0) + 1
        t = self.template(kind, b"derived", private=(self.made % 2 == 0))
        if kt != K.CKK_DES3:
            t.append((K.CKA_VALUE_LEN, n))
        before = self.count()
        bh = kb["h"][1] if kb["kind"] == "rsa" else kb["h"]
        rv, g = p.derive_key(s, mech, bh, t)
        ref = None
        if full is not None and len(full) >= n:
            # PKCS#11: DH / ECDH secrets lose bytes at the LEADING end, the others at the trailing end
            ref = full[len(full) - n:] if m in ("DH", "ECDH") else full[:n]
            if kind == "des3":
                ref = R.des_parity(ref)
        ev = dict(e="Derive", m=m, base=base, d=d, kind=kind, rv=rvname(rv), k=0, v="", ref=h(ref) if ref else "none", kcv="",
                  kcvref="", made=self.count() - before, attrsok=False)
        if rv == 0:
            self.nk += 1
            got, ev["kcv"], ev["kcvref"] = self.keyinfo(g, kind)
            self.keys[self.nk] = dict(h=g, kind=kind, val=got)
            ev.update(k=self.nk, v=h(got), attrsok=self.attrs_ok(g, b"derived"))
        return ev

    def made_how(self, k):
        """'gen' | 'imp' | 'unwrap' | 'derive': from the label the driver gave the key"""
        kk = self.keys[k]
        g = kk["h"][1] if kk["kind"] == "rsa" else kk["h"]
        rv, d = self.p.get_attrs(self.s, g, [K.CKA_LABEL])
        return {b"imp": "imp", b"gen": "gen", b"unwrapped": "unwrap", b"derived": "derive"}.get(d.get(K.CKA_LABEL), "?") if rv == 0 else "?"

    def history_ok(self, k):
        """the attributes that say how the key was made, against what the driver knows about it"""
        kk = self.keys[k]
        kind = kk["kind"]
        g = kk["h"][1] if kind == "rsa" else kk["h"]
        how = self.made_how(k)
        want = {K.CKA_LOCAL: b"\x01" if how == "gen" else b"\x00",
                K.CKA_CLASS: (K.CKO_PRIVATE_KEY if kind == "rsa" else K.CKO_SECRET_KEY).to_bytes(8, "little"),
                K.CKA_KEY_TYPE: (K.CKK_RSA if kind == "rsa" else KINDS[kind][0]).to_bytes(8, "little")}
        gm = {"aes16": K.CKM_AES_KEY_GEN, "aes32": K.CKM_AES_KEY_GEN, "des3": K.CKM_DES3_KEY_GEN}.get(kind, K.CKM_GENERIC_SECRET_KEY_GEN)
        want[K.CKA_KEY_GEN_MECHANISM] = (gm if how == "gen" else K.CK_UNAVAILABLE_INFORMATION).to_bytes(8, "little")
        if how in ("imp", "unwrap"):
            want[K.CKA_ALWAYS_SENSITIVE] = b"\x00"
            want[K.CKA_NEVER_EXTRACTABLE] = b"\x00"
        # (CKA_VALUE_LEN is not part of this: SoftHSM leaves it 0 on unwrapped keys - noted in DESIGN.md section 10)
        rv, d = self.p.get_attrs(self.s, g, sorted(want))
        bad = [hex(a) for a in sorted(want) if rv != 0 or d.get(a) != want[a]]
        # length attributes (beyond the listed properties): CKA_VALUE_LEN = the length of the value, however the key was made
        self.lennote = ""
        if kind not in ("rsa", "des3") and kind in KINDS:
            r2, d2 = self.p.get_attrs(self.s, g, [K.CKA_VALUE_LEN])
            n = int.from_bytes(d2.get(K.CKA_VALUE_LEN) or b"", "little") if r2 == 0 else -1
            if n != KINDS[kind][1]:
                self.lennote = "CKA_VALUE_LEN of a %d-byte secret key made by %s is %s" % (
                    KINDS[kind][1], {"imp": "C_CreateObject", "gen": "C_GenerateKey", "unwrap": "C_UnwrapKey",
                                     "derive": "C_DeriveKey"}.get(how, how), n if r2 == 0 else rvname(r2))
        return how != "?" and not bad

    def MValue(self, k):
        kk = self.keys[k]
        if kk["kind"] == "rsa":
            val = self.rsa_value(kk["h"][1])
        else:
            val, kcv = self.read(kk["h"], kk["kind"])
        ok = self.history_ok(k)
        ev = dict(e="Value", k=k, rv="OK" if val is not None else "ERR", v=h(val), attrsok=ok)
        if getattr(self, "lennote", ""):
            ev["note"] = self.lennote
        return ev

    def MValueR(self, k):
        """C_Finalize / C_Initialize, every key found again by its CKA_ID, then as MValue"""
        p = self.p
        self.restart()
        rv, self.s = p.open_session(self.slot["t1"], True)
        rv = rv or p.login(self.s, K.CKU_USER, self.pin("P2"))
        if rv:
            raise RuntimeError("session after restart: " + rvname(rv))
        lost = False
        for n, kk in self.keys.items():
            def find(tag):
                r, hs = p.find(self.s, [(K.CKA_ID, tag)])
                return hs[0] if len(hs) == 1 else 0
            if kk["kind"] == "rsa":
                kk["h"] = (find(b"k%dp" % n), find(b"k%d" % n))
            elif "pub" in kk:
                kk["h"] = find(b"k%d" % n)
            else:
                kk["h"] = find(b"k%d" % n)
                lost = lost or not kk["h"]
        ev = self.MValue(k)
        ev["e"] = "ValueR"
        if lost:
            ev["attrsok"] = False
        return ev

    # ---- operations
    def parts(self, data, ch):
        if CHUNKS[ch] is None:
            return None
        out, i = [], 0
        for n in CHUNKS[ch]:
            if i >= len(data) and out:
                break
            out.append(data[i:i + n])
            i += n
        return out

    def run(self, kind, mech, key, data, ch):
        """Encrypt / Decrypt / Sign / Digest: single-part (ch 0) or Update* + Final.  -> (rv, bytes)"""
        p, s = self.p, self.s
        rv = p.op_init(kind, s, mech, key)
        if rv:
            return rv, None
        parts = self.parts(data, ch)
        if parts is None:
            if ch == 4:
                r = p.op_io(kind, s, data, 1)
                if r["rv"] == 0:
                    return 0, r["out"][:r["len"]]
                if r["rv"] != K.CKR_BUFFER_TOO_SMALL:
                    return r["rv"], None
            return p.io_full(kind, s, data)
        out = b""
        for part in parts:
            if kind in ("Sign", "Digest"):
                rv = p.op_update("%sUpdate" % kind, s, part)
                if rv:
                    return rv, None
            else:
                rv, o = p.io_full("%sUpdate" % kind, s, part)
                if rv:
                    return rv, None
                out += o
        if ch == 5:
            r = p.op_final("%sFinal" % kind, s, 1)
            if r["rv"] == 0:
                return 0, out + r["out"][:r["len"]]
            if r["rv"] != K.CKR_BUFFER_TOO_SMALL:
                return r["rv"], None
        rv, o = p.final_full("%sFinal" % kind, s)
        if rv:
            return rv, None
        return 0, out + o

    def verify(self, mech, key, data, sig, ch):
        p, s = self.p, self.s
        rv = p.op_init("Verify", s, mech, key)
        if rv:
            return rv
        parts = self.parts(data, ch)
        if parts is None:
            return p.verify(s, data, sig)
        for part in parts:
            rv = p.op_update("VerifyUpdate", s, part)
            if rv:
                return rv
        return p.verify_final(s, sig)

    def MCrypt(self, mode, k, d, ch):
        kk = self.keys[k]
        data = data_of(d)
        val = kk["val"]
        ev = dict(e="Crypt", mode=mode, k=k, d=d, ch=ch, len=len(data), rv="", v="", ref="", rt=False, tamper=True)
        if mode == "eddsa":
            e = TK.ED25519
            rv, sig = self.run("Sign", Mech(K.CKM_EDDSA), kk["h"], data, 0)
            ev["rv"] = rvname(rv)
            if rv == 0:
                ev.update(v=h(sig), ref=h(R.ed25519_sign(e["d"], data)))
                ev["rt"] = self.verify(Mech(K.CKM_EDDSA), kk["pub"], data, sig, 0) == 0
                ev["tamper"] = (self.verify(Mech(K.CKM_EDDSA), kk["pub"], data + b"x", sig, 0) != 0 and
                                self.verify(Mech(K.CKM_EDDSA), kk["pub"], data, flip(sig, 3), 0) != 0 and
                                self.verify(Mech(K.CKM_EDDSA), kk["pub"], data, flip(sig, 40), 0) != 0)
            return ev
        if mode == "rsa-x509":
            pub, priv = kk["h"]
            key = rsa_ints()
            k = (key["n"].bit_length() + 7) // 8
            msg = data[:k - 1]
            rv, sig = self.run("Sign", Mech(K.CKM_RSA_X_509), priv, msg, 0)
            ev["rv"] = rvname(rv)
            if rv == 0:
                ref = pow(int.from_bytes(msg, "big"), key["d"], key["n"]).to_bytes(k, "big")
                ev.update(v=h(sig), ref=h(ref))
                ev["rt"] = self.verify(Mech(K.CKM_RSA_X_509), pub, msg, sig, 0) == 0
                ev["tamper"] = self.verify(Mech(K.CKM_RSA_X_509), pub, msg, flip(sig, 9), 0) != 0
            return ev
        if mode in ("aes-gcm2", "aes-ctr64"):
            iv16 = IVS[2]
            aad = b""
            if mode == "aes-gcm2":
                mk = lambda: Mech(K.CKM_AES_GCM, p11.gcm_params(iv16, aad, 96))
                ref = R.gcm_encrypt(val, iv16, aad, data, 12)
            else:
                mk = lambda: Mech(K.CKM_AES_CTR, p11.ctr_params(64, iv16))
                ref = R.ctr(val, iv16, 64, data)
            rv, ct = self.run("Encrypt", mk(), kk["h"], data, ch)
            ev["rv"] = rvname(rv)
            if rv == 0:
                ev.update(v=h(ct), ref=h(ref))
                rv2, pt = self.run("Decrypt", mk(), kk["h"], ct, ch)
                ev["rt"] = rv2 == 0 and pt == data
                if mode == "aes-gcm2":
                    r3, p3 = self.run("Decrypt", mk(), kk["h"], flip(ct, len(ct) - 1), ch)
                    r4, p4 = self.run("Decrypt", mk(), kk["h"], ct[:-1], ch)
                    ev["tamper"] = r3 != 0 and r4 != 0
            return ev
        fam, m = mode.split("-", 1)
        if fam in ("aes", "des3") and m in ("ecb", "cbc", "cbcpad", "ctr", "gcm"):
            bs = 16 if fam == "aes" else 8
            iv = IVS[1][:bs]
            aad = b"associated data"
            M = {("aes", "ecb"): K.CKM_AES_ECB, ("aes", "cbc"): K.CKM_AES_CBC, ("aes", "cbcpad"): K.CKM_AES_CBC_PAD,
                 ("aes", "ctr"): K.CKM_AES_CTR, ("aes", "gcm"): K.CKM_AES_GCM, ("des3", "ecb"): K.CKM_DES3_ECB,
                 ("des3", "cbcpad"): K.CKM_DES3_CBC_PAD}[(fam, m)]

            def mk(iv=iv, aad=aad):
                if m == "ecb":
                    return Mech(M)
                if m == "ctr":
                    return Mech(M, p11.ctr_params(128, iv))
                if m == "gcm":
                    return Mech(M, p11.gcm_params(iv[:12], aad, 128))
                return Mech(M, iv)
            rv, ct = self.run("Encrypt", mk(), kk["h"], data, ch)
            ev["rv"] = rvname(rv)
            if rv == 0:
                ref = {"ecb": lambda: R.ecb(fam, val, data), "cbc": lambda: R.cbc(fam, val, iv, data),
                       "cbcpad": lambda: R.cbc(fam, val, iv, data, pad=True), "ctr": lambda: R.ctr(val, iv, 128, data),
                       "gcm": lambda: R.gcm_encrypt(val, iv[:12], aad, data, 16)}[m]()
                ev.update(v=h(ct), ref=h(ref) if ref is not None else "none")
                rv2, pt = self.run("Decrypt", mk(), kk["h"], ct, ch)
                ev["rt"] = rv2 == 0 and pt == data
                if m == "gcm":
                    bad = []
                    for c2, mk2 in ((flip(ct, 0), mk()), (flip(ct, len(ct) - 1), mk()), (ct, mk(aad=flip(aad))),
                                    (ct, mk(iv=flip(iv))), (ct[:-1], mk())):
                        r3, p3 = self.run("Decrypt", mk2, kk["h"], c2, ch)
                        bad.append(r3 != 0)
                    ev["tamper"] = all(bad)
            return ev
        if m == "cmac" or fam == "hmac":
            if fam == "hmac":
                M = {"sha256": K.CKM_SHA256_HMAC, "sha1": K.CKM_SHA_1_HMAC, "sha512": K.CKM_SHA512_HMAC}[m]
                ref = R.hmac(m, val, data)
            else:
                M = K.CKM_AES_CMAC if fam == "aes" else K.CKM_DES3_CMAC
                ref = R.cmac(fam, val, data)
            rv, sig = self.run("Sign", Mech(M), kk["h"], data, ch)
            ev["rv"] = rvname(rv)
            if rv == 0:
                ev.update(v=h(sig), ref=h(ref))
                ev["rt"] = self.verify(Mech(M), kk["h"], data, sig, ch) == 0
                ev["tamper"] = (self.verify(Mech(M), kk["h"], flip(data) if data else b"x", sig, ch) != 0 and
                                self.verify(Mech(M), kk["h"], data, flip(sig), ch) != 0 and
                                self.verify(Mech(M), kk["h"], data, sig[:-1], ch) != 0)
            return ev
        # deterministic RSA signatures
        pub, priv = kk["h"]
        key = rsa_ints()
        if mode == "rsa-pkcs":
            M, ref = K.CKM_RSA_PKCS, R.rsa_sign_pkcs1(key, None, data)
            ch = 0
            ev["ch"] = ch if False else ev["ch"]
        else:
            M, ref = K.CKM_SHA256_RSA_PKCS, R.rsa_sign_pkcs1(key, "sha256", data)
        rv, sig = self.run("Sign", Mech(M), priv, data, ch if mode != "rsa-pkcs" else 0)
        ev["rv"] = rvname(rv)
        if rv == 0:
            ev.update(v=h(sig), ref=h(ref))
            c2 = ch if mode != "rsa-pkcs" else 0
            ev["rt"] = self.verify(Mech(M), pub, data, sig, c2) == 0
            ev["tamper"] = (self.verify(Mech(M), pub, flip(data) if data else b"x", sig, c2) != 0 and
                            self.verify(Mech(M), pub, data, flip(sig, 5), c2) != 0)
        return ev

    def MDigest(self, mode, d, ch):
        data = data_of(d)
        M = {"sha1": K.CKM_SHA_1, "sha256": K.CKM_SHA256, "sha512": K.CKM_SHA512, "md5": K.CKM_MD5}[mode]
        rv, dg = self.run("Digest", Mech(M), None, data, ch)
        return dict(e="Digest", mode=mode, d=d, ch=ch, rv=rvname(rv), v=h(dg), ref=h(R.digest(mode, data)))

    def MRCrypt(self, mode, k, d):
        kk = self.keys[k]
        data = data_of(d)
        if mode == "dsa-sha256":
            dk = {k2: int.from_bytes(v2, "big") for k2, v2 in TK.DSA1024.items()}
            dg = hashlib.sha256(data).digest()
            ev = dict(e="RCrypt", mode=mode, k=k, d=d, rv="", refok=False, libok=False, tamper=True)
            rv, sig = self.run("Sign", Mech(K.CKM_DSA_SHA256), kk["h"], data, 0)
            ev["rv"] = rvname(rv)
            if rv == 0:
                ev["refok"] = R.dsa_verify(dk, dg, sig)
                mine = R.dsa_sign(dk, dg, 1 + self.rng.randrange(dk["q"] - 2))
                ev["libok"] = self.verify(Mech(K.CKM_DSA_SHA256), kk["pub"], data, mine, 0) == 0
                ev["tamper"] = (self.verify(Mech(K.CKM_DSA_SHA256), kk["pub"], data + b"x", sig, 0) != 0 and
                                self.verify(Mech(K.CKM_DSA_SHA256), kk["pub"], data, flip(sig, 30), 0) != 0)
            return ev
        if mode == "ecdsa":
            # CKM_ECDSA signs a digest the caller computed; r || s
            e = TK.EC_P256
            dg = hashlib.sha256(data).digest()
            pt = e["point"][-64:]
            pubxy = (int.from_bytes(pt[:32], "big"), int.from_bytes(pt[32:], "big"))
            ev = dict(e="RCrypt", mode=mode, k=k, d=d, rv="", refok=False, libok=False, tamper=True)
            rv, sig = self.run("Sign", Mech(K.CKM_ECDSA), kk["h"], dg, 0)
            ev["rv"] = rvname(rv)
            if rv == 0:
                ev["refok"] = R.ecdsa_verify_p256(pubxy, dg, sig)
                mine = R.ecdsa_sign_p256(int.from_bytes(e["d"], "big"), dg, 1 + self.rng.randrange(2 ** 200))
                ev["libok"] = self.verify(Mech(K.CKM_ECDSA), kk["pub"], dg, mine, 0) == 0
                ev["tamper"] = (self.verify(Mech(K.CKM_ECDSA), kk["pub"], flip(dg), sig, 0) != 0 and
                                self.verify(Mech(K.CKM_ECDSA), kk["pub"], dg, flip(sig, 40), 0) != 0 and
                                not R.ecdsa_verify_p256(pubxy, flip(dg), sig))
            return ev
        pub, priv = kk["h"]
        key = rsa_ints()
        ev = dict(e="RCrypt", mode=mode, k=k, d=d, rv="", refok=False, libok=False, tamper=True)
        rnd = lambda n: bytes(self.rng.randrange(256) for _ in range(n))
        if mode == "sha256-rsa-pss":
            M = Mech(K.CKM_SHA256_RSA_PKCS_PSS, p11.pss_params(K.CKM_SHA256, K.CKG_MGF1_SHA256, 32))
            rv, sig = self.run("Sign", M, priv, data, 0)
            ev["rv"] = rvname(rv)
            if rv == 0:
                ev["refok"] = R.rsa_verify_pss(key, "sha256", data, sig, 32)
                ev["libok"] = self.verify(M, pub, data, sig, 0) == 0
                ev["tamper"] = (self.verify(M, pub, data + b"x", sig, 0) != 0 and self.verify(M, pub, data, flip(sig, 7), 0) != 0
                                and not R.rsa_verify_pss(key, "sha256", data + b"x", sig, 32))
            return ev
        if mode in ("rsa-oaep", "rsa-pkcs-enc"):
            msg = data[:40]
            M = Mech(K.CKM_RSA_PKCS_OAEP, p11.oaep_params()) if mode == "rsa-oaep" else Mech(K.CKM_RSA_PKCS)
            rv, ct = self.run("Encrypt", M, pub, msg, 0)
            ev["rv"] = rvname(rv)
            if rv == 0:
                got = R.rsa_decrypt_oaep(key, "sha1", ct) if mode == "rsa-oaep" else R.rsa_decrypt_pkcs1(key, ct)
                ev["refok"] = got == msg
                mine = R.rsa_encrypt_oaep(key, "sha1", msg, rnd) if mode == "rsa-oaep" else R.rsa_encrypt_pkcs1(key, msg, rnd)
                rv2, pt = self.run("Decrypt", M, priv, mine, 0)
                ev["libok"] = rv2 == 0 and pt == msg
                if mode == "rsa-oaep":
                    rv3, pt3 = self.run("Decrypt", M, priv, flip(ct, 9), 0)
                    ev["tamper"] = rv3 != 0
            return ev
        raise ValueError(mode)


def one(lib, bfile, out, workdir, seed, cfg):
    backend = cfg.split("-")[1]
    behaviours = json.load(open(bfile))
    os.makedirs(workdir, exist_ok=True)
    d = ValDriver(lib, workdir, int(seed), backend)
    d.blobmeta = {}
    em = Emitter(out)
    for i, beh in enumerate(behaviours):
        em.emit({"e": "Reset", "b": i, "cfg": cfg})
        d.reset()
        d.blobmeta = {}
        if i == 0:
            for ev in d.probe():
                em.emit(ev)
        for label in beh:
            name, a = parse_call(label)
            try:
                ev = d.step(label)
            except KeyError:
                # the behaviour took the other branch of a nondeterministic step (an unprotected unwrap under the wrong
                # key may fail or give some key): the key or blob this label names does not exist here
                break
            if name == "MWrap" and ev.get("b"):
                d.blobmeta[ev["b"]] = dict(iv=a[3], kind=d.keys[a[2]]["kind"])
            em.emit(ev)
        em.flush()
    d.shutdown()
    em.close()


def main():
    if sys.argv[1] == "--one":
        return one(*sys.argv[2:8])
    lib, bfile, out, workdir, seed, cfgs = sys.argv[1:7]
    botan = sys.argv[7] if len(sys.argv) > 7 else None
    os.makedirs(workdir, exist_ok=True)
    per = []         # per configuration: list of executions (lists of lines)
    died = None
    for cfg in cfgs.split(","):
        l = botan if cfg.startswith("botan") else lib
        o = os.path.join(workdir, cfg + ".ndjson")
        r = subprocess.run([sys.executable, "-m", "vf.drv_val", "--one", l, bfile, o, os.path.join(workdir, cfg), seed, cfg],
                           cwd=ROOTDIR, env=dict(os.environ, PYTHONPATH=ROOTDIR), stderr=subprocess.PIPE)
        ex = []
        if os.path.exists(o):
            for line in open(o):
                if line.startswith('{"e":"Reset"'):
                    ex.append([])
                if ex:
                    ex[-1].append(line if line.endswith("\n") else line + "\n")
        per.append(ex)
        if r.returncode == 3:
            sys.stderr.write(r.stderr.decode()[-1500:])
            sys.exit(3)
        if r.returncode != 0:
            died = cfg
            break
    # the executions of one behaviour under all configurations follow each other (the trace specification compares them
    # and forgets the bytes of a behaviour when the next one begins)
    with open(out, "w") as f:
        for b in range(max(len(ex) for ex in per) if per else 0):
            for ex in per:
                if b < len(ex):
                    f.writelines(ex[b])
        if died:
            f.write('{"e":"ProcessDied","cfg":"%s"}\n' % died)


if __name__ == "__main__":
    from .harness import run_main
    run_main(main)
