"""Driver for the behaviours of MC_Ops (C12: one active operation per session, output-length protocol).

Every library call that belongs to an operation is logged as one event with the announced buffer size, the return
value, the reported length, the bytes actually written (found by comparing the canary-filled buffer) and whether
everything behind the announced size / the reported length stayed untouched.  Before a call with a real buffer the
driver asks for the length (NULL pointer) - that query is a logged call too - and announces L-1 / L / L+7.
Oracle: Trace_Ops.tla.

usage: python3 -m vf.drv_ops <lib> <behaviours.json> <out.ndjson> <workdir> <seed>
"""
import ctypes as C
import json
import sys

from . import p11const as K
from . import p11
from .harness import Harness, Emitter
from .p11 import rvname, Mech, ULONG
from .tlaval import parse_call
from . import testkeys as TK
from . import refcrypto as R
import hashlib
import hmac as HMAC

CAN = 0xA5
BIG = 2147483647


class OpsDriver(Harness):
    def __init__(self, libpath, workdir, seed):
        Harness.__init__(self, libpath, workdir, seed, "file", tokens=("t1",))
        self.ready = False

    def rnd(self, n):
        return bytes(self.rng.randrange(256) for _ in range(n))

    def kb(self, name, n):
        b = self.rnd(n)
        if name == "des3":
            b = bytes((x & 0xfe) | (bin(x >> 1).count("1") % 2 == 0) for x in b)
        if not hasattr(self, "keybytes"):
            self.keybytes = {}
        self.keybytes[name] = b
        return b

    def begin(self):
        p = self.p
        if not self.ready:
            self.setup_tokens("P1", "P2")
            self.ready = True
        else:
            self.restart()
        self.S = {}
        for name in ("s1", "s2"):
            rv, h = p.open_session(self.slot["t1"], True)
            self.S[name] = h
        rv, self.aux = p.open_session(self.slot["t1"], True)        # scaffolding only (makes valid ciphertexts)
        p.login(self.S["s1"], K.CKU_USER, self.pin("P2"))
        s = self.S["s1"]
        mk = lambda t: p.create_object(s, t + [(K.CKA_TOKEN, False), (K.CKA_PRIVATE, False)])[1]
        sec = lambda kt, v: mk([(K.CKA_CLASS, K.CKO_SECRET_KEY), (K.CKA_KEY_TYPE, kt), (K.CKA_VALUE, v),
                                (K.CKA_ENCRYPT, True), (K.CKA_DECRYPT, True), (K.CKA_SIGN, True), (K.CKA_VERIFY, True)])
        r = TK.RSA1024
        e = TK.EC_P256
        d = TK.ED25519
        self.keys = {
            "aes": sec(K.CKK_AES, self.kb("aes", 16)),
            "des3": sec(K.CKK_DES3, self.kb("des3", 24)),
            "gen": sec(K.CKK_GENERIC_SECRET, self.kb("gen", 32)),
            "rsapub": mk([(K.CKA_CLASS, K.CKO_PUBLIC_KEY), (K.CKA_KEY_TYPE, K.CKK_RSA), (K.CKA_MODULUS, r["n"]),
                          (K.CKA_PUBLIC_EXPONENT, r["e"]), (K.CKA_ENCRYPT, True), (K.CKA_VERIFY, True)]),
            "rsapriv": mk([(K.CKA_CLASS, K.CKO_PRIVATE_KEY), (K.CKA_KEY_TYPE, K.CKK_RSA), (K.CKA_MODULUS, r["n"]),
                           (K.CKA_PUBLIC_EXPONENT, r["e"]), (K.CKA_PRIVATE_EXPONENT, r["d"]), (K.CKA_PRIME_1, r["p"]),
                           (K.CKA_PRIME_2, r["q"]), (K.CKA_EXPONENT_1, r["dp"]), (K.CKA_EXPONENT_2, r["dq"]),
                           (K.CKA_COEFFICIENT, r["qi"]), (K.CKA_DECRYPT, True), (K.CKA_SIGN, True)]),
            "ecpub": mk([(K.CKA_CLASS, K.CKO_PUBLIC_KEY), (K.CKA_KEY_TYPE, K.CKK_EC), (K.CKA_EC_PARAMS, e["params"]),
                         (K.CKA_EC_POINT, e["point"]), (K.CKA_VERIFY, True)]),
            "ecpriv": mk([(K.CKA_CLASS, K.CKO_PRIVATE_KEY), (K.CKA_KEY_TYPE, K.CKK_EC), (K.CKA_EC_PARAMS, e["params"]),
                          (K.CKA_VALUE, e["d"]), (K.CKA_SIGN, True)]),
            "edpub": mk([(K.CKA_CLASS, K.CKO_PUBLIC_KEY), (K.CKA_KEY_TYPE, K.CKK_EC_EDWARDS),
                         (K.CKA_EC_PARAMS, d["params"]), (K.CKA_EC_POINT, d["point"]), (K.CKA_VERIFY, True)]),
            "edpriv": mk([(K.CKA_CLASS, K.CKO_PRIVATE_KEY), (K.CKA_KEY_TYPE, K.CKK_EC_EDWARDS),
                          (K.CKA_EC_PARAMS, d["params"]), (K.CKA_VALUE, d["d"]), (K.CKA_SIGN, True)]),
        }
        self.src = {"s1": b"", "s2": b""}       # pending valid ciphertext to feed to a decryption
        self.find_n = {}
        self.cur = {"s1": None, "s2": None}     # the operation the driver believes active: dict(kind, m, mech, key, fed, out)

    # ---- mechanisms for the modes of P11Ops.ModeTable
    def mech_key(self, m, kind):
        enc = kind in ("Encrypt", "Verify")
        iv16, iv8 = self.rnd(16), self.rnd(8)
        tab = {
            "ecb": (Mech(K.CKM_AES_ECB), "aes"), "cbc": (Mech(K.CKM_AES_CBC, iv16), "aes"),
            "cbcpad": (Mech(K.CKM_AES_CBC_PAD, iv16), "aes"),
            "ctr": (Mech(K.CKM_AES_CTR, p11.ctr_params(128, iv16)), "aes"),
            "gcm16": (Mech(K.CKM_AES_GCM, p11.gcm_params(iv16[:12], b"aad-data", 128)), "aes"),
            "gcm4": (Mech(K.CKM_AES_GCM, p11.gcm_params(iv16[:12], b"", 32)), "aes"),
            "des3pad": (Mech(K.CKM_DES3_CBC_PAD, iv8), "des3"), "des3ecb": (Mech(K.CKM_DES3_ECB), "des3"),
            "sha256": (Mech(K.CKM_SHA256), None), "sha1": (Mech(K.CKM_SHA_1), None),
            "hmac": (Mech(K.CKM_SHA256_HMAC), "gen"), "cmac": (Mech(K.CKM_AES_CMAC), "aes"),
            "rsasig": (Mech(K.CKM_SHA256_RSA_PKCS), "rsapub" if enc else "rsapriv"),
            "rsaraw": (Mech(K.CKM_RSA_PKCS), "rsapub" if enc else "rsapriv"),
            "rsapss": (Mech(K.CKM_SHA256_RSA_PKCS_PSS, p11.pss_params(K.CKM_SHA256, K.CKG_MGF1_SHA256, 32)),
                       "rsapub" if enc else "rsapriv"),
            "ecdsa": (Mech(K.CKM_ECDSA), "ecpub" if enc else "ecpriv"),
            "eddsa": (Mech(K.CKM_EDDSA), "edpub" if enc else "edpriv"),
            "rsaenc": (Mech(K.CKM_RSA_PKCS), "rsapub" if enc else "rsapriv"),
            "rsaoaep": (Mech(K.CKM_RSA_PKCS_OAEP, p11.oaep_params()), "rsapub" if enc else "rsapriv"),
        }
        return tab[m]

    def init(self, sname, kind, m):
        p, s = self.p, self.S[sname]
        if kind == "Find":
            return p.find_init(s, [])
        mech, key = self.mech_key(m, kind)
        if kind == "Digest":
            rv = p.op_init("Digest", s, mech)
            if rv == 0:
                self.cur[sname] = dict(kind=kind, m=m, mech=mech, key=None, fed=b"", out=b"")
            return rv
        if kind == "Decrypt" and key in ("aes", "des3"):
            # a valid ciphertext (made through the other session) to feed, so that Final can succeed
            o = self.aux
            pt = self.rnd(self.rng.choice([0, 5, 16, 31, 40]) if m in ("cbcpad", "des3pad", "ctr", "gcm16", "gcm4")
                          else self.rng.choice([0, 16, 32, 48]) if m != "des3ecb" else self.rng.choice([0, 8, 24]))
            self.src[sname] = b""
            if p.op_init("Encrypt", o, mech, self.keys[key]) == 0:
                rv, ct = p.io_full("Encrypt", o, pt)
                if rv == 0 and ct is not None:
                    self.src[sname] = ct
                else:
                    p.op_io("Encrypt", o, b"", 0)
        elif kind == "Decrypt" and key == "rsapriv":
            o = self.aux
            self.src[sname] = b""
            emech, ekey = self.mech_key(m, "Encrypt")
            if p.op_init("Encrypt", o, emech, self.keys[ekey]) == 0:
                rv, ct = p.io_full("Encrypt", o, self.rnd(20))
                if rv == 0 and ct:
                    self.src[sname] = ct
        else:
            self.src[sname] = b""
        rv = p.op_init(kind, s, mech, self.keys[key])
        if rv == 0:
            self.cur[sname] = dict(kind=kind, m=m, mech=mech, key=key, fed=b"", out=b"")
        return rv

    def take(self, sname, fn, n):
        if fn.startswith("Decrypt") and self.src[sname]:
            if fn == "Decrypt":       # single part: the whole valid ciphertext (n is only a size class here)
                d, self.src[sname] = self.src[sname], b""
                return d if n != 1 else d[:-1] or b"\x00"
            d, self.src[sname] = self.src[sname][:n], self.src[sname][n:]
            if len(d) == n:
                return d
            return d + self.rnd(n - len(d))
        return self.rnd(n)

    # ---- one logged library call with an output buffer
    def raw_call(self, sname, fn, data, a):
        """a = -1: NULL output pointer.  returns event fields"""
        lib = self.p.lib
        s = self.S[sname]
        f = getattr(lib, "C_" + fn)
        n = ULONG(max(a, 0))
        takes = not fn.endswith("Final")
        inb = p11.buf_ptr(data) if takes else None
        if a < 0:
            rv = f(s, inb, len(data), None, C.byref(n)) if takes else f(s, None, C.byref(n))
            return self.account(sname, fn, data, dict(a=-1, rv=rvname(rv), L=min(n.value, BIG), w=0, guard=True), b"")
        size = a + 64
        b = (C.c_ubyte * size)(*([CAN] * size))
        rv = f(s, inb, len(data), b, C.byref(n)) if takes else f(s, b, C.byref(n))
        raw = bytes(b)
        L = n.value
        # bytes written = index after the last byte that differs from the canary (a written 0xA5 at the end cannot
        # be told from an untouched byte; the reported length is used when it is larger and within the buffer)
        w = 0
        for i in range(size - 1, -1, -1):
            if raw[i] != CAN:
                w = i + 1
                break
        guard = w <= a
        if rv == 0:
            guard = guard and w <= L
            w = L if L <= a else w
        else:
            guard = guard and w == 0 if rv == K.CKR_BUFFER_TOO_SMALL else guard
        return self.account(sname, fn, data, dict(a=a, rv=rvname(rv), L=min(L, BIG), w=min(w, BIG), guard=bool(guard)),
                            raw[:L] if rv == 0 and L <= a else b"")

    # ---- what the finished operation delivered, against a reference over exactly the accepted input
    def account(self, sname, fn, data, res, outb):
        c = self.cur.get(sname)
        ends = fn in ("Encrypt", "EncryptFinal", "Decrypt", "DecryptFinal", "Digest", "DigestFinal", "Sign", "SignFinal")
        if c is None or not fn.startswith(c["kind"]):
            return res
        if res["rv"] == "OK" and res["a"] >= 0:
            # (a single-part call on an operation that multi-part calls have already fed has no defined result)
            mixed = ends and not fn.endswith("Final") and c.get("upd")
            c["fed"] += data
            c["out"] += outb
            c["upd"] = True
            if ends:
                res["fedn"] = len(c["fed"])
                res["val"] = "na" if mixed else self.judge(c)
                self.cur[sname] = None
        elif res["rv"] not in ("OK", "BUFFER_TOO_SMALL"):
            self.cur[sname] = None
        return res

    def judge(self, c):
        """-> 'ok' | 'bad' | 'na' """
        m, kind, fed, out = c["m"], c["kind"], c["fed"], c["out"]
        kb = self.keybytes
        try:
            if kind == "Digest":
                return "ok" if out == hashlib.new({"sha256": "sha256", "sha1": "sha1"}[m], fed).digest() else "bad"
            if kind == "Sign":
                if m == "hmac":
                    return "ok" if out == HMAC.new(kb["gen"], fed, "sha256").digest() else "bad"
                if m == "cmac":
                    return "ok" if out == R.cmac("aes", kb["aes"], fed) else "bad"
                key = {k2: int.from_bytes(v2, "big") for k2, v2 in TK.RSA1024.items()}
                if m == "rsasig":
                    return "ok" if out == R.rsa_sign_pkcs1(key, "sha256", fed) else "bad"
                if m == "rsaraw":
                    return "ok" if out == R.rsa_sign_pkcs1(key, None, fed) else "bad"
                if m == "rsapss":
                    return "ok" if R.rsa_verify_pss(key, "sha256", fed, out, 32) else "bad"
                return "na"
            if kind == "Encrypt" and c["key"] in ("aes", "des3"):
                # the library's own inverse (through the scaffolding session, same mechanism parameters) gives the input back
                p, o = self.p, self.aux
                if p.op_init("Decrypt", o, c["mech"], self.keys[c["key"]]) != 0:
                    return "na"
                rv, pt = p.io_full("Decrypt", o, out)
                if rv != 0:
                    p.op_io("Decrypt", o, b"", 0)
                    return "bad"
                return "ok" if pt == fed else "bad"
        except Exception:
            return "na"
        return "na"

    def call(self, em, sname, fn, n, bc):
        p = self.p
        s = self.S[sname]
        base = dict(e="Call", s=sname, fn=fn)
        if fn in ("DigestUpdate", "SignUpdate", "VerifyUpdate"):
            d0 = self.rnd(n)
            rv = p.op_update(fn, s, d0)
            self.account(sname, fn, d0, dict(a=0, rv=rvname(rv)), b"")
            em.emit(dict(base, n=n, a=0, rv=rvname(rv), L=0, w=0, guard=True))
            return
        if fn == "Verify":
            rv = p.verify(s, self.rnd(n), self.rnd(self.rng.choice([16, 32, 64, 128])))
            em.emit(dict(base, n=n, a=0, rv=rvname(rv), L=0, w=0, guard=True))
            return
        if fn == "VerifyFinal":
            rv = p.verify_final(s, self.rnd(self.rng.choice([16, 32, 64, 128])))
            em.emit(dict(base, n=0, a=0, rv=rvname(rv), L=0, w=0, guard=True))
            return
        if fn == "FindObjects":
            rv, hs, cnt = p.find_next(s, 4)
            em.emit(dict(base, n=0, a=0, rv=rvname(rv), L=0, w=0, guard=True))
            return
        if fn == "FindObjectsFinal":
            rv = p.find_final(s)
            em.emit(dict(base, n=0, a=0, rv=rvname(rv), L=0, w=0, guard=True))
            return
        takes = not fn.endswith("Final")
        nn = n if takes else 0
        data = self.take(sname, fn, nn) if takes else b""
        nn = len(data) if takes else 0
        q = self.raw_call(sname, fn, data, -1)
        em.emit(dict(base, n=nn, **q))
        consumed = q["rv"] not in ("OK", "BUFFER_TOO_SMALL")       # a failing call may have ended the operation
        if bc != "null" and q["rv"] == "OK" and q["L"] <= (1 << 20):      # (an absurd length is rejected as it is)
            L = q["L"]
            a = {"small": max(L - 1, 0), "exact": L, "large": L + 7}[bc]
            c = self.raw_call(sname, fn, data, a)
            em.emit(dict(base, n=nn, **c))
            consumed = c["rv"] != "BUFFER_TOO_SMALL"
            if c["rv"] == "BUFFER_TOO_SMALL" and c["L"] <= (1 << 20) and self.rng.random() < 0.5:
                # retry with the length just reported: it must be accepted (sufficiency)
                c2 = self.raw_call(sname, fn, data, c["L"])
                em.emit(dict(base, n=nn, **c2))
                consumed = c2["rv"] != "BUFFER_TOO_SMALL"
        if takes and fn.startswith("Decrypt") and not consumed:
            self.src[sname] = data + self.src[sname]                # nothing was consumed: feed it again later

    def run(self, em, beh):
        for label in beh:
            if isinstance(label, (list, tuple)):
                name, a = label[0], list(label[1:])
            else:
                name, a = parse_call(label)
            if name == "MInit":
                rv = self.init(a[0], a[1], a[2])
                em.emit(dict(e="MInit", s=a[0], k=a[1], m=a[2], rv=rvname(rv)))
            elif name == "MCall":
                self.call(em, a[0], a[1], a[2], a[3])
            else:
                raise ValueError(str(label))


def main():
    lib, bfile, out, workdir, seed = sys.argv[1:6]
    behaviours = json.load(open(bfile))
    d = OpsDriver(lib, workdir, int(seed))
    em = Emitter(out)
    for i, beh in enumerate(behaviours):
        d.begin()
        em.emit({"e": "Reset", "b": i})
        d.run(em, beh)
        em.flush()
    d.shutdown()
    em.close()


if __name__ == "__main__":
    from .harness import run_main
    run_main(main)
