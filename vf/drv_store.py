"""Driver for the behaviours of MC_Store (C05 persistence, C06 encryption at rest, C09 failed calls).

After every call three projections are recorded:
  api    every object the acting library instance returns, with the value of every attribute slot
  fresh  the same, seen by a NEW PROCESS on the token directory (optional, --fresh)
  disk   the token directory decoded by the independent decoder vf/tokdec.py with the user PIN: per object and
         slot the value and its storage form (plain / enc), files that are not decodable objects, and the C06
         side conditions (plaintext scan, IV reuse, master key in clear, mode bits outside objectstore.umask)
Oracle: Trace_Store.tla.

usage: python3 -m vf.drv_store <lib> <behaviours.json> <out.ndjson> <workdir> <seed> <backend> <fresh 0|1> <umask-octal> [big]
"""
import ctypes
import json
import os
import subprocess
import sys

from . import p11const as K
from . import tokdec
from .harness import Harness, Emitter
from .p11 import rvname, Mech, keyderiv_string, UNAVAIL
from .tlaval import parse_call

SLOT_ATTR = {"lab": K.CKA_LABEL, "val": K.CKA_VALUE, "date": K.CKA_START_DATE, "flag": K.CKA_ENCRYPT,
             "mech": K.CKA_ALLOWED_MECHANISMS, "tmpl": K.CKA_WRAP_TEMPLATE}
MECHS = {"m1": [K.CKM_SHA256_HMAC, K.CKM_SHA_1_HMAC], "m2": [K.CKM_SHA512_HMAC], "none": []}
TMPL_T1 = [(K.CKA_CLASS, K.CKO_SECRET_KEY), (K.CKA_LABEL, b"wrapped-by-template")]
TMPL_T1_DISK = {K.CKA_CLASS: ("ulong", K.CKO_SECRET_KEY), K.CKA_LABEL: ("bytes", b"wrapped-by-template")}
READ = [K.CKA_ID, K.CKA_TOKEN, K.CKA_PRIVATE, K.CKA_LABEL, K.CKA_VALUE, K.CKA_START_DATE, K.CKA_ENCRYPT,
        K.CKA_ALLOWED_MECHANISMS]


def untag(b):
    try:
        s = (b or b"").decode()
        return int(s[1:]) if s.startswith("o") else -1
    except Exception:
        return -1


class Values(object):
    """symbol <-> bytes for one execution"""

    def __init__(self, rng, big):
        r = lambda n: bytes(rng.randrange(256) for _ in range(n))
        self.b = {"x": b"X" + r(20), "y": b"Y" + r(39), "": b"", "big": b"B" + r(big - 1),
                  "d1": b"20250101", "d2": b"20261231"}
        self.rev = {v: k for k, v in self.b.items()}

    def sym(self, v):
        if v is None:
            return "!unreadable"
        return self.rev.get(bytes(v), "?")


CLS = ["secret"]


def read_objects(p, s, vals):
    """api projection through session s"""
    rv, hs = p.find(s, [])
    out = []
    untagged = 0
    cert = CLS[0] == "cert"
    for g in hs:
        rv, d = p.get_attrs(s, g, READ[:6] if cert else READ)
        oid = untag(d.get(K.CKA_ID)) if d else -1
        if oid < 0:
            untagged += 1
            continue
        mech = d.get(K.CKA_ALLOWED_MECHANISMS)
        ml = sorted(int.from_bytes(mech[i:i + 8], "little") for i in range(0, len(mech or b""), 8))
        msym = [k for k, v in MECHS.items() if sorted(v) == ml]
        rvt, q = p.get_attrs_raw(s, g, [K.CKA_WRAP_TEMPLATE], [None])
        tn = q[0][0] if rvt == 0 else -1
        rvu, qu = p.get_attrs_raw(s, g, [K.CKA_UNWRAP_TEMPLATE], [None])
        un = qu[0][0] if rvu == 0 else -1
        if cert:
            tn = un = 0
        out.append(dict(id=oid, tok=d.get(K.CKA_TOKEN) == b"\x01", priv=d.get(K.CKA_PRIVATE) == b"\x01", rv=rvname(rv),
                        a=dict(lab=vals.sym(d.get(K.CKA_LABEL)), val=vals.sym(d.get(K.CKA_VALUE)),
                               date=vals.sym(d.get(K.CKA_START_DATE)),
                               flag="T" if d.get(K.CKA_ENCRYPT) == b"\x01" else "F",
                               mech=msym[0] if msym else "!other",
                               tmpl="none" if tn == 0 else ("t1" if tn == 2 * 24 else "!other"),
                               utmpl="none" if un == 0 else "!other")))
    return dict(objs=sorted(out, key=lambda o: o["id"]), untagged=untagged)


def helper_main(lib, conf, valfile, pinhex):
    from .p11 import P11
    os.environ["SOFTHSM2_CONF"] = conf
    p = P11(lib)
    pin = bytes.fromhex(pinhex)
    for line in sys.stdin:
        if line.strip() != "probe":
            break
        vals = Values.__new__(Values)
        vd = json.load(open(valfile))
        vals.b = {k: bytes.fromhex(v) for k, v in vd.items()}
        vals.rev = {v: k for k, v in vals.b.items()}
        rv = p.initialize()
        out = dict(objs=[], untagged=-1, err="init:" + rvname(rv))
        if rv == 0:
            rv, slots = p.slot_list(True)
            for sl in slots:
                rv, ti = p.token_info(sl)
                if rv == 0 and ti["flags"] & K.CKF_TOKEN_INITIALIZED:
                    rv, s = p.open_session(sl, False)
                    rvl = p.login(s, K.CKU_USER, pin)
                    out = read_objects(p, s, vals)
                    if rvl:
                        out["err"] = "login:" + rvname(rvl)
            p.finalize()
        sys.stdout.write(json.dumps(out) + "\n")
        sys.stdout.flush()


class StoreDriver(Harness):
    def __init__(self, libpath, workdir, seed, backend, fresh, umask, big, cls="secret"):
        self.cls = cls
        CLS[0] = cls
        Harness.__init__(self, libpath, workdir, seed, backend, # (softhsm2.conf(5): "in octal" - written with and without leading zeros in turn)
                         conf_extra="objectstore.umask = " + (("%04o" if seed % 2 == 0 else "%o") % umask),
                         tokens=("t1",))
        self.libpath = libpath
        self.want_fresh = fresh
        self.umask = umask
        self.big = int(big)
        self.helper = None

    def rnd(self, n):
        return bytes(self.rng.randrange(256) for _ in range(n))

    # lengths around the powers of two up to 1 MiB: where a length field, a buffer or a limit of the store would break -
    # for the value itself, or for its encrypted form (IV + padded ciphertext: 16 to 32 bytes longer)
    EDGES = sorted(set(2 ** k + d for k in range(4, 21) for d in (-16, -1, 0)))

    def begin(self):
        self.setup_tokens("P1", "P2")
        self.nbeg = getattr(self, "nbeg", -1) + 1
        big = self.big
        self.vals = Values(self.rng, big)
        with open(os.path.join(self.workdir, "vals.json"), "w") as f:
            json.dump({k: v.hex() for k, v in self.vals.b.items()}, f)
        self.open()
        self.made = 0
        self.h = {}
        self.everpriv = {}     # needle bytes -> set of ids that held it in a byte-string slot

    def open(self):
        p = self.p
        rv, self.s = p.open_session(self.slot["t1"], True)
        rv = p.login(self.s, K.CKU_USER, self.pin("P2"))
        assert rv == 0, rvname(rv)

    # ---- helper process (fresh projection)
    def fresh(self):
        if self.helper is None:
            self.helper = subprocess.Popen(
                [sys.executable, "-m", "vf.drv_store", "--helper", self.libpath, self.conf,
                 os.path.join(self.workdir, "vals.json"), self.pin("P2").hex()],
                stdin=subprocess.PIPE, stdout=subprocess.PIPE,
                cwd=os.path.dirname(os.path.dirname(os.path.abspath(__file__))))
        try:
            self.helper.stdin.write(b"probe\n")
            self.helper.stdin.flush()
            line = self.helper.stdout.readline()
            if not line:
                raise IOError("helper died")
            return json.loads(line.decode())
        except Exception as e:
            self.helper = None
            return dict(objs=[], untagged=-1, err="helper:" + str(e))

    # ---- templates
    def concrete(self, tmpl, op):
        out = []
        for a, v in tmpl:
            if a == "bad":
                if v == "unknown":
                    out.append((0x12345678, b"zz"))
                elif v == "readonly":
                    out.append((K.CKA_LOCAL, True))
                elif v == "wrongsize":
                    out.append((K.CKA_ENCRYPT, ("raw", b"\x01\x00")))
                elif v == "inconsistent":
                    out.append((K.CKA_VALUE_LEN, 5) if op == "create" else (K.CKA_CLASS, K.CKO_DATA))
                # mechparam / blob / blobtrunc are realised in the call itself
            elif a in ("lab", "val", "date"):
                out.append((SLOT_ATTR[a], self.vals.b[v]))
            elif a == "flag":
                out.append((K.CKA_ENCRYPT, v == "T"))
            elif a == "mech":
                out.append((K.CKA_ALLOWED_MECHANISMS, MECHS[v]))
            elif a == "tmpl":
                out.append((K.CKA_WRAP_TEMPLATE, TMPL_T1 if v == "t1" else []))
        return out

    def ident(self, oid, tok, private, tmpl=()):
        t = [(K.CKA_TOKEN, bool(tok)), (K.CKA_PRIVATE, bool(private)), (K.CKA_ID, ("o%d" % oid).encode())]
        if self.cls == "cert":
            return t
        t += [(K.CKA_SENSITIVE, False), (K.CKA_EXTRACTABLE, True)]
        if not any(a == "flag" for a, v in tmpl):
            t.append((K.CKA_ENCRYPT, False))          # the specification's Blank object has the flag false
        return t

    def scaffold(self, **kw):
        rv, g = self.p.create_object(self.s, [(K.CKA_CLASS, K.CKO_SECRET_KEY), (K.CKA_KEY_TYPE, K.CKK_AES),
                                              (K.CKA_VALUE, self.rnd(16)), (K.CKA_TOKEN, False), (K.CKA_PRIVATE, False),
                                              (K.CKA_WRAP, True), (K.CKA_UNWRAP, True), (K.CKA_DERIVE, True),
                                              (K.CKA_EXTRACTABLE, True), (K.CKA_SENSITIVE, False)])
        return g if rv == 0 else 0

    def make(self, how, oid, tok, private, tmpl):
        p = self.p
        bads = [v for a, v in tmpl if a == "bad"]
        head = [(K.CKA_CLASS, K.CKO_SECRET_KEY), (K.CKA_KEY_TYPE, K.CKK_GENERIC_SECRET)]
        t = self.concrete(tmpl, how) + self.ident(oid, tok, private, tmpl)
        # the position of the identity attributes relative to the bad entry varies
        if self.rng.random() < 0.5:
            t = self.ident(oid, tok, private, tmpl) + self.concrete(tmpl, how)
        if how == "generate":
            vl = 17000000000 if ("mechparam" in bads or "toolong" in bads or "blobtype" in bads) else 32
            return p.generate_key(self.s, Mech(K.CKM_GENERIC_SECRET_KEY_GEN), t + [(K.CKA_VALUE_LEN, vl)])
        if how == "derive":
            base = self.scaffold()
            data = self.rnd(33 if "mechparam" in bads else 32)
            vlen = 32
            if "toolong" in bads or "blobtype" in bads:
                # the template is fine, but more key bytes are asked for than the mechanism yields: the call fails
                # after the object was made (sometimes with a template that makes the object undestroyable)
                vlen = 64
                if self.rng.random() < 0.5:
                    t.append((K.CKA_DESTROYABLE, False))
            rv, g = p.derive_key(self.s, Mech(K.CKM_AES_ECB_ENCRYPT_DATA, keyderiv_string(data)), base,
                                 head + t + [(K.CKA_VALUE_LEN, vlen)])
            p.destroy_object(self.s, base)
            return rv, g
        if how == "unwrap":
            wk = self.scaffold()
            tmp = self.scaffold()
            rvw, blob, n = p.wrap_key(self.s, Mech(K.CKM_AES_KEY_WRAP), wk, tmp)
            p.destroy_object(self.s, tmp)
            blob = blob or self.rnd(24)
            if "blob" in bads:
                blob = self.rnd(len(blob))
            if "blobtrunc" in bads:
                blob = blob[:self.rng.choice([0, 1, 8, 15, 23])]
            if "blobtype" in bads or "toolong" in bads:
                # a well-formed wrapped SECRET, unwrapped as an RSA / EC private key: it decrypts, but is no PKCS#8
                head = [(K.CKA_CLASS, K.CKO_PRIVATE_KEY), (K.CKA_KEY_TYPE, self.rng.choice([K.CKK_RSA, K.CKK_EC]))]
                t = [x for x in t if x[0] not in (K.CKA_ENCRYPT,)]
                if self.rng.random() < 0.5:
                    t.append((K.CKA_DESTROYABLE, False))
            mech = Mech(K.CKM_AES_KEY_WRAP)
            if "mechparam" in bads:
                mech = Mech(K.CKM_AES_CBC_PAD, self.rnd(5))
            rv, g = p.unwrap_key(self.s, mech, wk, blob, head + t)
            p.destroy_object(self.s, wk)
            return rv, g
        raise ValueError(how)

    # ---- disk projection and the C06 side conditions
    def note_values(self, oid, tmpl_or_src):
        pass

    def disk(self):
        out = dict(objs=[], junk=0, plainhits=[], ivdup=0, masterhits=0, badmode=0, err="")
        tds = tokdec.token_dirs(self.tokdir)
        if len(tds) != 1:
            out["err"] = "tokendirs:%d" % len(tds)
            return out
        try:
            d = tokdec.decode_token(tds[0], {"P2": self.pin("P2")})
        except Exception as e:
            out["err"] = "decode:" + str(e)[:100]
            return out
        if d["master"] is None:
            out["err"] = "nomaster"
        ivs = []
        holders = {}       # value bytes (plaintext, >= 8 long) -> [ids holding it], and whether a public one does
        for o in d["objects"]:
            a = o["attrs"]
            if o["error"] or K.CKA_ID not in a:
                out["junk"] += 1
                continue
            oid = untag(a[K.CKA_ID]["plain"])
            if oid < 0:
                out["junk"] += 1
                continue
            rec = dict(id=oid, priv=o["private"], a={})
            for slot in ("lab", "val", "date"):
                x = a.get(SLOT_ATTR[slot])
                if x is None or x["kind"] != "bytes":
                    rec["a"][slot] = ["!missing", ""]
                    continue
                form = "plain" if x["raw"] == x["plain"] else ("enc" if x["plain"] is not None else "!undecodable")
                rec["a"][slot] = [form, self.vals.sym(x["plain"])]
                if form == "enc":
                    ivs.append((x["raw"][:16], oid, bytes(x["plain"] or b"")))
                if x["plain"] and len(x["plain"]) >= 8:
                    holders.setdefault(bytes(x["plain"]), []).append(oid)
            f = a.get(K.CKA_ENCRYPT)
            rec["a"]["flag"] = ["plain", "T" if (f and f["raw"] is True) else "F"]
            m = a.get(K.CKA_ALLOWED_MECHANISMS)
            ml = None
            if m is not None:
                if m["kind"] == "mechset":
                    ml = sorted(m["raw"])
                elif m["kind"] == "bytes":       # SQLite backend: little-endian array in a blob
                    ml = sorted(int.from_bytes(m["raw"][i:i + 8], "little") for i in range(0, len(m["raw"]), 8))
            msym = [k for k, v in MECHS.items() if ml is not None and sorted(v) == ml]
            rec["a"]["mech"] = ["plain", msym[0] if msym else ("none" if not ml else "!other")]
            t = a.get(K.CKA_WRAP_TEMPLATE)
            if t is None or (t["kind"] == "attrmap" and not t["raw"]) or (t["kind"] == "array" and not t["raw"]):
                ts = "none"
            elif t["kind"] == "attrmap":
                ts = "t1" if t["raw"] == TMPL_T1_DISK else "!other"
            else:
                ts = "t1" if b"wrapped-by-template" in t["raw"] else "!other"
            rec["a"]["tmpl"] = ["plain", ts]
            u = a.get(K.CKA_UNWRAP_TEMPLATE)
            rec["a"]["utmpl"] = ["plain", "none" if (u is None or not u["raw"]) else "!other"]
            out["objs"].append(rec)
        out["objs"].sort(key=lambda o: o["id"])
        # IV reuse: one IV for two different plaintexts, or twice inside one object.  (C_CopyObject of a private
        # object copies the ciphertext of unchanged values verbatim: same IV, same plaintext - not counted.)
        seen = {}
        for iv, oid, pt in ivs:
            seen.setdefault(iv, []).append((oid, pt))
        out["ivdup"] = sum(1 for iv, l in seen.items()
                           if len(set(pt for _, pt in l)) > 1 or len(set(o for o, _ in l)) < len(l))
        needles = list(holders.keys())
        hits = tokdec.contains_plaintext(tds[0], needles)
        groups = set(tuple(sorted(set(holders[needles[i]]))) for _, i in hits)
        out["plainhits"] = [list(g) for g in sorted(groups)]
        if d["master"]:
            out["masterhits"] = len(tokdec.contains_plaintext(self.tokdir, [d["master"]]))
        out["badmode"] = sum(1 for path, mode in tokdec._modes(self.tokdir) if path != "." and mode & self.umask)
        return out

    # ---- actions
    def step(self, label):
        if isinstance(label, (list, tuple)):
            name, a = label[0], list(label[1:])
        else:
            name, a = parse_call(label)
        p = self.p
        ev = {"e": name}
        rv = 0
        lst = lambda t: [list(x) for x in t]
        if name == "MCreate":
            oid = self.made + 1
            t = lst(a[2])
            if self.cls == "cert":
                tm = [(K.CKA_CLASS, K.CKO_CERTIFICATE), (K.CKA_CERTIFICATE_TYPE, K.CKC_X_509),
                      (K.CKA_SUBJECT, b"\x30\x0b\x31\x09\x30\x07\x06\x03\x55\x04\x03\x0c\x00")]
            else:
                tm = [(K.CKA_CLASS, K.CKO_SECRET_KEY), (K.CKA_KEY_TYPE, K.CKK_GENERIC_SECRET)]
            body = self.concrete(t, "create")
            ident = self.ident(oid, a[0], a[1], t)
            full = tm + (ident + body if self.rng.random() < 0.5 else body + ident)
            rv, g = p.create_object(self.s, full)
            ev.update(id=oid, tok=a[0], priv=a[1], t=t, how="create")
        elif name == "MMake":
            oid = self.made + 1
            t = lst(a[3])
            rv, g = self.make(a[0], oid, a[1], a[2], t)
            ev.update(id=oid, tok=a[1], priv=a[2], t=t, how=a[0])
            ev["e"] = "MCreate"
        elif name == "MSet":
            t = lst(a[1])
            rv = p.set_attrs(self.s, self.h.get(a[0], 0), self.concrete(t, "set"))
            ev.update(id=a[0], t=t)
        elif name == "MCopy":
            oid = self.made + 1
            t = lst(a[3])
            rv, g = p.copy_object(self.s, self.h.get(a[0], 0), [(K.CKA_TOKEN, bool(a[1])), (K.CKA_PRIVATE, bool(a[2])),
                                                                (K.CKA_ID, ("o%d" % oid).encode())] + self.concrete(t, "copy"))
            ev.update(id=oid, src=a[0], tok=a[1], priv=a[2], t=t)
        elif name == "MDestroy":
            rv = p.destroy_object(self.s, self.h.get(a[0], 0))
            if rv == 0:
                self.h.pop(a[0], None)
            ev.update(id=a[0])
        elif name == "MRestart":
            p.finalize()
            rv = p.initialize()
            self.map_slots()
            self.open()
            self.h = {}
        else:
            raise ValueError("unknown action " + str(label))
        if name in ("MCreate", "MMake", "MCopy") and rv == 0:
            self.made += 1
            self.h[oid] = g
        ev["rv"] = rvname(rv)
        api = read_objects(p, self.s, self.vals)
        if name == "MRestart":
            rv2, hs = p.find(self.s, [])
            for g in hs:
                rvv, v = p.get_attr(self.s, g, K.CKA_ID)
                if untag(v) > 0:
                    self.h[untag(v)] = g
        ev["api"] = api
        ev["fresh"] = self.fresh() if self.want_fresh else dict(objs=[], untagged=0, skip=True)
        ev["disk"] = self.disk()
        return ev


def main():
    if sys.argv[1] == "--helper":
        return helper_main(*sys.argv[2:6])
    lib, bfile, out, workdir, seed, backend, fresh, umask = sys.argv[1:9]
    big = sys.argv[9] if len(sys.argv) > 9 else "5000"
    cls = sys.argv[10] if len(sys.argv) > 10 else "secret"
    behaviours = json.load(open(bfile))
    d = StoreDriver(lib, workdir, int(seed), backend, fresh == "1", int(umask, 8), big, cls)
    em = Emitter(out)
    try:
        for i, beh in enumerate(behaviours):
            d.begin()
            em.emit({"e": "Reset", "b": i})
            for label in beh:
                if isinstance(label, (list, tuple)) and label[0] == "MEdge":
                    # (not a call: the length of the value that the symbol "big" stands for in this behaviour)
                    d.vals = Values(d.rng, int(label[1]))
                    with open(os.path.join(d.workdir, "vals.json"), "w") as f:
                        json.dump({k: v.hex() for k, v in d.vals.b.items()}, f)
                    continue
                em.emit(d.step(label))
            em.flush()
    finally:
        if d.helper:
            try:
                d.helper.stdin.close()
                d.helper.wait(timeout=5)
            except Exception:
                d.helper.kill()
    d.shutdown()
    em.close()


if __name__ == "__main__":
    from .harness import run_main
    run_main(main)
