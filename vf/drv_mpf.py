"""Coordinator for the behaviours of StoreMP (C15 at file-operation grain): two or three real processes (vf.mpworker
under the LD_PRELOAD shim in gate mode) work on one token object; the coordinator releases their file operations
group by group in the order the TLC behaviour prescribes and records what every step returned.  The behaviour is only a
guide: the trace says what really happened, Trace_MPF.tla judges it.

usage: python3 -m vf.drv_mpf <lib> <behaviours.json> <out.ndjson> <workdir> <seed> <shim.so> <nprocs> [private]
"""
import json
import os
import select
import shutil
import subprocess
import sys

from . import p11const as K
from .harness import Emitter
from .p11 import P11, rvname
from .tlaval import parse_call
from .mpworker import template

ROOTDIR = os.path.dirname(os.path.dirname(os.path.abspath(__file__)))
SO, USER = b"mp-so-pin", b"mp-user-pin"
ATTRNAME = {1: "lab", 2: "id", 3: "sd"}
ORDER = ["refresh", "txlock", "wlock", "trunc", "flush", "txunlock", "rm", "rmlock"]
TIMEOUT = 60.0    # starting a worker / an ungated call on a loaded machine
SHORT = 1.5      # a process that has not moved after this long sits in the kernel waiting for a file lock


def write_conf(wd, backend=None):
    c = os.path.join(wd, "softhsm2.conf")
    bf = os.path.join(wd, "backend")
    if backend is None:
        backend = open(bf).read().strip() if os.path.exists(bf) else "file"
    with open(bf, "w") as f:
        f.write(backend)
    with open(c, "w") as f:
        f.write("directories.tokendir = %s\nobjectstore.backend = %s\nlog.level = ERROR\nslots.removable = false\n"
                % (os.path.join(wd, "tokens"), backend))
    return c


def prepare(lib, wd, private, nobj=1, backend="file"):
    """token with a user PIN and nobj objects o1.."""
    os.makedirs(os.path.join(wd, "tokens"))
    os.environ["SOFTHSM2_CONF"] = write_conf(wd, backend)
    p = P11(lib)
    assert p.initialize() == 0
    rv, slots = p.slot_list(True)
    assert p.init_token(slots[0], SO, b"mp-token") == 0
    p.finalize()
    p.initialize()
    rv, slots = p.slot_list(True)
    sl = [s for s in slots if p.token_info(s)[1]["flags"] & K.CKF_TOKEN_INITIALIZED][0]
    rv, s = p.open_session(sl, True)
    assert p.login(s, K.CKU_SO, SO) == 0 and p.init_pin(s, USER) == 0 and p.logout(s) == 0
    assert p.login(s, K.CKU_USER, USER) == 0
    for k in range(1, nobj + 1):
        rv, g = p.create_object(s, template(k, private))
        assert rv == 0, rvname(rv)
    p.finalize()


class Worker(object):
    def __init__(self, lib, wd, shim, gated=True, login=True):
        self.g_out_r, g_out_w = os.pipe()
        g_in_r, self.g_in_w = os.pipe()
        env = dict(os.environ, PYTHONPATH=ROOTDIR)
        fds = ()
        if gated:
            env.update(LD_PRELOAD=shim, FSSHIM_ROOT=os.path.join(wd, "tokens"), FSSHIM_GATE_IN=str(g_in_r),
                       FSSHIM_GATE_OUT=str(g_out_w))
            fds = (g_in_r, g_out_w)
        self.proc = subprocess.Popen([sys.executable, "-m", "vf.mpworker", lib, os.path.join(wd, "softhsm2.conf"),
                                      USER.hex() if login else "-"], env=env, cwd=ROOTDIR, stdin=subprocess.PIPE,
                                     stdout=subprocess.PIPE, stderr=subprocess.DEVNULL, pass_fds=fds)
        os.close(g_out_w)
        os.close(g_in_r)
        self.buf = b""
        self.gbuf = b""
        self.g_eof = False
        self.pending = None      # the gated operation the process waits to make
        self.reply = None
        self.active = False
        self.phase = "refresh"
        self.dead = False
        self.await_reply = None      # an ungated call (MGet / MFind) that is blocked on a lock another process holds
        self.partial = 0             # operations released for a group that is not complete yet (blocked in between)
        r = self.wait()
        if r != "reply" or self.reply.get("ready") != "OK":
            raise RuntimeError("worker did not start: %r %r" % (r, self.reply))
        self.reply = None

    def send(self, cmd):
        self.reply = None
        self.proc.stdin.write((json.dumps(cmd) + "\n").encode())
        self.proc.stdin.flush()

    def wait(self, timeout=TIMEOUT):
        """-> 'pending' (self.pending set), 'reply' (self.reply set), 'blocked' or 'died'"""
        while True:
            if b"\n" in self.gbuf:
                line, self.gbuf = self.gbuf.split(b"\n", 1)
                n, op, path, x = line.decode().split(" ", 3)
                self.pending = (op, path, x)
                return "pending"
            if b"\n" in self.buf:
                line, self.buf = self.buf.split(b"\n", 1)
                self.reply = json.loads(line)
                return "reply"
            fds = [self.proc.stdout] if self.g_eof else [self.g_out_r, self.proc.stdout]
            r, _, _ = select.select(fds, [], [], timeout)
            if not r:
                return "blocked"
            for fd in r:
                if fd == self.g_out_r:
                    d = os.read(self.g_out_r, 4096)
                    if d:
                        self.gbuf += d
                    elif self.proc.poll() is not None:
                        self.dead = True
                        return "died"
                    else:
                        # end of file on the gate pipe of a live process (an ungated worker has no writer): stop
                        # selecting on it, or a worker that hangs inside the library would be waited for for ever
                        self.g_eof = True
                else:
                    d = os.read(self.proc.stdout.fileno(), 65536)
                    if not d:
                        self.dead = True
                        return "died"
                    self.buf += d

    def release(self):
        self.pending = None
        os.write(self.g_in_w, b"g")

    def call(self, cmd):
        """ungated call"""
        self.send(cmd)
        r = self.wait()
        while r == "pending":          # (a gated process asked although not armed: cannot happen)
            self.release()
            r = self.wait()
        return r, self.reply

    def kill(self):
        try:
            self.proc.kill()
            self.proc.wait(timeout=5)
        except Exception:
            pass
        for fd in (self.g_out_r, self.g_in_w):
            try:
                os.close(fd)
            except OSError:
                pass


def classify(phase, op, path, x):
    if op == "remove":
        return "rm" if path.endswith(".object") else "rmlock"
    if phase == "refresh":
        return "txlock" if path.endswith(".lock") else "refresh"
    if phase == "txlock":
        return "wlock" if (op == "open" and "C" in x and path.endswith(".object")) else "txlock"
    if phase == "wlock":
        return "trunc" if op == "ftruncate" else "wlock"
    if phase == "trunc":
        return "flush"
    if phase == "flush":
        return "txunlock" if path.endswith(".lock") else "flush"
    return phase


class Coordinator(object):
    def __init__(self, lib, wdroot, shim, nprocs, private, template):
        self.lib, self.wdroot, self.shim, self.nprocs, self.private, self.template = lib, wdroot, shim, nprocs, private, template
        self.w = {}
        self.n = 0

    def start(self):
        self.n += 1
        self.wd = os.path.join(self.wdroot, "b%d" % self.n)
        shutil.copytree(self.template, self.wd)
        write_conf(self.wd)
        self.w = {p: Worker(self.lib, self.wd, self.shim) for p in range(1, self.nprocs + 1)}
        self.done = {p: 0 for p in self.w}
        for p, w in self.w.items():
            r, rep = w.call(dict(c="find"))
            if r != "reply" or len(rep.get("found", [])) != 1:
                raise RuntimeError("worker %d does not see the object: %r" % (p, rep))

    def stop(self):
        for w in self.w.values():
            w.kill()
        self.w = {}
        shutil.rmtree(self.wd, ignore_errors=True)

    def advance(self, p, a):
        """releases the operations of p's call up to the end of group a; -> event or None (nothing to do, or p is blocked
        in the kernel on a lock another process holds: it goes on when that process is moved on)"""
        w = self.w[p]
        if not w.active:
            return None
        n = w.partial
        rv = ""
        while True:
            if w.pending is None:
                r = w.wait(SHORT)
                if r == "reply":
                    w.active = False
                    rv = w.reply.get("rv", "?")
                    if rv == "OK" and w.kind == "set":
                        self.done[p] += 1
                    break
                if r == "blocked":
                    w.partial = n
                    return None
                if r == "died":
                    return dict(e="ProcessDied", p=p, a=a)
            g = classify(w.phase, *w.pending)
            if ORDER.index(g) > ORDER.index(a):
                break
            w.phase = g
            w.release()
            n += 1
        w.partial = 0
        if n == 0 and rv == "":
            return None
        return dict(e="S", p=p, a=a, n=n, rv=rv)

    def call_event(self, p, name, rep):
        if rep.get("rv") == "NOHANDLE":
            return None
        if name == "MGet":
            return dict(e="Get", p=p, rv=rep["rv"], vals=rep.get("vals", [0, 0, 0]))
        f = rep.get("found", [])
        return dict(e="Find", p=p, rv=rep["rv"], n=len(f) + rep.get("unreadable", 0), vals=f[0][1:4] if f else [0, 0, 0])

    def step(self, label):
        name, args = parse_call(label)
        p = args[0]
        w = self.w[p]
        if w.await_reply:
            # a blocked ungated call: has it returned meanwhile?  (its linearization point is its return)
            r = w.wait(0.05)
            if r == "reply":
                nm, w.await_reply = w.await_reply, None
                return self.call_event(p, nm, w.reply)
            if r == "died":
                return dict(e="ProcessDied", p=p, a=w.await_reply)
            return None
        if name == "MBegin":
            if w.active or w.await_reply:
                return None
            k = args[1]
            cmd = dict(c=k, k=1, gate=True)
            if k == "set":
                cmd.update(attr=ATTRNAME[p], v=self.done[p] + 1)
            w.send(cmd)
            w.active, w.phase, w.kind, w.pending = True, "refresh", k, None
            r = w.wait()
            if r == "reply":                       # returned without touching the file system
                w.active = False
                return [dict(e="Begin", p=p, k=k), dict(e="S", p=p, a="refresh", n=0, rv=w.reply.get("rv", "?"))]
            if r != "pending":
                return dict(e="Blocked" if r == "blocked" else "ProcessDied", p=p, a="begin")
            return dict(e="Begin", p=p, k=k)
        if name in ("MGet", "MFind"):
            if w.active or w.await_reply:
                return None
            w.send(dict(c="get" if name == "MGet" else "find", k=1))
            r = w.wait(SHORT)
            if r == "blocked":
                w.await_reply = name          # waits for a lock: the answer is collected when it comes
                return None
            if r != "reply":
                return dict(e="ProcessDied", p=p, a=name)
            return self.call_event(p, name, w.reply)
        a = {"MRefresh": "refresh", "MTxLock": "txlock", "MWLock": "wlock", "MTrunc": "trunc", "MFlush": "flush",
             "MTxUnlock": "txunlock", "MRm": "rm", "MRmLock": "rmlock"}[name]
        return self.advance(p, a)

    def drain(self):
        """lets every call in progress run to its end (not part of the trace); -> was everything quiet before?"""
        quiet = not any(w.active or w.await_reply for w in self.w.values())
        for _ in range(400):
            act = [w for w in self.w.values() if w.active or w.await_reply]
            if not act:
                break
            for w in act:
                if w.pending is not None:
                    w.release()
                r = w.wait(0.3)
                if r in ("reply", "died"):
                    w.active = False
                    w.await_reply = None
        return quiet

    def fresh(self):
        w = Worker(self.lib, self.wd, self.shim, gated=False)
        try:
            r, rep = w.call(dict(c="find"))
        finally:
            w.kill()
        if r != "reply":
            return dict(e="Blocked", p=0, a="fresh")
        f = rep.get("found", [])
        return dict(e="Fresh", rv=rep["rv"], n=len(f) + rep.get("unreadable", 0), vals=f[0][1:4] if f else [0, 0, 0])


def main():
    lib, bfile, out, workdir, seed, shim, nprocs = sys.argv[1:8]
    private = len(sys.argv) > 8 and sys.argv[8] == "private"
    behaviours = json.load(open(bfile))
    os.makedirs(workdir, exist_ok=True)
    template = os.path.join(workdir, "template")
    if not os.path.exists(template):
        prepare(lib, template, private)
    co = Coordinator(lib, workdir, shim, int(nprocs), private, template)
    em = Emitter(out)
    for i, beh in enumerate(behaviours):
        em.emit({"e": "Reset", "b": i})
        co.start()
        try:
            bad = False
            for label in beh:
                evs = co.step(label)
                for ev in (evs if isinstance(evs, list) else [evs] if evs is not None else []):
                    em.emit(ev)
                    if ev["e"] in ("Blocked", "ProcessDied"):
                        bad = True
                if bad:
                    break
            if not bad and co.drain():
                em.emit(co.fresh())
        finally:
            co.stop()
        em.flush()
    em.close()


if __name__ == "__main__":
    from .harness import run_main
    run_main(main)
