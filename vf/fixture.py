"""Golden fixtures (C05): token directories written once by the PINNED version, with the state that version
returned for them.

  python3 -m vf.fixture write <pinned-lib> <fixture-dir> <backend>     (development time only)
  python3 -m vf.fixture read  <lib> <workdir-with-tokens> <backend> <out.ndjson> <expected.json>

`read` lets the current library open the directory (both PINs must log in) and records what it returns next to the
recorded expectation in one trace event; Trace_Fixture.tla demands equality.
"""
import hashlib
import json
import os
import sys

from . import p11const as K
from .p11 import P11, rvname
from .testkeys import RSA1024, EC_P256

ATTRS = [K.CKA_CLASS, K.CKA_TOKEN, K.CKA_PRIVATE, K.CKA_LABEL, K.CKA_ID, K.CKA_VALUE, K.CKA_APPLICATION, K.CKA_OBJECT_ID,
         K.CKA_KEY_TYPE, K.CKA_SENSITIVE, K.CKA_EXTRACTABLE, K.CKA_ENCRYPT, K.CKA_DECRYPT, K.CKA_SIGN, K.CKA_VERIFY,
         K.CKA_WRAP, K.CKA_UNWRAP, K.CKA_DERIVE, K.CKA_MODIFIABLE, K.CKA_COPYABLE, K.CKA_DESTROYABLE, K.CKA_LOCAL,
         K.CKA_ALWAYS_SENSITIVE, K.CKA_NEVER_EXTRACTABLE, K.CKA_KEY_GEN_MECHANISM, K.CKA_START_DATE, K.CKA_END_DATE,
         K.CKA_ALLOWED_MECHANISMS, K.CKA_MODULUS, K.CKA_PUBLIC_EXPONENT, K.CKA_PRIVATE_EXPONENT, K.CKA_PRIME_1,
         K.CKA_EC_PARAMS, K.CKA_EC_POINT, K.CKA_SUBJECT, K.CKA_ISSUER, K.CKA_SERIAL_NUMBER, K.CKA_CERTIFICATE_TYPE,
         K.CKA_VALUE_LEN, K.CKA_CHECK_VALUE, K.CKA_TRUSTED, K.CKA_WRAP_WITH_TRUSTED, K.CKA_ALWAYS_AUTHENTICATE]
SO, USER = b"fixture-so-pin", b"fixture-user-\x00\xff-pin"


def conf(workdir, backend):
    c = os.path.join(workdir, "softhsm2.conf")
    with open(c, "w") as f:
        f.write("directories.tokendir = %s\nobjectstore.backend = %s\nlog.level = ERROR\nslots.removable = false\n"
                % (os.path.join(workdir, "tokens"), backend))
    os.environ["SOFTHSM2_CONF"] = c


def observe(p, slot, pin):
    out = []
    rv, s = p.open_session(slot, False)
    rvl = p.login(s, K.CKU_USER, pin)
    rv, hs = p.find(s, [])
    for g in hs:
        rec = {}
        for t in ATTRS:
            rv, v = p.get_attr(s, g, t)
            if rv == 0 and v is not None:
                rec["%x" % t] = v.hex() if len(v) <= 64 else "sha256:" + hashlib.sha256(v).hexdigest() + ":%d" % len(v)
            else:
                rec["%x" % t] = "n/a:" + rvname(rv)
        rv, q = p.get_attrs_raw(s, g, [K.CKA_WRAP_TEMPLATE], [None])
        rec["wrap_template_size"] = "%d" % (q[0][0] if rv == 0 and q[0][0] < (1 << 32) else -1)
        out.append(rec)
    p.close_session(s)
    out.sort(key=lambda r: (r["%x" % K.CKA_CLASS], r["%x" % K.CKA_ID], r["%x" % K.CKA_LABEL]))
    return dict(login=rvname(rvl), objects=out)


def token_state(p):
    res = []
    rv, slots = p.slot_list(True)
    for sl in slots:
        rv, ti = p.token_info(sl)
        if rv or not ti["flags"] & K.CKF_TOKEN_INITIALIZED:
            continue
        rv, s = p.open_session(sl, True)
        so = rvname(p.login(s, K.CKU_SO, SO))
        p.close_session(s)
        st = observe(p, sl, USER)
        st.update(label=ti["label"].hex(), so_login=so, userinit=bool(ti["flags"] & K.CKF_USER_PIN_INITIALIZED))
        res.append(st)
    res.sort(key=lambda r: r["label"])
    return res


def write(lib, fdir, backend):
    os.makedirs(os.path.join(fdir, "tokens"))
    conf(fdir, backend)
    p = P11(lib)
    assert p.initialize() == 0
    rv, slots = p.slot_list(True)
    assert p.init_token(slots[-1], SO, b"golden fixture") == 0
    p.finalize()
    p.initialize()
    rv, slots = p.slot_list(True)
    slot = [s for s in slots if p.token_info(s)[1]["flags"] & K.CKF_TOKEN_INITIALIZED][0]
    rv, s = p.open_session(slot, True)
    assert p.login(s, K.CKU_SO, SO) == 0 and p.init_pin(s, USER) == 0 and p.logout(s) == 0
    assert p.login(s, K.CKU_USER, USER) == 0
    T, F = True, False
    big = bytes((i * 7 + 3) % 256 for i in range(300000))
    r, e = RSA1024, EC_P256
    objs = [
        [(K.CKA_CLASS, K.CKO_DATA), (K.CKA_TOKEN, T), (K.CKA_PRIVATE, F), (K.CKA_LABEL, b"public data"),
         (K.CKA_APPLICATION, b"app"), (K.CKA_OBJECT_ID, b"\x06\x03\x2a\x03\x04"), (K.CKA_VALUE, b"hello world")],
        [(K.CKA_CLASS, K.CKO_DATA), (K.CKA_TOKEN, T), (K.CKA_PRIVATE, T), (K.CKA_LABEL, b"private big data"),
         (K.CKA_APPLICATION, b""), (K.CKA_VALUE, big)],
        [(K.CKA_CLASS, K.CKO_CERTIFICATE), (K.CKA_CERTIFICATE_TYPE, K.CKC_X_509), (K.CKA_TOKEN, T), (K.CKA_PRIVATE, F),
         (K.CKA_LABEL, b"cert"), (K.CKA_ID, b"\x01\x02"), (K.CKA_SUBJECT, b"\x30\x0b\x31\x09\x30\x07\x06\x03\x55\x04\x03\x0c\x00"),
         (K.CKA_ISSUER, b"\x30\x00"), (K.CKA_SERIAL_NUMBER, b"\x02\x01\x05"), (K.CKA_VALUE, bytes(range(200))),
         (K.CKA_START_DATE, b"20200101"), (K.CKA_END_DATE, b"20300101")],
        [(K.CKA_CLASS, K.CKO_SECRET_KEY), (K.CKA_KEY_TYPE, K.CKK_AES), (K.CKA_TOKEN, T), (K.CKA_PRIVATE, T),
         (K.CKA_LABEL, b"aes private"), (K.CKA_ID, b"aes1"), (K.CKA_VALUE, bytes(range(32))), (K.CKA_SENSITIVE, F),
         (K.CKA_EXTRACTABLE, T), (K.CKA_ENCRYPT, T), (K.CKA_DECRYPT, T), (K.CKA_WRAP, T), (K.CKA_UNWRAP, F),
         (K.CKA_START_DATE, b"20210203"), (K.CKA_ALLOWED_MECHANISMS, [K.CKM_AES_CBC, K.CKM_AES_GCM]),
         (K.CKA_WRAP_TEMPLATE, [(K.CKA_CLASS, K.CKO_SECRET_KEY), (K.CKA_EXTRACTABLE, True), (K.CKA_LABEL, b"w")])],
        [(K.CKA_CLASS, K.CKO_SECRET_KEY), (K.CKA_KEY_TYPE, K.CKK_GENERIC_SECRET), (K.CKA_TOKEN, T), (K.CKA_PRIVATE, F),
         (K.CKA_LABEL, b""), (K.CKA_ID, b"gen-public"), (K.CKA_VALUE, b"k" * 17), (K.CKA_SENSITIVE, T), (K.CKA_SIGN, T),
         (K.CKA_MODIFIABLE, F), (K.CKA_COPYABLE, F), (K.CKA_DESTROYABLE, F)],
        [(K.CKA_CLASS, K.CKO_PUBLIC_KEY), (K.CKA_KEY_TYPE, K.CKK_RSA), (K.CKA_TOKEN, T), (K.CKA_PRIVATE, F),
         (K.CKA_LABEL, b"rsa"), (K.CKA_ID, b"rsa1"), (K.CKA_MODULUS, r["n"]), (K.CKA_PUBLIC_EXPONENT, r["e"]), (K.CKA_VERIFY, T)],
        [(K.CKA_CLASS, K.CKO_PRIVATE_KEY), (K.CKA_KEY_TYPE, K.CKK_RSA), (K.CKA_TOKEN, T), (K.CKA_PRIVATE, T),
         (K.CKA_LABEL, b"rsa"), (K.CKA_ID, b"rsa1"), (K.CKA_MODULUS, r["n"]), (K.CKA_PUBLIC_EXPONENT, r["e"]),
         (K.CKA_PRIVATE_EXPONENT, r["d"]), (K.CKA_PRIME_1, r["p"]), (K.CKA_PRIME_2, r["q"]), (K.CKA_EXPONENT_1, r["dp"]),
         (K.CKA_EXPONENT_2, r["dq"]), (K.CKA_COEFFICIENT, r["qi"]), (K.CKA_SIGN, T), (K.CKA_SENSITIVE, F),
         (K.CKA_EXTRACTABLE, T)],
        [(K.CKA_CLASS, K.CKO_PRIVATE_KEY), (K.CKA_KEY_TYPE, K.CKK_EC), (K.CKA_TOKEN, T), (K.CKA_PRIVATE, T),
         (K.CKA_LABEL, b"ec"), (K.CKA_ID, b"ec1"), (K.CKA_EC_PARAMS, e["params"]), (K.CKA_VALUE, e["d"]), (K.CKA_SIGN, T),
         (K.CKA_SENSITIVE, T), (K.CKA_EXTRACTABLE, F)],
    ]
    for t in objs:
        rv, g = p.create_object(s, t)
        assert rv == 0, (rvname(rv), t[:3])
    from .p11 import Mech
    rv, g = p.generate_key(s, Mech(K.CKM_AES_KEY_GEN), [(K.CKA_TOKEN, T), (K.CKA_PRIVATE, T), (K.CKA_LABEL, b"generated"),
                                                        (K.CKA_ID, b"gen1"), (K.CKA_VALUE_LEN, 24), (K.CKA_SENSITIVE, F),
                                                        (K.CKA_EXTRACTABLE, T)])
    assert rv == 0
    p.finalize()
    assert p.initialize() == 0
    exp = dict(backend=backend, tokens=token_state(p))
    p.finalize()
    os.remove(os.path.join(fdir, "softhsm2.conf"))
    with open(os.path.join(fdir, "expected.json"), "w") as f:
        json.dump(exp, f, indent=0, sort_keys=True)
    print("written", fdir, len(exp["tokens"][0]["objects"]), "objects")


def read(lib, workdir, backend, out, expfile):
    conf(workdir, backend)
    exp = json.load(open(expfile))
    f = open(out, "w")
    p = P11(lib)
    rv = p.initialize()
    obs = dict(backend=backend, tokens=token_state(p) if rv == 0 else [], init=rvname(rv))
    exp["init"] = "OK"
    f.write(json.dumps({"e": "OpenFixture", "expected": exp, "observed": obs}, sort_keys=True) + "\n")
    f.close()
    if rv == 0:
        p.finalize()


if __name__ == "__main__":
    from .harness import run_main
    if sys.argv[1] == "write":
        run_main(lambda: write(*sys.argv[2:5]))
    else:
        run_main(lambda: read(*sys.argv[2:7]))
