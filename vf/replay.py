"""bin/check --replay <dir>: re-executes a recorded violating behaviour on the current /repo build and validates
the new trace.  Exit 1 (and the VIOLATION line) if it is rejected again, 0 if it is accepted now."""
import json
import os
import shutil
import sys
import tempfile

from . import build, tlc
from .pipeline import _run_driver, PY


def crash_replay(d, info):
    """a crash / fault point: the scenario is recorded again (operation log, old and new state), operation k is made to
    kill the process / to fail, a fresh process recovers, TLC judges"""
    import subprocess
    from .check import ROOT, load_known, active_known
    from .tlc import tla_set
    lib = build.libpath(build.build("ossl"))
    shim = os.path.join(ROOT, "build", "fsshim.so")
    mode = info["kind"]
    wd = tempfile.mkdtemp(prefix="verif-replay-", dir=os.environ.get("VERIF_SCRATCH", "/var/tmp"))
    try:
        sfile = os.path.join(wd, "sc.json")
        json.dump([info["scenario"]], open(sfile, "w"))
        out = os.path.join(wd, "out.ndjson")
        r = subprocess.run([PY, "-m", "vf.drv_crash", lib, sfile, out, os.path.join(wd, "w"), "1", mode, shim, "8"], cwd=ROOT,
                           env=dict(os.environ, PYTHONPATH=ROOT), stdout=subprocess.PIPE, stderr=subprocess.PIPE, timeout=1500)
        if r.returncode or not os.path.exists(out):
            print("BROKEN replay: driver failed: " + r.stderr.decode()[-500:])
            return 2
        lines = open(out).readlines()
        keep = [l for l in lines if json.loads(l)["e"] == "Log" or json.loads(l).get("k") == info.get("k")]
        tr = os.path.join(wd, "one.ndjson")
        open(tr, "w").writelines(keep)
        known = sorted(e["deviation"] for e in active_known(load_known(info["property"])) if e.get("deviation"))
        known = [x for x in known if x in ("EmptyObject", "EmptyToken", "PartialCreate", "PartialNewToken", "OkButNotStored",
                                           "FaultNotAtomic")]
        cfg = os.path.join(wd, "t.cfg")
        tlc.write_cfg(cfg, spec="TSpec", constants={"Dev": tla_set(known), "Judge": '"%s"' % info.get("judge", "both")},
                      constraint="TrackMax", postcondition="TraceAccepted")
        os.makedirs(os.path.join(wd, "v"))
        res = tlc.validate_trace("Trace_Crash", cfg, tr, os.path.join(wd, "v"), len(keep), env={"JAVA_TOOL_OPTIONS": "-Xss256m"})
        if res.accepted:
            print("replay accepted: operation %s of %s gets a verdict on the current tree" % (info.get("k"), info["scenario"]))
            return 0
        print("replay rejected: %s" % keep[res.matched].strip()[:400])
        print("VIOLATION property=%s replay=%s" % (info["property"], d))
        return 1
    finally:
        shutil.rmtree(wd, ignore_errors=True)


def main(d):
    info = json.load(open(os.path.join(d, "info.json")))
    if info.get("kind") in ("crash", "fault"):
        return crash_replay(d, info)
    beh = os.path.join(d, "behaviour.json")
    lib = build.libpath(build.build(info.get("build_cfg", "ossl")))
    # library paths among the recorded driver arguments belong to the build of that time: use the current ones
    args = []
    for a in info["driver_args"]:
        if isinstance(a, str) and a.endswith("libsofthsm2.so"):
            a = build.libpath(build.build("botan" if "/botan/" in a else "ossl"))
        elif isinstance(a, str) and a.endswith("softhsm2-util"):
            a = build.utilpath(build.build("ossl", ("softhsm2", "softhsm2-util")))
        args.append(a)
    info["driver_args"] = args
    wd = tempfile.mkdtemp(prefix="verif-replay-", dir=os.environ.get("VERIF_SCRATCH", "/var/tmp"))
    try:
        out = os.path.join(wd, "trace.ndjson")
        rc, err = _run_driver([PY, "-m", info["driver"], lib, beh, out, wd, str(info["seed"])] + info["driver_args"],
                              out, 1500, info.get("env") or None)
        if not os.path.exists(out):
            print("BROKEN replay: driver produced no trace: " + err)
            return 2
        cfg = os.path.join(wd, "trace.cfg")
        tlc.write_cfg(cfg, spec="TSpec", constants=info["trace_constants"], invariants=info["invariants"],
                      constraint="TrackMax", postcondition="TraceAccepted")
        n = sum(1 for _ in open(out))
        os.makedirs(os.path.join(wd, "v"))
        r = tlc.validate_trace(info["trace_module"], cfg, out, os.path.join(wd, "v"), n)
        if r.accepted:
            print("replay accepted: the behaviour is a behaviour of the specification on the current tree")
            return 0
        ev = open(out).readlines()[r.matched].strip()
        print("replay rejected at event %d: %s" % (r.matched, ev[:400]))
        print("VIOLATION property=%s replay=%s" % (info["property"], d))
        return 1
    finally:
        shutil.rmtree(wd, ignore_errors=True)
