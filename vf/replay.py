"""bin/check --replay <dir>: re-executes a recorded violating behaviour on the current /repo build and validates
the new trace.  Exit 1 (and the VIOLATION line) if it is rejected again, 0 if it is accepted now."""
import json
import os
import shutil
import sys
import tempfile

from . import build, tlc
from .pipeline import _run_driver, PY


def main(d):
    info = json.load(open(os.path.join(d, "info.json")))
    beh = os.path.join(d, "behaviour.json")
    lib = build.libpath(build.build(info.get("build_cfg", "ossl")))
    wd = tempfile.mkdtemp(prefix="verif-replay-", dir=os.environ.get("VERIF_SCRATCH", "/var/tmp"))
    try:
        out = os.path.join(wd, "trace.ndjson")
        rc, err = _run_driver([PY, "-m", info["driver"], lib, beh, out, wd, str(info["seed"])] + info["driver_args"],
                              out, 1500, info.get("env") or None)
        if not os.path.exists(out):
            print("BROKEN replay: driver produced no trace: " + err)
            return 2
        cfg = os.path.join(wd, "trace.cfg")
        tlc.write_cfg(cfg, spec="TSpec", constants=info["trace_constants"], invariants=info["invariants"],
                      constraint="TrackMax", postcondition="TraceAccepted")
        n = sum(1 for _ in open(out))
        os.makedirs(os.path.join(wd, "v"))
        r = tlc.validate_trace(info["trace_module"], cfg, out, os.path.join(wd, "v"), n)
        if r.accepted:
            print("replay accepted: the behaviour is a behaviour of the specification on the current tree")
            return 0
        ev = open(out).readlines()[r.matched].strip()
        print("replay rejected at event %d: %s" % (r.matched, ev[:400]))
        print("VIOLATION property=%s replay=%s" % (info["property"], d))
        return 1
    finally:
        shutil.rmtree(wd, ignore_errors=True)
