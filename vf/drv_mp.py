"""Coordinator for the behaviours of P11MP (C15 at call grain): two or three real processes (vf.mpworker), each with
its own library instance, make their calls on one token directory in the order the TLC behaviour prescribes; after the
last call a freshly started process lists the token.  Oracle: Trace_MP.tla.

usage: python3 -m vf.drv_mp <lib> <behaviours.json> <out.ndjson> <workdir> <seed> <nprocs> <logged: 1,2 | -> [backend]
"""
import json
import os
import shutil
import sys

from .drv_mpf import Worker, prepare, write_conf
from .harness import Emitter
from .tlaval import parse_call


class Coordinator(object):
    overlap = False      # True: while a process creates an object, the others search (results discarded)

    def __init__(self, lib, wdroot, nprocs, logged, template):
        self.lib, self.wdroot, self.nprocs, self.logged, self.template = lib, wdroot, nprocs, logged, template
        self.n = 0
        self.w = {}

    def start(self):
        self.n += 1
        self.wd = os.path.join(self.wdroot, "b%d" % self.n)
        shutil.copytree(self.template, self.wd)
        write_conf(self.wd)
        self.w = {p: Worker(self.lib, self.wd, None, gated=False, login=(p in self.logged)) for p in range(1, self.nprocs + 1)}
        self.created = 0

    def stop(self):
        for w in self.w.values():
            w.kill()
        shutil.rmtree(self.wd, ignore_errors=True)

    def call(self, p, cmd):
        r, rep = self.w[p].call(cmd)
        if r != "reply":
            return None
        return rep

    def step(self, label):
        name, a = parse_call(label)
        p = a[0]
        if name == "MCreate":
            k = self.created + 1
            others = [q for q in self.w if q != p] if self.overlap else []
            for q in others:
                self.w[q].send(dict(c="scan", ms=12))
            rep = self.call(p, dict(c="create", k=k, priv=a[1], token=a[2]))
            for q in others:
                if self.w[q].wait() != "reply":
                    return dict(e="ProcessDied", p=q)
            if rep is None:
                return dict(e="ProcessDied", p=p)
            if rep["rv"] == "OK":
                self.created = k
            return dict(e="Create", p=p, priv=a[1], tok=a[2], rv=rep["rv"], o=k)
        if name == "MSet":
            rep = self.call(p, dict(c="set", k=a[1], attr="lab", v=a[2]))
            return dict(e="Set", p=p, o=a[1], v=a[2], rv=rep["rv"]) if rep else dict(e="ProcessDied", p=p)
        if name == "MBadSet":
            rep = self.call(p, dict(c="badset", k=a[1]))
            return dict(e="BadSet", p=p, o=a[1], rv=rep["rv"]) if rep else dict(e="ProcessDied", p=p)
        if name == "MGet":
            rep = self.call(p, dict(c="get", k=a[1]))
            if rep is None:
                return dict(e="ProcessDied", p=p)
            return dict(e="Get", p=p, o=a[1], rv=rep["rv"], lab=(rep.get("vals") or [0])[0], same=rep.get("same", False))
        if name == "MDestroy":
            rep = self.call(p, dict(c="destroy", k=a[1]))
            return dict(e="Destroy", p=p, o=a[1], rv=rep["rv"]) if rep else dict(e="ProcessDied", p=p)
        if name == "MFind":
            rep = self.call(p, dict(c="find", v=-1 if a[1] == 99 else a[1]))
            if rep is None:
                return dict(e="ProcessDied", p=p)
            return dict(e="Find", p=p, v=a[1], rv=rep["rv"], found=[f[:2] for f in rep.get("found", [])],
                        unreadable=rep.get("unreadable", 0))
        raise ValueError(label)

    def fresh(self):
        w = Worker(self.lib, self.wd, None, gated=False, login=True)
        try:
            r, rep = w.call(dict(c="find"))
        finally:
            w.kill()
        if r != "reply":
            return dict(e="ProcessDied", p=0)
        return dict(e="Fresh", rv=rep["rv"], found=[f[:2] for f in rep.get("found", [])], unreadable=rep.get("unreadable", 0))


def main():
    lib, bfile, out, workdir, seed, nprocs, logged = sys.argv[1:8]
    backend = sys.argv[8] if len(sys.argv) > 8 else "file"
    Coordinator.overlap = len(sys.argv) > 9 and sys.argv[9] == "overlap"
    logged = set() if logged == "-" else {int(x) for x in logged.split(",")}
    behaviours = json.load(open(bfile))
    os.makedirs(workdir, exist_ok=True)
    template = os.path.join(workdir, "template")
    if not os.path.exists(template):
        prepare(lib, template, False, nobj=0, backend=backend)
    co = Coordinator(lib, workdir, int(nprocs), logged, template)
    em = Emitter(out)
    hangs = 0
    for i, beh in enumerate(behaviours):
        if hangs >= 2:       # each hang costs a full time-out; two rejected behaviours say enough
            break
        em.emit({"e": "Reset", "b": i})
        co.start()
        try:
            for label in beh:
                ev = co.step(label)
                em.emit(ev)
                if ev["e"] == "ProcessDied":
                    hangs += 1
                    break
            else:
                em.emit(co.fresh())
        finally:
            co.stop()
        em.flush()
    em.close()


if __name__ == "__main__":
    from .harness import run_main
    run_main(main)
