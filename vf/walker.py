"""Turns TLC's dumped state graph (-dump dot,actionlabels) into behaviours that cover every edge.

A behaviour is a list of action labels (name + arguments) starting in the initial state.  Only labels leave this
module: no state and no expected result is handed to the driver.
"""
import collections
import re

_EDGE = re.compile(r'^(-?\d+) -> (-?\d+) \[label="((?:[^"\\]|\\.)*)"')
_NODE = re.compile(r'^(-?\d+) \[label="((?:[^"\\]|\\.)*)"(.*)$')


def _unesc(s):
    return s.replace('\\"', '"').replace("\\\\", "\\")


class Graph(object):
    def __init__(self):
        self.adj = collections.defaultdict(list)   # node -> [(label, dst)]
        self.init = []
        self.nedges = 0
        self.nodes = set()


def load_dot(path):
    g = Graph()
    seen = set()
    with open(path) as f:
        for line in f:
            m = _EDGE.match(line)
            if m:
                s, d, lab = m.group(1), m.group(2), _unesc(m.group(3))
                key = (s, lab, d)
                if key in seen:
                    continue
                seen.add(key)
                g.adj[s].append((lab, d))
                g.nodes.add(s)
                g.nodes.add(d)
                g.nedges += 1
                continue
            m = _NODE.match(line)
            if m:
                g.nodes.add(m.group(1))
                if "style = filled" in m.group(3):
                    g.init.append(m.group(1))
    return g


def edge_cover(g, maxlen=60, maxwalks=None, rng=None, skip=None):
    """Greedy edge cover by walks from the initial state, each at most maxlen steps.
    skip(label) -> True removes an edge from the obligation (it is still usable for moving)."""
    assert len(g.init) >= 1
    init = g.init[0]
    unc = {}
    total = 0
    for n, es in g.adj.items():
        idx = [i for i, (lab, d) in enumerate(es) if not (skip and skip(lab))]
        if idx:
            unc[n] = idx
            total += len(idx)
    walks = []
    covered = 0

    def bfs(src):
        # nearest node with uncovered out-edges; returns list of (label, dst)
        if src in unc:
            return []
        prev = {src: None}
        q = collections.deque([src])
        while q:
            n = q.popleft()
            for lab, d in g.adj.get(n, ()):
                if d in prev:
                    continue
                prev[d] = (n, lab)
                if d in unc:
                    path = []
                    x = d
                    while prev[x] is not None:
                        p, lb = prev[x]
                        path.append((lb, x))
                        x = p
                    path.reverse()
                    return path
                q.append(d)
        return None

    while unc and (maxwalks is None or len(walks) < maxwalks):
        cur = init
        walk = []
        progressed = False
        while len(walk) < maxlen:
            if cur in unc:
                lst = unc[cur]
                k = rng.randrange(len(lst)) if rng else len(lst) - 1
                i = lst.pop(k)
                if not lst:
                    del unc[cur]
                lab, d = g.adj[cur][i]
                walk.append(lab)
                covered += 1
                progressed = True
                cur = d
                continue
            path = bfs(cur)
            if path is None or len(walk) + len(path) >= maxlen:
                break
            for lab, d in path:
                walk.append(lab)
                cur = d
        if not progressed:
            # the nearest uncovered edge is farther than maxlen from init: extend once beyond the limit
            path = bfs(init)
            if path is None:
                break
            walk = [lab for lab, _ in path]
            cur = path[-1][1] if path else init
            lst = unc[cur]
            i = lst.pop()
            if not lst:
                del unc[cur]
            walk.append(g.adj[cur][i][0])
            covered += 1
        walks.append(walk)
    return walks, covered, total


def random_walks(g, n, length, rng):
    walks = []
    init = g.init[0]
    for _ in range(n):
        cur = init
        w = []
        for _ in range(length):
            es = g.adj.get(cur)
            if not es:
                break
            lab, d = es[rng.randrange(len(es))]
            w.append(lab)
            cur = d
        walks.append(w)
    return walks
