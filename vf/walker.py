"""Turns TLC's dumped state graph (-dump dot,actionlabels) into behaviours that cover every edge.

A behaviour is a list of action labels (name + arguments) starting in the initial state.  Only labels leave this
module: no state and no expected result is handed to the driver.
"""
import collections
import re

_EDGE = re.compile(r'^(-?\d+) -> (-?\d+) \[label="((?:[^"\\]|\\.)*)"')
_NODE = re.compile(r'^(-?\d+) \[label="((?:[^"\\]|\\.)*)"(.*)$')


def _unesc(s):
    return s.replace('\\"', '"').replace("\\\\", "\\")


class Graph(object):
    def __init__(self):
        self.adj = collections.defaultdict(list)   # node -> [(label, dst)]
        self.init = []
        self.nedges = 0
        self.nodes = set()


def load_dot(path):
    g = Graph()
    seen = set()
    with open(path) as f:
        for line in f:
            m = _EDGE.match(line)
            if m:
                s, d, lab = m.group(1), m.group(2), _unesc(m.group(3))
                key = (s, lab, d)
                if key in seen:
                    continue
                seen.add(key)
                g.adj[s].append((lab, d))
                g.nodes.add(s)
                g.nodes.add(d)
                g.nedges += 1
                continue
            m = _NODE.match(line)
            if m:
                g.nodes.add(m.group(1))
                if "style = filled" in m.group(3):
                    g.init.append(m.group(1))
    return g


def edge_cover(g, maxlen=60, maxwalks=None, rng=None, skip=None, local_depth=4):
    """Greedy edge cover by walks from the initial state, each about maxlen steps at most.
    skip(label) -> True removes an edge from the obligation (it is still usable for moving).
    A walk goes, along the breadth-first tree, to the uncovered edge nearest to the initial state, then keeps
    taking uncovered edges, moving to another node with uncovered edges when one is within local_depth steps."""
    assert len(g.init) >= 1
    init = g.init[0]
    unc = {}
    total = 0
    for n, es in g.adj.items():
        idx = [i for i, (lab, d) in enumerate(es) if not (skip and skip(lab))]
        if idx:
            unc[n] = idx
            total += len(idx)
    # breadth-first tree from the initial state
    parent = {init: None}
    order = [init]
    q = collections.deque([init])
    while q:
        n = q.popleft()
        for lab, d in g.adj.get(n, ()):
            if d not in parent:
                parent[d] = (n, lab)
                order.append(d)
                q.append(d)
    depth = {}
    for n in order:
        depth[n] = 0 if parent[n] is None else depth[parent[n][0]] + 1

    def tree_path(n):
        path = []
        while parent[n] is not None:
            p, lab = parent[n]
            path.append(lab)
            n = p
        path.reverse()
        return path

    def local(src, limit):
        """bounded breadth-first search for a node with uncovered edges"""
        prev = {src: None}
        q = collections.deque([(src, 0)])
        while q:
            n, dd = q.popleft()
            if dd >= limit:
                continue
            for lab, d in g.adj.get(n, ()):
                if d in prev:
                    continue
                prev[d] = (n, lab)
                if d in unc:
                    path = []
                    x = d
                    while prev[x] is not None:
                        p, lb = prev[x]
                        path.append((lb, x))
                        x = p
                    path.reverse()
                    return path
                q.append((d, dd + 1))
        return None

    walks = []
    covered = 0
    pos = 0
    while unc and (maxwalks is None or len(walks) < maxwalks):
        while pos < len(order) and order[pos] not in unc:
            pos += 1
        if pos >= len(order):
            break      # remaining uncovered edges are unreachable (cannot happen for a TLC graph)
        cur = order[pos]
        walk = tree_path(cur)
        while True:
            if cur in unc:
                lst = unc[cur]
                k = rng.randrange(len(lst)) if rng else len(lst) - 1
                i = lst.pop(k)
                if not lst:
                    del unc[cur]
                lab, d = g.adj[cur][i]
                walk.append(lab)
                covered += 1
                cur = d
                if len(walk) >= maxlen:
                    break
                continue
            room = maxlen - len(walk)
            if room <= 0:
                break
            path = local(cur, min(local_depth, room))
            if path is None:
                break
            for lab, d in path:
                walk.append(lab)
                cur = d
        walks.append(walk)
    return walks, covered, total


def line_graph(g):
    """The graph whose nodes are the edges of g: covering ITS edges covers every pair of consecutive transitions of g
    (the abstract state forgets how it was reached - by a copy or a creation, through which handle -, the implementation
    may not).  Labels are the labels of the second transition of the pair, so walks are label lists of g as before."""
    lg = Graph()
    init = "init"
    lg.init = [init]
    lg.nodes.add(init)
    name = {}
    for n, es in g.adj.items():
        for i, (lab, d) in enumerate(es):
            name[(n, i)] = "%s#%d" % (n, i)
    for i, (lab, d) in enumerate(g.adj.get(g.init[0], ())):
        lg.adj[init].append((lab, name[(g.init[0], i)]))
        lg.nedges += 1
    for (n, i), nm in name.items():
        lab, d = g.adj[n][i]
        lg.nodes.add(nm)
        for j, (lab2, d2) in enumerate(g.adj.get(d, ())):
            lg.adj[nm].append((lab2, name[(d, j)]))
            lg.nedges += 1
    return lg


def random_walks(g, n, length, rng):
    walks = []
    init = g.init[0]
    for _ in range(n):
        cur = init
        w = []
        for _ in range(length):
            es = g.adj.get(cur)
            if not es:
                break
            lab, d = es[rng.randrange(len(es))]
            w.append(lab)
            cur = d
        walks.append(w)
    return walks


def paths(g, cap, rng):
    """Complete paths (initial state -> a state without successors) of an acyclic graph: all of them when there are
    at most `cap`, otherwise `cap` paths drawn uniformly.  Returns (list of label lists, total number of paths)."""
    import sys
    sys.setrecursionlimit(100000)
    init = g.init[0]
    count = {}
    order = []
    seen = set()
    stack = [(init, iter(g.adj.get(init, [])))]
    seen.add(init)
    while stack:                                   # iterative post-order
        n, it = stack[-1]
        adv = False
        for lab, d in it:
            if d not in seen:
                seen.add(d)
                stack.append((d, iter(g.adj.get(d, []))))
                adv = True
                break
        if not adv:
            order.append(n)
            stack.pop()
    for n in order:
        es = g.adj.get(n, [])
        count[n] = sum(count[d] for _, d in es) if es else 1
    total = count[init]
    out = []
    if total <= cap:
        def rec(n, acc):
            es = g.adj.get(n, [])
            if not es:
                out.append(list(acc))
                return
            for lab, d in es:
                acc.append(lab)
                rec(d, acc)
                acc.pop()
        rec(init, [])
        return out, total
    for _ in range(cap):
        n, acc = init, []
        while g.adj.get(n):
            es = g.adj[n]
            r = rng.randrange(count[n])
            for lab, d in es:
                if r < count[d]:
                    acc.append(lab)
                    n = d
                    break
                r -= count[d]
        out.append(acc)
    return out, total
