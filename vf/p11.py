"""ctypes binding to a PKCS#11 shared library (libsofthsm2.so built from /repo's working tree).

Nothing of SoftHSM is linked or imported: the library is dlopen()ed and only its
exported C_* entry points are used.  All helpers return plain python values so that
drivers can log them as JSON.
"""
import ctypes as C
import os
from . import p11const as K

ULONG = C.c_ulong
UNAVAIL = (1 << 64) - 1


class CK_VERSION(C.Structure):
    _fields_ = [("major", C.c_ubyte), ("minor", C.c_ubyte)]


class CK_INFO(C.Structure):
    _fields_ = [("cryptokiVersion", CK_VERSION), ("manufacturerID", C.c_ubyte * 32), ("flags", ULONG),
                ("libraryDescription", C.c_ubyte * 32), ("libraryVersion", CK_VERSION)]


class CK_SLOT_INFO(C.Structure):
    _fields_ = [("slotDescription", C.c_ubyte * 64), ("manufacturerID", C.c_ubyte * 32), ("flags", ULONG),
                ("hardwareVersion", CK_VERSION), ("firmwareVersion", CK_VERSION)]


class CK_TOKEN_INFO(C.Structure):
    _fields_ = [("label", C.c_ubyte * 32), ("manufacturerID", C.c_ubyte * 32), ("model", C.c_ubyte * 16),
                ("serialNumber", C.c_ubyte * 16), ("flags", ULONG), ("ulMaxSessionCount", ULONG),
                ("ulSessionCount", ULONG), ("ulMaxRwSessionCount", ULONG), ("ulRwSessionCount", ULONG),
                ("ulMaxPinLen", ULONG), ("ulMinPinLen", ULONG), ("ulTotalPublicMemory", ULONG),
                ("ulFreePublicMemory", ULONG), ("ulTotalPrivateMemory", ULONG), ("ulFreePrivateMemory", ULONG),
                ("hardwareVersion", CK_VERSION), ("firmwareVersion", CK_VERSION), ("utcTime", C.c_ubyte * 16)]


class CK_SESSION_INFO(C.Structure):
    _fields_ = [("slotID", ULONG), ("state", ULONG), ("flags", ULONG), ("ulDeviceError", ULONG)]


class CK_ATTRIBUTE(C.Structure):
    _fields_ = [("type", ULONG), ("pValue", C.c_void_p), ("ulValueLen", ULONG)]


class CK_MECHANISM(C.Structure):
    _fields_ = [("mechanism", ULONG), ("pParameter", C.c_void_p), ("ulParameterLen", ULONG)]


class CK_MECHANISM_INFO(C.Structure):
    _fields_ = [("ulMinKeySize", ULONG), ("ulMaxKeySize", ULONG), ("flags", ULONG)]


CREATEMUTEX = C.CFUNCTYPE(ULONG, C.POINTER(C.c_void_p))
MUTEXFN = C.CFUNCTYPE(ULONG, C.c_void_p)


class CK_C_INITIALIZE_ARGS(C.Structure):
    _fields_ = [("CreateMutex", CREATEMUTEX), ("DestroyMutex", MUTEXFN), ("LockMutex", MUTEXFN),
                ("UnlockMutex", MUTEXFN), ("flags", ULONG), ("pReserved", C.c_void_p)]


class CK_RSA_PKCS_PSS_PARAMS(C.Structure):
    _fields_ = [("hashAlg", ULONG), ("mgf", ULONG), ("sLen", ULONG)]


class CK_RSA_PKCS_OAEP_PARAMS(C.Structure):
    _fields_ = [("hashAlg", ULONG), ("mgf", ULONG), ("source", ULONG), ("pSourceData", C.c_void_p),
                ("ulSourceDataLen", ULONG)]


class CK_AES_CTR_PARAMS(C.Structure):
    _fields_ = [("ulCounterBits", ULONG), ("cb", C.c_ubyte * 16)]


class CK_GCM_PARAMS(C.Structure):
    _fields_ = [("pIv", C.c_void_p), ("ulIvLen", ULONG), ("ulIvBits", ULONG), ("pAAD", C.c_void_p),
                ("ulAADLen", ULONG), ("ulTagBits", ULONG)]


class CK_ECDH1_DERIVE_PARAMS(C.Structure):
    _fields_ = [("kdf", ULONG), ("ulSharedDataLen", ULONG), ("pSharedData", C.c_void_p),
                ("ulPublicDataLen", ULONG), ("pPublicData", C.c_void_p)]


class CK_KEY_DERIVATION_STRING_DATA(C.Structure):
    _fields_ = [("pData", C.c_void_p), ("ulLen", ULONG)]


class CK_DES_CBC_ENCRYPT_DATA_PARAMS(C.Structure):
    _fields_ = [("iv", C.c_ubyte * 8), ("pData", C.c_void_p), ("length", ULONG)]


class CK_AES_CBC_ENCRYPT_DATA_PARAMS(C.Structure):
    _fields_ = [("iv", C.c_ubyte * 16), ("pData", C.c_void_p), ("length", ULONG)]


_RV = {v: k for k, v in vars(K).items() if k.startswith("CKR_")}
_STATE = {K.CKS_RO_PUBLIC_SESSION: "RO_PUBLIC", K.CKS_RO_USER_FUNCTIONS: "RO_USER",
          K.CKS_RW_PUBLIC_SESSION: "RW_PUBLIC", K.CKS_RW_USER_FUNCTIONS: "RW_USER",
          K.CKS_RW_SO_FUNCTIONS: "RW_SO"}


def rvname(rv):
    n = _RV.get(rv)
    return n[4:] if n else "0x%x" % rv


def statename(st):
    return _STATE.get(st, "0x%x" % st)


ULONG_ATTRS = set()
BOOL_ATTRS = set()
for _n in ("CLASS KEY_TYPE CERTIFICATE_TYPE MODULUS_BITS VALUE_LEN VALUE_BITS PRIME_BITS SUB_PRIME_BITS "
           "KEY_GEN_MECHANISM CERTIFICATE_CATEGORY JAVA_MIDP_SECURITY_DOMAIN NAME_HASH_ALGORITHM "
           "MECHANISM_TYPE HW_FEATURE_TYPE").split():
    ULONG_ATTRS.add(getattr(K, "CKA_" + _n))
for _n in ("TOKEN PRIVATE MODIFIABLE COPYABLE DESTROYABLE TRUSTED SENSITIVE ENCRYPT DECRYPT WRAP UNWRAP SIGN "
           "SIGN_RECOVER VERIFY VERIFY_RECOVER DERIVE EXTRACTABLE LOCAL NEVER_EXTRACTABLE ALWAYS_SENSITIVE "
           "ALWAYS_AUTHENTICATE WRAP_WITH_TRUSTED").split():
    BOOL_ATTRS.add(getattr(K, "CKA_" + _n))
MECHSET_ATTRS = {K.CKA_ALLOWED_MECHANISMS}
TEMPLATE_ATTRS = {K.CKA_WRAP_TEMPLATE, K.CKA_UNWRAP_TEMPLATE, K.CKA_DERIVE_TEMPLATE}


class Template(object):
    """Builds a CK_ATTRIBUTE array from [(type, value)]; value is bool/int/bytes/None/list (nested template
    or mechanism list) or ('raw', bytes) to bypass typing.  Keeps the buffers alive."""

    def __init__(self, attrs):
        self.keep = []
        self.n = len(attrs)
        self.arr = (CK_ATTRIBUTE * max(self.n, 1))()
        for i, (t, v) in enumerate(attrs):
            self.arr[i].type = t
            self._fill(self.arr[i], t, v)

    def _fill(self, a, t, v):
        if isinstance(v, tuple) and v and v[0] == "raw":
            b = v[1]
        elif v is None:
            a.pValue = None
            a.ulValueLen = 0
            return
        elif isinstance(v, bool):
            b = b"\x01" if v else b"\x00"
        elif isinstance(v, int):
            b = ULONG(v)
            self.keep.append(b)
            a.pValue = C.cast(C.pointer(b), C.c_void_p)
            a.ulValueLen = C.sizeof(ULONG)
            return
        elif isinstance(v, (list, tuple)) and t in TEMPLATE_ATTRS:
            sub = Template(list(v))
            self.keep.append(sub)
            a.pValue = C.cast(sub.arr, C.c_void_p) if sub.n else None
            a.ulValueLen = sub.n * C.sizeof(CK_ATTRIBUTE)
            return
        elif isinstance(v, (list, tuple)):
            arr = (ULONG * max(len(v), 1))(*v)
            self.keep.append(arr)
            a.pValue = C.cast(arr, C.c_void_p) if len(v) else None
            a.ulValueLen = len(v) * C.sizeof(ULONG)
            return
        else:
            b = bytes(v)
        buf = C.create_string_buffer(b, max(len(b), 1))
        self.keep.append(buf)
        a.pValue = C.cast(buf, C.c_void_p)
        a.ulValueLen = len(b)

    @property
    def ptr(self):
        return self.arr if self.n else None


class Mech(object):
    def __init__(self, mech, param=None):
        self.keep = []
        self.m = CK_MECHANISM()
        self.m.mechanism = mech
        if param is None:
            self.m.pParameter = None
            self.m.ulParameterLen = 0
        elif isinstance(param, (bytes, bytearray)):
            buf = C.create_string_buffer(bytes(param), max(len(param), 1))
            self.keep.append(buf)
            self.m.pParameter = C.cast(buf, C.c_void_p)
            self.m.ulParameterLen = len(param)
        elif isinstance(param, tuple) and param[0] == "keep":   # (keep, struct, [buffers])
            self.keep.extend(param[2])
            self.keep.append(param[1])
            self.m.pParameter = C.cast(C.pointer(param[1]), C.c_void_p)
            self.m.ulParameterLen = C.sizeof(param[1])
        else:
            self.keep.append(param)
            self.m.pParameter = C.cast(C.pointer(param), C.c_void_p)
            self.m.ulParameterLen = C.sizeof(param)

    @property
    def ptr(self):
        return C.byref(self.m)


def buf_ptr(data):
    b = C.create_string_buffer(bytes(data), max(len(data), 1))
    return b


def gcm_params(iv, aad, tagbits):
    ivb = buf_ptr(iv)
    aadb = buf_ptr(aad)
    p = CK_GCM_PARAMS()
    p.pIv = C.cast(ivb, C.c_void_p) if len(iv) else None
    p.ulIvLen = len(iv)
    p.ulIvBits = len(iv) * 8
    p.pAAD = C.cast(aadb, C.c_void_p) if len(aad) else None
    p.ulAADLen = len(aad)
    p.ulTagBits = tagbits
    return ("keep", p, [ivb, aadb])


def ctr_params(bits, cb):
    p = CK_AES_CTR_PARAMS()
    p.ulCounterBits = bits
    for i in range(16):
        p.cb[i] = cb[i]
    return p


def pss_params(hashalg, mgf, slen):
    p = CK_RSA_PKCS_PSS_PARAMS()
    p.hashAlg, p.mgf, p.sLen = hashalg, mgf, slen
    return p


def oaep_params(hashalg=K.CKM_SHA_1, mgf=K.CKG_MGF1_SHA1, source=K.CKZ_DATA_SPECIFIED, data=b""):
    p = CK_RSA_PKCS_OAEP_PARAMS()
    p.hashAlg, p.mgf, p.source = hashalg, mgf, source
    keep = []
    if data:
        b = buf_ptr(data)
        keep.append(b)
        p.pSourceData = C.cast(b, C.c_void_p)
    p.ulSourceDataLen = len(data)
    return ("keep", p, keep)


def ecdh_params(pub, kdf=K.CKD_NULL):
    b = buf_ptr(pub)
    p = CK_ECDH1_DERIVE_PARAMS()
    p.kdf = kdf
    p.ulSharedDataLen = 0
    p.pSharedData = None
    p.ulPublicDataLen = len(pub)
    p.pPublicData = C.cast(b, C.c_void_p)
    return ("keep", p, [b])


def keyderiv_string(data):
    b = buf_ptr(data)
    p = CK_KEY_DERIVATION_STRING_DATA()
    p.pData = C.cast(b, C.c_void_p)
    p.ulLen = len(data)
    return ("keep", p, [b])


def cbc_encrypt_data(iv, data):
    b = buf_ptr(data)
    p = CK_AES_CBC_ENCRYPT_DATA_PARAMS() if len(iv) == 16 else CK_DES_CBC_ENCRYPT_DATA_PARAMS()
    for i in range(len(iv)):
        p.iv[i] = iv[i]
    p.pData = C.cast(b, C.c_void_p)
    p.length = len(data)
    return ("keep", p, [b])


CANARY = 0xA5


class P11(object):
    """Thin wrapper.  Every method returns (rv, outputs...) with rv an int."""

    def __init__(self, path):
        self.lib = C.CDLL(path, mode=os.RTLD_NOW | os.RTLD_LOCAL)
        for n in ("C_Initialize C_Finalize C_GetInfo C_GetSlotList C_GetSlotInfo C_GetTokenInfo C_GetMechanismList "
                  "C_GetMechanismInfo C_InitToken C_InitPIN C_SetPIN C_OpenSession C_CloseSession C_CloseAllSessions "
                  "C_GetSessionInfo C_GetOperationState C_SetOperationState C_Login C_Logout C_CreateObject "
                  "C_CopyObject C_DestroyObject C_GetObjectSize C_GetAttributeValue C_SetAttributeValue "
                  "C_FindObjectsInit C_FindObjects C_FindObjectsFinal C_EncryptInit C_Encrypt C_EncryptUpdate "
                  "C_EncryptFinal C_DecryptInit C_Decrypt C_DecryptUpdate C_DecryptFinal C_DigestInit C_Digest "
                  "C_DigestUpdate C_DigestKey C_DigestFinal C_SignInit C_Sign C_SignUpdate C_SignFinal "
                  "C_SignRecoverInit C_SignRecover C_VerifyInit C_Verify C_VerifyUpdate C_VerifyFinal "
                  "C_VerifyRecoverInit C_VerifyRecover C_DigestEncryptUpdate C_DecryptDigestUpdate "
                  "C_SignEncryptUpdate C_DecryptVerifyUpdate C_GenerateKey C_GenerateKeyPair C_WrapKey "
                  "C_UnwrapKey C_DeriveKey C_SeedRandom C_GenerateRandom C_GetFunctionStatus C_CancelFunction "
                  "C_WaitForSlotEvent").split():
            f = getattr(self.lib, n)
            f.restype = ULONG
        L = self.lib
        U, P = ULONG, C.c_void_p
        L.C_GetSlotList.argtypes = [C.c_ubyte, P, P]
        L.C_GetTokenInfo.argtypes = [U, P]
        L.C_GetSlotInfo.argtypes = [U, P]
        L.C_GetMechanismList.argtypes = [U, P, P]
        L.C_GetMechanismInfo.argtypes = [U, U, P]
        L.C_InitToken.argtypes = [U, P, U, P]
        L.C_InitPIN.argtypes = [U, P, U]
        L.C_SetPIN.argtypes = [U, P, U, P, U]
        L.C_OpenSession.argtypes = [U, U, P, P, P]
        L.C_CloseSession.argtypes = [U]
        L.C_CloseAllSessions.argtypes = [U]
        L.C_GetSessionInfo.argtypes = [U, P]
        L.C_Login.argtypes = [U, U, P, U]
        L.C_Logout.argtypes = [U]
        L.C_CreateObject.argtypes = [U, P, U, P]
        L.C_CopyObject.argtypes = [U, U, P, U, P]
        L.C_DestroyObject.argtypes = [U, U]
        L.C_GetObjectSize.argtypes = [U, U, P]
        L.C_GetAttributeValue.argtypes = [U, U, P, U]
        L.C_SetAttributeValue.argtypes = [U, U, P, U]
        L.C_FindObjectsInit.argtypes = [U, P, U]
        L.C_FindObjects.argtypes = [U, P, U, P]
        L.C_FindObjectsFinal.argtypes = [U]
        for n in ("Encrypt", "Decrypt", "Sign", "Verify"):
            getattr(L, "C_%sInit" % n).argtypes = [U, P, U]
        L.C_DigestInit.argtypes = [U, P]
        for n in ("C_Encrypt", "C_EncryptUpdate", "C_Decrypt", "C_DecryptUpdate", "C_Digest", "C_Sign"):
            getattr(L, n).argtypes = [U, P, U, P, P]
        for n in ("C_EncryptFinal", "C_DecryptFinal", "C_DigestFinal", "C_SignFinal"):
            getattr(L, n).argtypes = [U, P, P]
        for n in ("C_DigestUpdate", "C_SignUpdate", "C_VerifyUpdate"):
            getattr(L, n).argtypes = [U, P, U]
        L.C_DigestKey.argtypes = [U, U]
        L.C_Verify.argtypes = [U, P, U, P, U]
        L.C_VerifyFinal.argtypes = [U, P, U]
        L.C_GenerateKey.argtypes = [U, P, P, U, P]
        L.C_GenerateKeyPair.argtypes = [U, P, P, U, P, U, P, P]
        L.C_WrapKey.argtypes = [U, P, U, U, P, P]
        L.C_UnwrapKey.argtypes = [U, P, U, P, U, P, U, P]
        L.C_DeriveKey.argtypes = [U, P, U, P, U, P]
        L.C_SeedRandom.argtypes = [U, P, U]
        L.C_GenerateRandom.argtypes = [U, P, U]
        L.C_Initialize.argtypes = [P]
        L.C_Finalize.argtypes = [P]

    # ---- general
    def initialize(self, args=None):
        return self.lib.C_Initialize(C.byref(args) if args is not None else None)

    def initialize_os_locking(self):
        a = CK_C_INITIALIZE_ARGS()
        C.memset(C.byref(a), 0, C.sizeof(a))
        a.flags = K.CKF_OS_LOCKING_OK
        return self.lib.C_Initialize(C.byref(a))

    def finalize(self):
        return self.lib.C_Finalize(None)

    def slot_list(self, present=True):
        n = ULONG(0)
        rv = self.lib.C_GetSlotList(1 if present else 0, None, C.byref(n))
        if rv:
            return rv, []
        arr = (ULONG * max(n.value, 1))()
        rv = self.lib.C_GetSlotList(1 if present else 0, arr, C.byref(n))
        return rv, [arr[i] for i in range(n.value)]

    def token_info(self, slot):
        ti = CK_TOKEN_INFO()
        rv = self.lib.C_GetTokenInfo(slot, C.byref(ti))
        if rv:
            return rv, None
        return rv, dict(label=bytes(ti.label), serial=bytes(ti.serialNumber), flags=ti.flags,
                        sessions=ti.ulSessionCount, rwsessions=ti.ulRwSessionCount,
                        maxpin=ti.ulMaxPinLen, minpin=ti.ulMinPinLen, model=bytes(ti.model),
                        manufacturer=bytes(ti.manufacturerID))

    def slot_info(self, slot):
        si = CK_SLOT_INFO()
        rv = self.lib.C_GetSlotInfo(slot, C.byref(si))
        return rv, (dict(flags=si.flags, desc=bytes(si.slotDescription)) if rv == 0 else None)

    def mechanism_list(self, slot):
        n = ULONG(0)
        rv = self.lib.C_GetMechanismList(slot, None, C.byref(n))
        if rv:
            return rv, []
        arr = (ULONG * max(n.value, 1))()
        rv = self.lib.C_GetMechanismList(slot, arr, C.byref(n))
        return rv, [arr[i] for i in range(n.value)]

    def mechanism_info(self, slot, mech):
        mi = CK_MECHANISM_INFO()
        rv = self.lib.C_GetMechanismInfo(slot, mech, C.byref(mi))
        return rv, (dict(min=mi.ulMinKeySize, max=mi.ulMaxKeySize, flags=mi.flags) if rv == 0 else None)

    def init_token(self, slot, pin, label):
        lab = (label + b" " * 32)[:32]
        return self.lib.C_InitToken(slot, C.c_char_p(pin) if pin is not None else None, len(pin or b""), C.c_char_p(lab))

    def init_pin(self, s, pin):
        return self.lib.C_InitPIN(s, C.c_char_p(pin) if pin is not None else None, len(pin or b""))

    def set_pin(self, s, old, new):
        return self.lib.C_SetPIN(s, C.c_char_p(old) if old is not None else None, len(old or b""),
                                 C.c_char_p(new) if new is not None else None, len(new or b""))

    # ---- sessions
    def open_session(self, slot, rw, serial=True):
        h = ULONG(0)
        flags = (K.CKF_SERIAL_SESSION if serial else 0) | (K.CKF_RW_SESSION if rw else 0)
        rv = self.lib.C_OpenSession(slot, flags, None, None, C.byref(h))
        return rv, h.value

    def close_session(self, s):
        return self.lib.C_CloseSession(s)

    def close_all(self, slot):
        return self.lib.C_CloseAllSessions(slot)

    def session_info(self, s):
        si = CK_SESSION_INFO()
        rv = self.lib.C_GetSessionInfo(s, C.byref(si))
        if rv:
            return rv, None
        return rv, dict(slot=si.slotID, state=si.state, flags=si.flags)

    def login(self, s, user, pin):
        return self.lib.C_Login(s, user, C.c_char_p(pin) if pin is not None else None, len(pin or b""))

    def logout(self, s):
        return self.lib.C_Logout(s)

    # ---- objects
    # The output handle variable of every object-making call is NOT zero on entry: it holds the handle of an object made
    # earlier (alternately the newest and the oldest of the last four).  A correct library never looks at it; one that
    # cleans up "the new object" through it after a failure destroys a bystander, which the projections then miss.
    def _hvar(self):
        rec = getattr(self, "_recent", None)
        if rec is None:
            rec = self._recent = []
            self._hcalls = 0
        self._hcalls += 1
        seed = (rec[-1] if self._hcalls % 2 else rec[0]) if rec else 0
        return ULONG(seed), seed

    def _hout(self, rv, h, seed):
        if rv == 0 and h.value:
            self._recent.append(h.value)
            del self._recent[:-4]
            return h.value
        return 0 if (rv != 0 and h.value == seed) else h.value

    def _order(self, attrs):
        """PKCS#11 gives the order of the entries of a template no meaning (as long as no attribute is named twice): every
        other object-making call gets its template in reverse order - CKA_CLASS last, CKA_PRIVATE / CKA_TOKEN before it."""
        attrs = list(attrs)
        self._ocalls = getattr(self, "_ocalls", 0) + 1
        types = [a[0] for a in attrs]
        if len(attrs) >= 3 and len(set(types)) == len(types) and self._ocalls % 2 == 0:
            attrs.reverse()
        return attrs

    def create_object(self, s, attrs):
        t = Template(self._order(attrs))
        h, seed = self._hvar()
        rv = self.lib.C_CreateObject(s, t.ptr, t.n, C.byref(h))
        return rv, self._hout(rv, h, seed)

    def copy_object(self, s, o, attrs):
        t = Template(attrs)
        h, seed = self._hvar()
        rv = self.lib.C_CopyObject(s, o, t.arr, t.n, C.byref(h))   # non-NULL pointer also for an empty template
        return rv, self._hout(rv, h, seed)

    def destroy_object(self, s, o):
        return self.lib.C_DestroyObject(s, o)

    def object_size(self, s, o):
        n = ULONG(0)
        rv = self.lib.C_GetObjectSize(s, o, C.byref(n))
        return rv, n.value

    def set_attrs(self, s, o, attrs):
        t = Template(attrs)
        return self.lib.C_SetAttributeValue(s, o, t.ptr, t.n)

    def get_attrs_raw(self, s, o, types, bufsizes):
        """One C_GetAttributeValue call with caller-chosen buffers.  bufsizes[i] is None (NULL pValue) or an
        int (buffer of that size, filled with a canary, with 16 guard bytes behind it).
        Returns rv, [(ulValueLen, bytes_of_buffer_or_None, guard_intact)]."""
        n = len(types)
        arr = (CK_ATTRIBUTE * max(n, 1))()
        bufs = []
        for i, t in enumerate(types):
            arr[i].type = t
            if bufsizes[i] is None:
                arr[i].pValue = None
                arr[i].ulValueLen = 0
                bufs.append(None)
            else:
                b = (C.c_ubyte * (bufsizes[i] + 16))(*([CANARY] * (bufsizes[i] + 16)))
                bufs.append(b)
                arr[i].pValue = C.cast(b, C.c_void_p)
                arr[i].ulValueLen = bufsizes[i]
        rv = self.lib.C_GetAttributeValue(s, o, arr, n)
        out = []
        for i in range(n):
            if bufs[i] is None:
                out.append((arr[i].ulValueLen, None, True))
            else:
                raw = bytes(bufs[i])
                out.append((arr[i].ulValueLen, raw[:bufsizes[i]], raw[bufsizes[i]:] == bytes([CANARY]) * 16))
        return rv, out

    def get_attrs(self, s, o, types):
        """Two-call protocol.  Returns rv of the value call and {type: bytes|None}; None = unavailable."""
        rv1, sizes = self.get_attrs_raw(s, o, types, [None] * len(types))
        if rv1 in (K.CKR_OBJECT_HANDLE_INVALID, K.CKR_SESSION_HANDLE_INVALID, K.CKR_CRYPTOKI_NOT_INITIALIZED,
                   K.CKR_GENERAL_ERROR, K.CKR_ARGUMENTS_BAD):
            return rv1, {}
        bs = [0 if ln == UNAVAIL else ln for (ln, _, _) in sizes]
        rv2, vals = self.get_attrs_raw(s, o, types, bs)
        res = {}
        for t, (ln, raw, ok) in zip(types, vals):
            res[t] = None if ln == UNAVAIL else raw[:ln]
        return rv2, res

    def get_attr(self, s, o, t):
        rv, d = self.get_attrs(s, o, [t])
        return rv, d.get(t)

    def find(self, s, attrs, batch=64, maxn=100000):
        t = Template(attrs)
        rv = self.lib.C_FindObjectsInit(s, t.ptr, t.n)
        if rv:
            return rv, []
        res = []
        while len(res) < maxn:
            arr = (ULONG * batch)()
            n = ULONG(0)
            rv = self.lib.C_FindObjects(s, arr, batch, C.byref(n))
            if rv or n.value == 0:
                break
            res.extend(arr[i] for i in range(n.value))
        rv2 = self.lib.C_FindObjectsFinal(s)
        return rv or rv2, res

    def find_init(self, s, attrs):
        t = Template(attrs)
        return self.lib.C_FindObjectsInit(s, t.ptr, t.n)

    def find_next(self, s, maxn):
        arr = (ULONG * max(maxn, 1))()
        n = ULONG(0)
        rv = self.lib.C_FindObjects(s, arr, maxn, C.byref(n))
        return rv, [arr[i] for i in range(min(n.value, max(maxn, 1)))], n.value

    def find_final(self, s):
        return self.lib.C_FindObjectsFinal(s)

    # ---- keys
    def generate_key(self, s, mech, attrs):
        t = Template(self._order(attrs))
        h, seed = self._hvar()
        rv = self.lib.C_GenerateKey(s, mech.ptr, t.ptr, t.n, C.byref(h))
        return rv, self._hout(rv, h, seed)

    def generate_key_pair(self, s, mech, pub, priv):
        t1, t2 = Template(pub), Template(priv)
        h1, seed1 = self._hvar()
        h2, seed2 = self._hvar()
        rv = self.lib.C_GenerateKeyPair(s, mech.ptr, t1.ptr, t1.n, t2.ptr, t2.n, C.byref(h1), C.byref(h2))
        return rv, self._hout(rv, h1, seed1), self._hout(rv, h2, seed2)

    def wrap_key(self, s, mech, wk, key, bufsize="auto"):
        """bufsize: 'auto' = query then exact; None = query only; int = that buffer."""
        n = ULONG(0)
        if bufsize == "auto" or bufsize is None:
            rv = self.lib.C_WrapKey(s, mech.ptr, wk, key, None, C.byref(n))
            if rv or bufsize is None:
                return rv, None, n.value
            size = n.value
        else:
            size = bufsize
        if size > (1 << 24):
            return K.CKR_GENERAL_ERROR, None, size
        b = (C.c_ubyte * (size + 16))(*([CANARY] * (size + 16)))
        n = ULONG(size)
        rv = self.lib.C_WrapKey(s, mech.ptr, wk, key, b, C.byref(n))
        raw = bytes(b)
        return rv, (raw[:n.value] if rv == 0 and n.value <= size else None), n.value

    def unwrap_key(self, s, mech, uk, blob, attrs):
        t = Template(self._order(attrs))
        h, seed = self._hvar()
        bb = buf_ptr(blob)
        rv = self.lib.C_UnwrapKey(s, mech.ptr, uk, bb, len(blob), t.ptr, t.n, C.byref(h))
        return rv, self._hout(rv, h, seed)

    def derive_key(self, s, mech, base, attrs):
        t = Template(self._order(attrs))
        h, seed = self._hvar()
        rv = self.lib.C_DeriveKey(s, mech.ptr, base, t.ptr, t.n, C.byref(h))
        return rv, self._hout(rv, h, seed)

    # ---- operations
    def op_init(self, kind, s, mech, key=None):
        f = getattr(self.lib, "C_%sInit" % kind)
        if kind == "Digest":
            return f(s, mech.ptr if mech is not None else None)
        return f(s, mech.ptr if mech is not None else None, key)

    def op_io(self, fname, s, data, bufsize):
        """Calls C_<fname>(s, data, len, out, &outlen) for the in/out calls (Encrypt, EncryptUpdate, Decrypt,
        DecryptUpdate, Digest, Sign).  bufsize None = NULL out pointer; int = buffer of that size.
        Returns dict(rv, len, out, guard)."""
        f = getattr(self.lib, "C_" + fname)
        inb = buf_ptr(data) if data is not None else None
        n = ULONG(bufsize if bufsize is not None else 0)
        if bufsize is None:
            rv = f(s, inb, len(data or b""), None, C.byref(n))
            return dict(rv=rv, len=n.value, out=None, guard=True)
        b = (C.c_ubyte * (bufsize + 32))(*([CANARY] * (bufsize + 32)))
        rv = f(s, inb, len(data or b""), b, C.byref(n))
        raw = bytes(b)
        return dict(rv=rv, len=n.value, out=raw[:bufsize], guard=raw[bufsize:] == bytes([CANARY]) * 32)

    def op_final(self, fname, s, bufsize):
        f = getattr(self.lib, "C_" + fname)
        n = ULONG(bufsize if bufsize is not None else 0)
        if bufsize is None:
            rv = f(s, None, C.byref(n))
            return dict(rv=rv, len=n.value, out=None, guard=True)
        b = (C.c_ubyte * (bufsize + 32))(*([CANARY] * (bufsize + 32)))
        rv = f(s, b, C.byref(n))
        raw = bytes(b)
        return dict(rv=rv, len=n.value, out=raw[:bufsize], guard=raw[bufsize:] == bytes([CANARY]) * 32)

    def op_update(self, fname, s, data):
        f = getattr(self.lib, "C_" + fname)
        inb = buf_ptr(data)
        return f(s, inb, len(data))

    def verify(self, s, data, sig):
        return self.lib.C_Verify(s, buf_ptr(data), len(data), buf_ptr(sig), len(sig))

    def verify_final(self, s, sig):
        return self.lib.C_VerifyFinal(s, buf_ptr(sig), len(sig))

    def digest_key(self, s, key):
        return self.lib.C_DigestKey(s, key)

    def io_full(self, fname, s, data):
        """query + exact call; returns (rv, bytes)."""
        r = self.op_io(fname, s, data, None)
        if r["rv"]:
            return r["rv"], None
        if r["len"] > (1 << 24):
            return K.CKR_GENERAL_ERROR, None
        r2 = self.op_io(fname, s, data, r["len"])
        return r2["rv"], (r2["out"][:r2["len"]] if r2["rv"] == 0 else None)

    def final_full(self, fname, s):
        r = self.op_final(fname, s, None)
        if r["rv"]:
            return r["rv"], None
        if r["len"] > (1 << 24):
            return K.CKR_GENERAL_ERROR, None
        r2 = self.op_final(fname, s, r["len"])
        return r2["rv"], (r2["out"][:r2["len"]] if r2["rv"] == 0 else None)

    def generate_random(self, s, n):
        b = (C.c_ubyte * max(n, 1))()
        rv = self.lib.C_GenerateRandom(s, b, n)
        return rv, bytes(b)[:n]
