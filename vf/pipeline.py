"""Model check -> behaviours -> replay on the implementation -> trace validation (both binding directions)."""
import concurrent.futures as cf
import json
import re
import os
import random
import shutil
import subprocess
import sys
import time

from . import tlc, walker
from .check import Broken, ROOT

PY = sys.executable


def model_check(ctx, module, name, constants, invariants=(), properties=(), view="View", dump=False, workers=16,
                xmx="8g", timeout=1500, constraint=None, spec="Spec", coverage=False, env=None):
    wd = ctx.sub("mc-" + name)
    cfg = os.path.join(wd, name + ".cfg")
    tlc.write_cfg(cfg, spec=spec, constants=constants, invariants=invariants, properties=properties,
                  view=view if view else None, constraint=constraint)
    dot = os.path.join(wd, name + ".dot") if dump else None
    try:
        res = tlc.run_mc(module, cfg, wd, workers=workers, xmx=xmx, timeout=timeout, dump_dot=dot, coverage=coverage,
                         env=env)
    except tlc.TLCBroken as e:
        raise Broken(str(e))
    if res.violated or not res.ok:
        raise Broken("the required model %s/%s violates %s - the specification is in error:\n%s"
                     % (module, name, res.violated, res.output[-2500:]))
    ctx.log("TLC %s/%s: %d states, %d transitions, depth %d, %.1fs" % (module, name, res.distinct, res.generated,
                                                                      res.depth, res.wall))
    g = walker.load_dot(dot) if dump else None
    if dump:
        os.remove(dot)
    return res, g


def simulate(ctx, module, name, constants, num, depth, invariants=(), workers=4, timeout=600, spec="HSpec"):
    """Behaviours beyond the exhaustive bounds: tlc -simulate on the history variant of a model."""
    import re
    wd = ctx.sub("sim-" + name)
    cfg = os.path.join(wd, name + ".cfg")
    c = dict(constants)
    c["Depth"] = depth
    tlc.write_cfg(cfg, spec=spec, constants=c, invariants=invariants, constraint="Emit")
    per = max(1, num // workers)
    try:
        res = tlc.run_mc(module, cfg, wd, workers=workers, xmx="4g", timeout=timeout, simulate=per, depth=depth,
                         seed=ctx.seed)
    except tlc.TLCBroken as e:
        raise Broken(str(e))
    if res.violated:
        raise Broken("simulation of the required model %s violates %s:\n%s" % (module, res.violated, res.output[-2000:]))
    behs = []
    for m in re.finditer(r'<<"BEH", "(.*)">>', res.output):
        try:
            behs.append(json.loads(m.group(1).replace('\\"', '"')))
        except ValueError:
            pass
    ctx.log("TLC simulate %s/%s: %d behaviours of depth %d (%.1fs)" % (module, name, len(behs), depth, res.wall))
    return behs


def _run_driver(args, out, timeout, env=None):
    e = dict(os.environ)
    e["PYTHONPATH"] = ROOT
    if env:
        e.update(env)
    try:
        r = subprocess.run(args, cwd=ROOT, stdout=subprocess.PIPE, stderr=subprocess.PIPE, timeout=timeout, env=e)
    except subprocess.TimeoutExpired:
        return -9, "driver timed out"
    return r.returncode, r.stderr.decode(errors="replace")[-2000:]


def split_executions(trace_path):
    """Returns list of (start_line_index, end_line_index_exclusive, behaviour_index) per execution (0-based lines)."""
    ex = []
    with open(trace_path) as f:
        lines = f.readlines()
    cur = None
    for i, ln in enumerate(lines):
        if ln.startswith('{"e":"Reset"'):
            if cur is not None:
                ex.append((cur[0], i, cur[1]))
            try:
                b = json.loads(ln).get("b", -1)
            except ValueError:
                b = -1
            cur = (i, b)
    if cur is not None:
        ex.append((cur[0], len(lines), cur[1]))
    return ex, lines


class ReplayStats(object):
    def __init__(self):
        self.executions = 0
        self.accepted = 0
        self.events = 0
        self.rejected = []     # dicts
        self.samples = []
        self.okcount = {}      # action -> [calls that returned OK, calls that failed]
        self.devlog = []       # deviations used by accepting validations: dict(name, trace, behaviour)
        self.wall = 0.0


def replay_validate(ctx, name, driver_mod, driver_args, behaviours, trace_module, trace_constants, invariants=(),
                    jobs=8, drv_timeout=1500, classify=None, env=None, trace_cfg_extra=None, max_rej_per_chunk=2,
                    max_confirm=6, seed_base=None, rerun=True):
    """behaviours: list of lists of labels.  driver command:
         python -m <driver_mod> <lib> <behaviours.json> <out.ndjson> <workdir> <seed> <driver_args...>
       (driver_args[0] must be the library path).  classify(rej) may turn a confirmed rejection into a known finding:
       it returns the finding id or None."""
    st = ReplayStats()
    st.meta = dict(trace_module=trace_module, trace_constants=trace_constants, invariants=list(invariants),
                   env=env or {})
    t0 = time.time()
    if not behaviours:
        return st
    jobs = max(1, min(jobs, len(behaviours)))
    chunks = [[] for _ in range(jobs)]
    for i, b in enumerate(behaviours):
        chunks[i % jobs].append((i, b))
    sb = ctx.seed if seed_base is None else seed_base
    wd = ctx.sub("rp-" + name)
    cfg = os.path.join(wd, "trace.cfg")
    tlc.write_cfg(cfg, spec="TSpec", constants=trace_constants, invariants=invariants, constraint="TrackMax",
                  postcondition="TraceAccepted")

    def one(k):
        cw = os.path.join(wd, "c%d" % k)
        os.makedirs(cw)
        bfile = os.path.join(cw, "beh.json")
        with open(bfile, "w") as f:
            json.dump([b for _, b in chunks[k]], f)
        out = os.path.join(cw, "trace.ndjson")
        lib = driver_args[0]
        rc, err = _run_driver([PY, "-m", driver_mod, lib, bfile, out, cw, str(sb + k)] + list(driver_args[1:]),
                              out, drv_timeout, env)
        if not os.path.exists(out):
            raise Broken("driver produced no trace (%s): rc=%s %s" % (name, rc, err))
        if rc == 3:
            raise Broken("the driver itself failed (%s): %s" % (name, err[-1200:]))
        if rc != 0:
            # the process ended inside the library (exit(), abort, signal): make that an event no model explains
            with open(out, "rb+") as f:
                data = f.read()
                if not data.endswith(b"\n"):
                    data = data[:data.rfind(b"\n") + 1]
                if not data.rstrip().endswith(b'{"e":"ProcessDied"}'):
                    data += b'{"e":"ProcessDied"}\n'
                f.seek(0)
                f.truncate()
                f.write(data)
        return k, cw, out, rc, err

    with cf.ThreadPoolExecutor(max_workers=jobs) as ex:
        results = list(ex.map(one, range(jobs)))

    def validate(path, cw, tag):
        n = sum(1 for _ in open(path))
        try:
            return tlc.validate_trace(trace_module, cfg, path, os.path.join(cw, "v-" + tag), n)
        except tlc.TLCBroken as e:
            raise Broken(str(e))

    def handle_chunk(res):
        k, cw, out, rc, err = res
        local = dict(executions=0, accepted=0, events=0, rejected=[], samples=[], okcount={}, devlog=[])
        execs, lines = split_executions(out)
        for ln in lines:
            try:
                e = json.loads(ln)
            except ValueError:
                continue
            if "note" in e and e["note"]:
                # an observation outside the property the check decides (events may carry one): into the evidence notes
                local.setdefault("notes", {}).setdefault(str(e["note"])[:300], 0)
                local["notes"][str(e["note"])[:300]] += 1
            key = e.get("e", "?") + (":" + str(e["f"]) if "f" in e else "") + (":" + str(e["how"]) if "how" in e else "")
            c = local["okcount"].setdefault(key, [0, 0])
            c[0 if e.get("rv") == "OK" else 1] += 1
        local["executions"] = len(execs)
        local["events"] = len(lines)
        cur = out
        rounds = 0
        removed = set()
        while True:
            rounds += 1
            os.makedirs(os.path.join(cw, "v-%d" % rounds), exist_ok=True)
            r = validate(cur, cw, str(rounds))
            if r.accepted:
                # deviations (known findings) the accepting run of the trace specification may have used (candidates)
                for b_s, dname in sorted(set(re.findall(r'<<"DEV", (\d+), "(\w+)">>', r.output))):
                    for (a, b, bi) in execs:
                        if bi == int(b_s):
                            local["devlog"].append(dict(name=dname, trace=[x.strip() for x in lines[a:b]],
                                                        behaviour=chunks[k][bi][1] if 0 <= bi < len(chunks[k]) else None))
                break
            # locate the failing execution in the current file
            execs_c, lines_c = split_executions(cur)
            bad = None
            for (a, b, bi) in execs_c:
                if a <= r.matched < b:
                    bad = (a, b, bi)
                    break
            if bad is None and not execs_c:
                # nothing but the end marker: the process died before its first execution wrote anything
                execs_c = [(0, len(lines_c), 0)]
                bad = execs_c[0]
            if bad is None:
                raise Broken("cannot locate rejected event %d in %s" % (r.matched, cur))
            a, b, bi = bad
            gi = chunks[k][bi][0] if 0 <= bi < len(chunks[k]) else -1
            local["rejected"].append(dict(behaviour=chunks[k][bi][1] if gi >= 0 else None, index=gi,
                                          event_no=r.matched - a, event=lines_c[r.matched].strip(),
                                          trace=[x.strip() for x in lines_c[a:min(b, r.matched + 1)]],
                                          chunk=k, seed=sb + k))
            removed.add(bi)
            nxt = os.path.join(cw, "trace-r%d.ndjson" % rounds)
            with open(nxt, "w") as f:
                f.writelines(lines_c[:a] + lines_c[b:])
            cur = nxt
            if rounds >= max_rej_per_chunk:
                local["unvalidated_rest"] = True
                break
        local["accepted"] = local["executions"] - len(removed)
        if execs:
            a, b, bi = execs[0]
            local["samples"].append([json.loads(x) for x in lines[a:min(b, a + 6)]])
        return local

    with cf.ThreadPoolExecutor(max_workers=jobs) as ex:
        locs = list(ex.map(handle_chunk, results))
    seen_notes = {}
    for loc in locs:
        for k2, v2 in loc.get("notes", {}).items():
            seen_notes[k2] = seen_notes.get(k2, 0) + v2
        st.executions += loc["executions"]
        st.accepted += loc["accepted"]
        st.events += loc["events"]
        st.rejected.extend(loc["rejected"])
        st.devlog.extend(loc["devlog"])
        st.samples.extend(loc["samples"])
        for k2, v2 in loc["okcount"].items():
            c = st.okcount.setdefault(k2, [0, 0])
            c[0] += v2[0]
            c[1] += v2[1]
    for k2 in sorted(seen_notes)[:20]:
        msg = "beyond the listed properties (%s): %s [%d events]" % (name, k2, seen_notes[k2])
        if not any(n.startswith("beyond the listed properties") and k2 in n for n in ctx.notes):
            ctx.notes.append(msg)
    for (k, cw, out, rc, err) in results:
        if rc != 0:
            ctx.notes.append("driver chunk %d of %s ended with rc=%s: %s" % (k, name, rc, err[-300:]))
    # confirm each rejection by re-running its behaviour alone; only reproducible ones count
    confirmed = []
    for rj in st.rejected:
        if len(confirmed) >= max_confirm:
            break
        if rj["behaviour"] is None or not rerun:
            # (rerun=False: schedules that cannot be re-imposed - free-running threads; the recorded trace was
            #  validated by TLC and is the evidence)
            confirmed.append(rj)
            continue
        cw = os.path.join(wd, "re%d" % len(confirmed + [0]) + "-%d" % rj["index"])
        os.makedirs(cw, exist_ok=True)
        bfile = os.path.join(cw, "beh.json")
        with open(bfile, "w") as f:
            json.dump([rj["behaviour"]], f)
        out = os.path.join(cw, "trace.ndjson")
        rc, err = _run_driver([PY, "-m", driver_mod, driver_args[0], bfile, out, cw, str(rj["seed"])] +
                              list(driver_args[1:]), out, drv_timeout, env)
        if not os.path.exists(out):
            raise Broken("re-run of rejected behaviour produced no trace: " + err)
        if rc == 3:
            raise Broken("the driver itself failed on re-run (%s): %s" % (name, err[-1200:]))
        if rc != 0:
            with open(out, "a") as f:
                f.write('{"e":"ProcessDied"}\n')
        os.makedirs(os.path.join(cw, "v-x"), exist_ok=True)
        r = validate(out, cw, "x")
        if r.accepted:
            ctx.notes.append("rejection of behaviour %d in %s did not reproduce on re-run (not reported); event %d: %s"
                             % (rj["index"], name, rj["event_no"], rj["event"][:1500]))
            continue
        rj["rerun_event"] = open(out).readlines()[r.matched].strip() if r.matched < r.total else ""
        rj["rerun_trace"] = out
        rj["rerun_dir"] = cw
        confirmed.append(rj)
    st.rejected = confirmed
    st.wall = time.time() - t0
    ctx.log("replay %s: %d executions, %d events, %d accepted, %d rejected (%.1fs)" %
            (name, st.executions, st.events, st.accepted, len(st.rejected), st.wall))
    return st


def report_rejections(ctx, name, st, driver_mod, driver_args, classify=None):
    """Turns confirmed rejections into KNOWN-FINDING or VIOLATION lines (one replay dir per violation, at most 5)."""
    nviol = 0
    for rj in st.rejected:
        fid = classify(rj) if classify else None
        if fid:
            ctx.known_finding(fid[0], fid[1])
            continue
        nviol += 1
        if nviol > 5:
            continue
        d = ctx.new_replay_dir(name)
        with open(os.path.join(d, "behaviour.json"), "w") as f:
            json.dump([rj["behaviour"]], f)
        with open(os.path.join(d, "trace.ndjson"), "w") as f:
            f.write("\n".join(rj["trace"]) + "\n")
        with open(os.path.join(d, "info.json"), "w") as f:
            json.dump(dict(property=ctx.prop, check=name, first_unmatched_event_no=rj["event_no"],
                           first_unmatched_event=rj["event"], seed=rj["seed"], driver=driver_mod,
                           driver_args=list(driver_args[1:]), build_cfg=getattr(st, "build_cfg", "ossl"),
                           **st.meta), f, indent=1)
        with open(os.path.join(d, "replay.sh"), "w") as f:
            f.write("#!/bin/sh\n# re-executes the behaviour on the current /repo build and validates the trace\n"
                    "cd %s && exec bin/check --replay %s\n" % (ROOT, d))
        os.chmod(os.path.join(d, "replay.sh"), 0o755)
        ctx.violation("%s: trace rejected at event %d of behaviour %d: %s" %
                      (name, rj["event_no"], rj["index"], rj["event"][:300]), d)
    return nviol


def graphs_replay(ctx, mc_module, trace_module, driver_mod, graphs, invariants, properties, maxlen=50, jobs=14,
                  view="View"):
    """graphs: [dict(name=, constants=, trace_constants=, driver_args=[lib, ...], variants=[(suffix, extra_args)])].
    Exhaustive TLC + dump, edge-covering walks, replay, trace validation.  Returns summed statistics."""
    out = dict(states=0, transitions=0, edges_total=0, edges_replayed=0, accepted=0, executions=0, events=0,
               samples=[], okcount={}, devlog=[])
    only = [x for x in os.environ.get("VERIF_ONLY", "").split(",") if x]     # development runs: a subset of the graphs
    for gr in graphs:
        if only and not any(gr["name"] == x or gr["name"].startswith(x + "-") for x in only):
            continue
        res, g = model_check(ctx, mc_module, gr["name"], gr["constants"], invariants=invariants, properties=properties,
                             dump=True, view=view)
        out["states"] += res.distinct
        out["transitions"] += res.generated
        walks, cov, tot = walker.edge_cover(g, maxlen=gr.get("maxlen", maxlen), rng=random.Random(ctx.seed),
                                            maxwalks=gr.get("maxwalks"))
        out["edges_total"] += tot
        out["edges_replayed"] += cov
        if gr.get("pairs"):
            # in addition, walks that cover PAIRS of consecutive transitions (the abstract state forgets how it was reached,
            # the implementation may not): gr["pairs"] walks over the line graph, or all of them (True)
            w2, c2, t2 = walker.edge_cover(walker.line_graph(g), maxlen=gr.get("maxlen", maxlen),
                                           rng=random.Random(ctx.seed + 1), maxwalks=None if gr["pairs"] is True else gr["pairs"])
            walks = walks + w2
            out["pairs_total"] = out.get("pairs_total", 0) + t2
            out["pairs_replayed"] = out.get("pairs_replayed", 0) + c2
        if gr.get("repeat"):
            # walks through actions whose concretisation is randomised (styles, buffer sizes) are replayed k times
            sub, k = gr["repeat"]
            extra = [w for w in walks if any(sub in str(x) for x in w)]
            walks = walks + extra * (k - 1)
        for var in gr.get("variants", [("", [])]):
            suffix, args = var[0], var[1]
            soff = var[2] if len(var) > 2 else 0
            nm = gr["name"] + suffix
            if ctx.violations:
                ctx.notes.append("replay of %s skipped after a violation was found" % nm)
                continue
            dargs = list(gr["driver_args"]) + list(args)
            st = replay_validate(ctx, nm, driver_mod, dargs, walks, trace_module, gr["trace_constants"],
                                 invariants=invariants, jobs=jobs, seed_base=ctx.seed + soff)
            report_rejections(ctx, nm, st, driver_mod, dargs, classify=gr.get("classify"))
            out["accepted"] += st.accepted
            out["executions"] += st.executions
            out["events"] += st.events
            out["devlog"].extend(st.devlog)
            for k2, v2 in st.okcount.items():
                c2 = out["okcount"].setdefault(k2, [0, 0])
                c2[0] += v2[0]
                c2[1] += v2[1]
            if st.samples and len(out["samples"]) < 2:
                out["samples"].append(st.samples[0])
    return out
