"""Builds the CURRENT working tree of /repo out of tree, with the verification guard defined.

Build directories live in ${VERIF_CACHE:-/var/tmp/verif-cache}/<source-hash>/<cfg>; nothing there has to exist
beforehand.  The hash covers the content of every tracked file and every untracked file below src/, so an edited
tree is always rebuilt and an unchanged one is reused.  Only the two most recent hashes are kept.
"""
import fcntl
import hashlib
import os
import re
import shutil
import subprocess
import sys
import time

REPO = os.environ.get("VERIF_REPO", "/repo")
CACHE = os.environ.get("VERIF_CACHE", "/var/tmp/verif-cache")
GUARD = "SOFTHSMV2_VERIF"

CONFIGS = {
    # name: (cmake options, extra CXX flags, strip msvc flags)
    "ossl": (["-DWITH_CRYPTO_BACKEND=openssl", "-DWITH_OBJECTSTORE_BACKEND_DB=ON"], "", False),
    "botan": (["-DWITH_CRYPTO_BACKEND=botan", "-DWITH_OBJECTSTORE_BACKEND_DB=ON"], "", True),
    "ossl-asan": (["-DWITH_CRYPTO_BACKEND=openssl", "-DWITH_OBJECTSTORE_BACKEND_DB=ON"],
                  "-fsanitize=address,undefined -fno-omit-frame-pointer -fno-sanitize-recover=address", False),
    "ossl-tsan": (["-DWITH_CRYPTO_BACKEND=openssl", "-DWITH_OBJECTSTORE_BACKEND_DB=ON"],
                  "-fsanitize=thread -fno-omit-frame-pointer", False),
    "ossl-noguard": (["-DWITH_CRYPTO_BACKEND=openssl", "-DWITH_OBJECTSTORE_BACKEND_DB=ON"], None, False),
}


class BuildError(Exception):
    pass


def source_hash():
    h = hashlib.sha256()
    out = subprocess.check_output(["git", "-C", REPO, "ls-files", "-z"])
    files = [f for f in out.decode().split("\0") if f]
    out = subprocess.check_output(["git", "-C", REPO, "ls-files", "-z", "-o", "--exclude-standard", "src", "cmake"])
    files += [f for f in out.decode().split("\0") if f]
    for f in sorted(set(files)):
        p = os.path.join(REPO, f)
        h.update(f.encode() + b"\0")
        try:
            with open(p, "rb") as fh:
                h.update(hashlib.sha256(fh.read()).digest())
        except (IOError, OSError):
            h.update(b"<missing>")
    return h.hexdigest()[:20]


def _prune(keep):
    try:
        ents = [e for e in os.listdir(CACHE) if os.path.isdir(os.path.join(CACHE, e)) and e != keep]
    except OSError:
        return
    ents.sort(key=lambda e: os.path.getmtime(os.path.join(CACHE, e)), reverse=True)
    for e in ents[1:]:
        shutil.rmtree(os.path.join(CACHE, e), ignore_errors=True)


def build(cfg="ossl", targets=("softhsm2",), quiet=True):
    """Returns the build directory.  Library: <dir>/src/lib/libsofthsm2.so"""
    opts, flags, strip = CONFIGS[cfg]
    os.makedirs(CACHE, exist_ok=True)
    sh = source_hash()
    bdir = os.path.join(CACHE, sh, cfg)
    os.makedirs(os.path.join(CACHE, sh), exist_ok=True)
    lockf = open(os.path.join(CACHE, sh, cfg + ".lock"), "w")
    fcntl.flock(lockf, fcntl.LOCK_EX)
    try:
        stamp = os.path.join(bdir, ".verif-built-" + "-".join(sorted(targets)))
        need = [t for t in targets if not os.path.exists(os.path.join(bdir, ".verif-built-" + t))]
        if not need:
            os.utime(os.path.join(CACHE, sh), None)
            return bdir
        t0 = time.time()
        cxx = "-Wno-error" + ("" if flags is None else " -D%s %s" % (GUARD, flags))
        if not os.path.exists(os.path.join(bdir, "build.ninja")):
            cmd = ["cmake", "-G", "Ninja", "-S", REPO, "-B", bdir, "-DBUILD_TESTS=OFF", "-DENABLE_ECC=ON",
                   "-DENABLE_EDDSA=ON", "-DENABLE_P11_KIT=OFF", "-DCMAKE_BUILD_TYPE=RelWithDebInfo",
                   "-DCMAKE_CXX_FLAGS=" + cxx] + opts
            if flags and "sanitize" in flags:
                cmd.append("-DCMAKE_SHARED_LINKER_FLAGS=" + flags.split()[0])
                cmd.append("-DCMAKE_EXE_LINKER_FLAGS=" + flags.split()[0])
            r = subprocess.run(cmd, stdout=subprocess.PIPE, stderr=subprocess.STDOUT)
            if r.returncode:
                raise BuildError("cmake failed for %s:\n%s" % (cfg, r.stdout.decode(errors="replace")[-3000:]))
        if strip:
            _build_stripped(bdir, need)
        else:
            r = subprocess.run(["ninja", "-C", bdir] + list(need), stdout=subprocess.PIPE, stderr=subprocess.STDOUT)
            if r.returncode:
                raise BuildError("build failed for %s:\n%s" % (cfg, r.stdout.decode(errors="replace")[-4000:]))
        for t in need:
            open(os.path.join(bdir, ".verif-built-" + t), "w").write(str(time.time() - t0))
        if not quiet:
            sys.stderr.write("[build] %s %s in %.1fs\n" % (cfg, ",".join(need), time.time() - t0))
        _prune(sh)
        return bdir
    finally:
        fcntl.flock(lockf, fcntl.LOCK_UN)
        lockf.close()


def _build_stripped(bdir, targets):
    """The Botan CMake path injects MSVC '/wd....' flags; strip them from the generated commands."""
    bn = os.path.join(bdir, "build.ninja")
    txt = open(bn).read()
    new = re.sub(r" /wd[0-9]+", "", txt)
    if new != txt:
        open(bn, "w").write(new)
    for sub in os.listdir(bdir):
        pass
    # rules may live in sub-ninja files too
    for root, _, files in os.walk(bdir):
        for f in files:
            if f.endswith(".ninja"):
                p = os.path.join(root, f)
                t = open(p).read()
                n = re.sub(r" /wd[0-9]+", "", t)
                if n != t:
                    open(p, "w").write(n)
    r = subprocess.run(["ninja", "-C", bdir] + list(targets), stdout=subprocess.PIPE, stderr=subprocess.STDOUT)
    if r.returncode:
        raise BuildError("build failed (botan):\n%s" % r.stdout.decode(errors="replace")[-4000:])


def libpath(bdir):
    return os.path.join(bdir, "src", "lib", "libsofthsm2.so")


def utilpath(bdir):
    return os.path.join(bdir, "src", "bin", "util", "softhsm2-util")


def dumppath(bdir):
    return os.path.join(bdir, "src", "bin", "dump", "softhsm2-dump-file")


if __name__ == "__main__":
    cfg = sys.argv[1] if len(sys.argv) > 1 else "ossl"
    tg = tuple(sys.argv[2:]) or ("softhsm2",)
    try:
        print(build(cfg, tg, quiet=False))
    except BuildError as e:
        sys.stderr.write(str(e) + "\n")
        sys.exit(2)
