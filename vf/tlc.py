"""Running TLC: exhaustive model checking, graph dumps, simulation and trace validation."""
import os
import re
import shutil
import subprocess
import tempfile
import time

JAR = "/opt/veriftools/tla/tla2tools.jar:/opt/veriftools/tla/CommunityModules-deps.jar"
SPEC = os.path.join(os.path.dirname(os.path.dirname(os.path.abspath(__file__))), "spec")


def _diag(out):
    """the part of TLC's output that says what went wrong (not the list of parsed modules)"""
    for key in ("*** Errors", "Error:", "Exception", "error"):
        i = out.find(key)
        if i >= 0:
            return out[max(0, i - 300):i + 2200]
    return out[-2500:]


class TLCBroken(Exception):
    """TLC could not run or the specification itself is in error (never a verdict about the code)."""


def _java(xmx, extra_props=()):
    return ["java", "-XX:+UseParallelGC", "-Xmx" + xmx] + list(extra_props) + ["-cp", JAR, "tlc2.TLC"]


def write_cfg(path, spec="Spec", constants=None, invariants=(), properties=(), view=None, constraint=None,
              postcondition=None, action_constraint=None, alias=None):
    lines = ["SPECIFICATION " + spec]
    if constants:
        lines.append("CONSTANTS")
        for k, v in constants.items():
            lines.append("  %s = %s" % (k, v))
    if view:
        lines.append("VIEW " + view)
    if constraint:
        lines.append("CONSTRAINT " + constraint)
    if action_constraint:
        lines.append("ACTION_CONSTRAINT " + action_constraint)
    if invariants:
        lines.append("INVARIANTS " + " ".join(invariants))
    if properties:
        lines.append("PROPERTIES " + " ".join(properties))
    if postcondition:
        lines.append("POSTCONDITION " + postcondition)
    if alias:
        lines.append("ALIAS " + alias)
    lines.append("CHECK_DEADLOCK FALSE")
    with open(path, "w") as f:
        f.write("\n".join(lines) + "\n")


def tla_set(xs):
    return "{" + ", ".join(tla_lit(x) for x in xs) + "}"


def tla_lit(x):
    if isinstance(x, bool):
        return "TRUE" if x else "FALSE"
    if isinstance(x, int):
        return str(x)
    return '"%s"' % x


class MCResult(object):
    def __init__(self):
        self.generated = 0
        self.distinct = 0
        self.depth = 0
        self.ok = False
        self.violated = None      # name of violated invariant/property
        self.output = ""
        self.wall = 0.0
        self.coverage = {}


def run_mc(module, cfg, workdir, workers=16, xmx="8g", timeout=900, dump_dot=None, coverage=False, simulate=None,
           depth=None, seed=None, env=None, extra=()):
    """Runs TLC in `workdir` (a scratch directory: the spec directory is copied there)."""
    t0 = time.time()
    sd = os.path.join(workdir, "spec")
    if not os.path.isdir(sd):
        shutil.copytree(SPEC, sd)
    if os.path.dirname(cfg) != sd:
        shutil.copy(cfg, sd)
        cfg = os.path.join(sd, os.path.basename(cfg))
    md = tempfile.mkdtemp(prefix="md", dir=workdir)
    cmd = _java(xmx) + ["-workers", str(workers), "-metadir", md, "-config", cfg]
    if dump_dot:
        cmd += ["-dump", "dot,actionlabels", dump_dot]
    if coverage:
        cmd += ["-coverage", "1"]
    if simulate:
        cmd += ["-simulate", "num=%d" % simulate]
        if depth:
            cmd += ["-depth", str(depth)]
    if seed is not None:
        cmd += ["-seed", str(seed)]
    cmd += list(extra)
    cmd += [os.path.join(sd, module + ".tla")]
    e = dict(os.environ)
    if env:
        e.update(env)
    try:
        r = subprocess.run(cmd, cwd=sd, stdout=subprocess.PIPE, stderr=subprocess.STDOUT, timeout=timeout, env=e)
    except subprocess.TimeoutExpired as ex:
        raise TLCBroken("TLC timed out after %ss on %s" % (timeout, module))
    finally:
        shutil.rmtree(md, ignore_errors=True)
    out = r.stdout.decode(errors="replace")
    res = MCResult()
    res.output = out
    res.wall = time.time() - t0
    m = re.findall(r"(\d+) states generated, (\d+) distinct states found", out)
    if m:
        res.generated, res.distinct = int(m[-1][0]), int(m[-1][1])
    m = re.search(r"depth of the complete state graph search is (\d+)", out)
    if m:
        res.depth = int(m.group(1))
    m = re.search(r"Invariant (\S+) is violated", out)
    if m:
        res.violated = m.group(1)
    m = re.search(r"Action property (\S+) is violated|Temporal properties were violated|line \d+, col \d+ to line \d+, col \d+ of module \S+ is violated", out)
    if m and not res.violated:
        res.violated = m.group(1) or "temporal"
    if "Model checking completed. No error has been found." in out or (simulate and r.returncode == 0):
        res.ok = True
    elif res.violated is None and r.returncode != 0 and not simulate:
        raise TLCBroken("TLC failed on %s (exit %d):\n%s" % (module, r.returncode, out[-3000:]))
    if coverage:
        for m in re.finditer(r"<(\w+) line \d+, col \d+ to line \d+, col \d+ of module (\w+)>: (\d+):(\d+)", out):
            res.coverage[m.group(1)] = (int(m.group(3)), int(m.group(4)))
    return res


class TraceResult(object):
    def __init__(self):
        self.accepted = False
        self.matched = 0      # number of events matched on the longest path
        self.total = 0
        self.output = ""
        self.wall = 0.0
        self.states = 0


def validate_trace(module, cfg, trace_path, workdir, n_events, xmx="2g", timeout=1800, env=None):
    """Validates the ndjson trace against the trace specification `module`.  The cfg must use
    POSTCONDITION TraceAccepted, which prints DIAMETER.  Returns TraceResult."""
    t0 = time.time()
    sd = os.path.join(workdir, "spec")
    if not os.path.isdir(sd):
        shutil.copytree(SPEC, sd)
    if os.path.dirname(cfg) != sd:
        shutil.copy(cfg, sd)
        cfg = os.path.join(sd, os.path.basename(cfg))
    md = tempfile.mkdtemp(prefix="md", dir=workdir)
    cmd = _java(xmx, ["-Dtlc2.tool.queue.IStateQueue=StateDeque"]) + \
        ["-workers", "1", "-metadir", md, "-config", cfg, os.path.join(sd, module + ".tla")]
    e = dict(os.environ)
    e["TRACE"] = trace_path
    if env:
        e.update(env)
    try:
        r = subprocess.run(cmd, cwd=sd, stdout=subprocess.PIPE, stderr=subprocess.STDOUT, timeout=timeout, env=e)
    except subprocess.TimeoutExpired:
        raise TLCBroken("trace validation timed out (%s)" % module)
    finally:
        shutil.rmtree(md, ignore_errors=True)
    out = r.stdout.decode(errors="replace")
    res = TraceResult()
    res.output = out
    res.total = n_events
    res.wall = time.time() - t0
    m = re.findall(r"(\d+) states generated, (\d+) distinct states found", out)
    if m:
        res.states = int(m[-1][1])
    m = re.search(r'"MAXL"[^0-9]*(\d+)', out)
    if m is None:
        raise TLCBroken("trace validation produced no verdict (%s, exit %s):\n%s" % (module, r.returncode, _diag(out)))
    res.matched = int(m.group(1)) - 1
    res.accepted = res.matched >= n_events
    if not res.accepted and "Parsing or semantic analysis failed" in out:
        raise TLCBroken(out[-3000:])
    return res
