"""Independent decoder of SoftHSMv2 token directories (file backend and SQLite backend).

No SoftHSM code is used: its own parser of the object-file format, its own PBE (iterated SHA-256 per RFC 4880
style, hashlib) and AES-256-CBC through libcrypto's EVP interface (ctypes).  It pins the on-disk format: a change
of the encoder and decoder inside the library that keeps the library's own tests green still fails here.

decode_token(dir, pins) -> dict(kind, token attributes, objects: [dict(file, gen, attrs, error)], modes)
  attrs: {type: dict(kind, raw, plain)}; kind in bool/ulong/bytes/mechset/attrmap; plain = decrypted value for byte
  strings when a master key could be recovered with one of the PINs (None when it does not decrypt).
"""
import ctypes as C
import hashlib
import os
import stat
import struct

CKA_VENDOR_SOFTHSM = 0x80000000 + 0x5348
CKA_OS_TOKENLABEL = CKA_VENDOR_SOFTHSM + 1
CKA_OS_TOKENSERIAL = CKA_VENDOR_SOFTHSM + 2
CKA_OS_TOKENFLAGS = CKA_VENDOR_SOFTHSM + 3
CKA_OS_SOPIN = CKA_VENDOR_SOFTHSM + 4
CKA_OS_USERPIN = CKA_VENDOR_SOFTHSM + 5
CKA_PRIVATE = 0x2
PBE_BASE = 1500
MAGIC = b"RJR"

_crypto = None


def _lib():
    global _crypto
    if _crypto is None:
        _crypto = C.CDLL("libcrypto.so.3")
        _crypto.EVP_CIPHER_CTX_new.restype = C.c_void_p
        _crypto.EVP_aes_256_cbc.restype = C.c_void_p
        _crypto.EVP_aes_128_cbc.restype = C.c_void_p
        _crypto.EVP_DecryptInit_ex.argtypes = [C.c_void_p, C.c_void_p, C.c_void_p, C.c_char_p, C.c_char_p]
        _crypto.EVP_DecryptUpdate.argtypes = [C.c_void_p, C.c_char_p, C.POINTER(C.c_int), C.c_char_p, C.c_int]
        _crypto.EVP_DecryptFinal_ex.argtypes = [C.c_void_p, C.c_char_p, C.POINTER(C.c_int)]
        _crypto.EVP_CIPHER_CTX_free.argtypes = [C.c_void_p]
    return _crypto


def aes256_cbc_decrypt(key, iv, ct):
    """PKCS#7-padded AES-256-CBC; returns None when the padding is wrong"""
    if len(ct) == 0 or len(ct) % 16 or len(key) != 32 or len(iv) != 16:
        return None
    L = _lib()
    ctx = L.EVP_CIPHER_CTX_new()
    try:
        if L.EVP_DecryptInit_ex(ctx, L.EVP_aes_256_cbc(), None, key, iv) != 1:
            return None
        out = C.create_string_buffer(len(ct) + 32)
        n = C.c_int(0)
        if L.EVP_DecryptUpdate(ctx, out, C.byref(n), ct, len(ct)) != 1:
            return None
        tot = n.value
        fin = C.create_string_buffer(32)
        if L.EVP_DecryptFinal_ex(ctx, fin, C.byref(n)) != 1:
            return None
        return out.raw[:tot] + fin.raw[:n.value]
    finally:
        L.EVP_CIPHER_CTX_free(ctx)


def pbe_key(pin, salt):
    it = PBE_BASE + salt[-1]
    h = hashlib.sha256(salt + pin).digest()
    for _ in range(it - 1):
        h = hashlib.sha256(h).digest()
    return h


def unwrap_master(blob, pin):
    """blob = salt(8) | iv(16) | AES-256-CBC(PBE(pin), 'RJR' | masterkey(32)); returns the master key or None"""
    if not blob or len(blob) < 8 + 16 + 16 or not pin:
        return None
    salt, iv, ct = blob[:8], blob[8:24], blob[24:]
    pt = aes256_cbc_decrypt(pbe_key(pin, salt), iv, ct)
    if pt is None or pt[:3] != MAGIC or len(pt) != 35:
        return None
    return pt[3:]


def decrypt_value(master, v):
    if master is None or len(v) < 32:
        return None
    return aes256_cbc_decrypt(master, v[:16], v[16:])


class ParseError(Exception):
    pass


class _R(object):
    def __init__(self, b):
        self.b = b
        self.i = 0

    def eof(self):
        return self.i >= len(self.b)

    def u64(self):
        if self.i + 8 > len(self.b):
            raise ParseError("truncated ulong at %d" % self.i)
        v = struct.unpack(">Q", self.b[self.i:self.i + 8])[0]
        self.i += 8
        return v

    def take(self, n):
        if n > len(self.b) - self.i:
            raise ParseError("truncated bytes (%d wanted) at %d" % (n, self.i))
        v = self.b[self.i:self.i + n]
        self.i += n
        return v

    def boolean(self):
        return self.take(1) != b"\x00"


KINDS = {1: "bool", 2: "ulong", 3: "bytes", 4: "attrmap", 5: "mechset"}


def _value(r, kind):
    if kind == 1:
        return r.boolean()
    if kind == 2:
        return r.u64()
    if kind == 3:
        return r.take(r.u64())
    if kind == 5:
        n = r.u64()
        if n > 1 << 20:
            raise ParseError("absurd mechanism count")
        return sorted(r.u64() for _ in range(n))
    if kind == 4:
        ln = r.u64()
        sub = _R(r.take(ln))
        m = {}
        while not sub.eof():
            t = sub.u64()
            k = sub.u64()
            if k not in (1, 2, 3, 5):
                raise ParseError("bad kind %d in attribute map" % k)
            m[t] = (KINDS[k], _value(sub, k))
        return m
    raise ParseError("unknown attribute kind %d" % kind)


def parse_object_bytes(b):
    """-> (generation, {type: (kind, value)})"""
    r = _R(b)
    if r.eof():
        raise ParseError("empty file")
    gen = r.u64()
    attrs = {}
    while not r.eof():
        t = r.u64()
        k = r.u64()
        attrs[t] = (KINDS.get(k, "?"), _value(r, k))
    return gen, attrs


def record_boundaries(b):
    """offsets at which a truncated copy of the object file b still parses: after the generation number and after
    every complete attribute record (0 - the empty file - included)"""
    r = _R(b)
    out = [0]
    if r.eof():
        return out
    r.u64()
    out.append(r.i)
    while not r.eof():
        t = r.u64()
        k = r.u64()
        _value(r, k)
        out.append(r.i)
    return out


def _modes(root):
    out = []
    for dp, dns, fns in os.walk(root):
        for n in [None] + fns:
            p = dp if n is None else os.path.join(dp, n)
            try:
                st = os.lstat(p)
            except OSError:
                continue
            out.append((os.path.relpath(p, root), stat.S_IMODE(st.st_mode)))
    return sorted(out)


def _finish(kind, tokattrs, objs, pins, root):
    so_blob = tokattrs.get(CKA_OS_SOPIN, (None, b""))[1] or b""
    user_blob = tokattrs.get(CKA_OS_USERPIN, (None, b""))[1] or b""
    master = None
    unlocked_by = None
    for name, pin in (pins or {}).items():
        for which, blob in (("so", so_blob), ("user", user_blob)):
            k = unwrap_master(blob, pin)
            if k is not None and master is None:
                master, unlocked_by = k, (which, name)
    out_objs = []
    for o in objs:
        rec = dict(file=o["file"], gen=o.get("gen"), error=o.get("error"), attrs={})
        attrs = o.get("attrs") or {}
        private = attrs.get(CKA_PRIVATE, ("bool", False))[1] is True
        rec["private"] = private
        for t, (k, v) in attrs.items():
            a = dict(kind=k, raw=v, plain=None)
            if k == "bytes":
                if private and len(v) > 0:
                    a["plain"] = decrypt_value(master, v)
                else:
                    a["plain"] = v
            rec["attrs"][t] = a
        out_objs.append(rec)
    return dict(kind=kind, token=tokattrs, master=master, unlocked_by=unlocked_by, objects=out_objs,
                so_blob=so_blob, user_blob=user_blob, modes=_modes(root))


def decode_token(tokdir, pins=None):
    """tokdir: one token's directory (below directories.tokendir)."""
    if os.path.exists(os.path.join(tokdir, "sqlite3.db")):
        return _decode_db(tokdir, pins)
    tokattrs = {}
    objs = []
    for n in sorted(os.listdir(tokdir)):
        p = os.path.join(tokdir, n)
        if n == "token.object":
            try:
                g, tokattrs = parse_object_bytes(open(p, "rb").read())
            except ParseError as e:
                tokattrs = {"error": ("error", str(e))}
        elif n.endswith(".object"):
            try:
                g, a = parse_object_bytes(open(p, "rb").read())
                objs.append(dict(file=n, gen=g, attrs=a))
            except ParseError as e:
                objs.append(dict(file=n, error=str(e)))
    return _finish("file", tokattrs, objs, pins, tokdir)


def _decode_db(tokdir, pins):
    import sqlite3
    db = sqlite3.connect("file:%s?mode=ro" % os.path.join(tokdir, "sqlite3.db"), uri=True, timeout=10)
    try:
        per = {}
        def add(oid, t, kind, v):
            per.setdefault(oid, {})[t] = (kind, v)
        for oid, in db.execute("select id from object"):
            per.setdefault(oid, {})
        for t, v, oid in db.execute("select type, value, object_id from attribute_boolean"):
            add(oid, t, "bool", bool(v))
        for t, v, oid in db.execute("select type, value, object_id from attribute_integer"):
            add(oid, t, "ulong", v & 0xffffffffffffffff)
        for t, v, oid in db.execute("select type, value, object_id from attribute_binary"):
            add(oid, t, "bytes", bytes(v) if v is not None else b"")
        for t, v, oid in db.execute("select type, value, object_id from attribute_array"):
            add(oid, t, "array", bytes(v) if v is not None else b"")
    finally:
        db.close()
    tokattrs = {}
    objs = []
    for oid, a in sorted(per.items()):
        if CKA_OS_TOKENLABEL in a or CKA_OS_SOPIN in a:
            tokattrs = a
        else:
            objs.append(dict(file="db:%d" % oid, gen=None, attrs=a))
    return _finish("db", tokattrs, objs, pins, tokdir)


def token_dirs(root):
    return sorted(os.path.join(root, d) for d in os.listdir(root) if os.path.isdir(os.path.join(root, d)))


def contains_plaintext(root, needles):
    """Scans every file below root for each needle (bytes, >= 4 long); returns [(relative path, needle index)]"""
    hits = []
    for dp, dns, fns in os.walk(root):
        for n in fns:
            try:
                data = open(os.path.join(dp, n), "rb").read()
            except OSError:
                continue
            for i, nd in enumerate(needles):
                if len(nd) >= 4 and nd in data:
                    hits.append((os.path.relpath(os.path.join(dp, n), root), i))
    return hits
