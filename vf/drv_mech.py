"""Driver for the behaviours of MC_Mech (C07: usage flags, key type, allowed mechanisms, slots.mechanisms,
always-authenticate).  Oracle: Trace_Mech.tla.

usage: python3 -m vf.drv_mech <lib> <behaviours.json> <out.ndjson> <workdir> <seed>
"""
import ctypes
import json
import sys

from . import p11const as K
from . import p11
from .harness import Harness, Emitter
from .p11 import rvname, Mech
from .tlaval import parse_call
from . import testkeys as TK

OPFLAG = {"Encrypt": K.CKA_ENCRYPT, "Decrypt": K.CKA_DECRYPT, "Sign": K.CKA_SIGN, "Verify": K.CKA_VERIFY,
          "Wrap": K.CKA_WRAP, "Unwrap": K.CKA_UNWRAP, "Derive": K.CKA_DERIVE}
APPLICABLE = {"secret": ["Encrypt", "Decrypt", "Sign", "Verify", "Wrap", "Unwrap", "Derive"],
              "public": ["Encrypt", "Verify", "Wrap", "Derive"],
              "private": ["Decrypt", "Sign", "Unwrap", "Derive"]}
ALL_MECHS = None


def M(name):
    return getattr(K, "CKM_" + name)


def des_parity(b):
    return bytes((x & 0xfe) | (bin(x >> 1).count("1") % 2 == 0) for x in b)


class MechDriver(Harness):
    def __init__(self, libpath, workdir, seed):
        Harness.__init__(self, libpath, workdir, seed, "file", tokens=("t1",))
        self.s = None
        self.key = 0
        self.kc = None
        self.aakey = 0
        self.extra = []

    def rnd(self, n):
        return bytes(self.rng.randrange(256) for _ in range(n))

    # ---- configuration: slots.mechanisms relative to m0
    def configure(self, kind, m0):
        others = ["CKM_SHA_1", "CKM_AES_ECB", "CKM_RSA_PKCS_PSS"]
        others = [o for o in others if o != "CKM_" + m0]
        if kind == "ALL":
            line = "ALL"
        elif kind == "pos_in":
            line = ",".join(["CKM_" + m0] + others)
        elif kind == "pos_out":
            line = ",".join(others)
        elif kind == "neg_in":
            line = "-" + ",".join(["CKM_" + m0] + others[:1])
        elif kind == "neg_out":
            line = "-" + ",".join(others[:2])
        # names this build does not know are ignored (softhsm2.conf(5)) wherever they stand: none / first / in the
        # middle / last, in turn
        self.nconf = getattr(self, "nconf", 0) + 1
        if kind != "ALL":
            neg, names = line.startswith("-"), line.lstrip("-").split(",")
            unk, where = ["CKM_GOSTR3411", "CKM_NO_SUCH_MECHANISM"][self.nconf % 2], self.nconf % 4
            if where == 1:
                names.insert(0, unk)
            elif where == 2:
                names.insert(1, unk)
            elif where == 3:
                names.append(unk)
            line = ("-" if neg else "") + ",".join(names)
        self.confline = line
        if self.up:
            self.p.finalize()
            self.up = False
        if not getattr(self, "tokens_ready", False):
            self.write_conf("")
            self.setup_tokens("P1", "P2")
            self.p.finalize()
            self.up = False
            self.tokens_ready = True
        with open(self.conf, "w") as f:
            f.write("directories.tokendir = %s\nobjectstore.backend = file\nlog.level = ERROR\nslots.removable = false\n"
                    "slots.mechanisms = %s\n" % (self.tokdir, line))
        self.start()
        self.map_slots()
        rv, self.s = self.p.open_session(self.slot["t1"], True)
        rv = rv or self.p.login(self.s, K.CKU_USER, self.pin("P2"))
        self.m0 = m0
        self.key = 0
        self.aakey = 0
        self.aaop = None
        return rv

    # ---- keys
    def material(self, kc):
        C = K
        if kc == "AES":
            return "secret", [(C.CKA_CLASS, C.CKO_SECRET_KEY), (C.CKA_KEY_TYPE, C.CKK_AES), (C.CKA_VALUE, self.rnd(16))]
        if kc == "DES":
            return "secret", [(C.CKA_CLASS, C.CKO_SECRET_KEY), (C.CKA_KEY_TYPE, C.CKK_DES), (C.CKA_VALUE, des_parity(self.rnd(8)))]
        if kc == "DES2":
            return "secret", [(C.CKA_CLASS, C.CKO_SECRET_KEY), (C.CKA_KEY_TYPE, C.CKK_DES2), (C.CKA_VALUE, des_parity(self.rnd(16)))]
        if kc == "DES3":
            return "secret", [(C.CKA_CLASS, C.CKO_SECRET_KEY), (C.CKA_KEY_TYPE, C.CKK_DES3), (C.CKA_VALUE, des_parity(self.rnd(24)))]
        if kc == "GENERIC":
            return "secret", [(C.CKA_CLASS, C.CKO_SECRET_KEY), (C.CKA_KEY_TYPE, C.CKK_GENERIC_SECRET),
                              (C.CKA_VALUE, self.rnd(64 if self.rng.random() < 0.5 else 32))]
        r = TK.RSA1024
        if kc == "RSA_PUB":
            return "public", [(C.CKA_CLASS, C.CKO_PUBLIC_KEY), (C.CKA_KEY_TYPE, C.CKK_RSA), (C.CKA_MODULUS, r["n"]),
                              (C.CKA_PUBLIC_EXPONENT, r["e"])]
        if kc == "RSA_PRIV":
            return "private", [(C.CKA_CLASS, C.CKO_PRIVATE_KEY), (C.CKA_KEY_TYPE, C.CKK_RSA), (C.CKA_MODULUS, r["n"]),
                               (C.CKA_PUBLIC_EXPONENT, r["e"]), (C.CKA_PRIVATE_EXPONENT, r["d"]), (C.CKA_PRIME_1, r["p"]),
                               (C.CKA_PRIME_2, r["q"]), (C.CKA_EXPONENT_1, r["dp"]), (C.CKA_EXPONENT_2, r["dq"]),
                               (C.CKA_COEFFICIENT, r["qi"])]
        d = TK.DSA1024
        if kc == "DSA_PUB":
            return "public", [(C.CKA_CLASS, C.CKO_PUBLIC_KEY), (C.CKA_KEY_TYPE, C.CKK_DSA), (C.CKA_PRIME, d["p"]),
                              (C.CKA_SUBPRIME, d["q"]), (C.CKA_BASE, d["g"]), (C.CKA_VALUE, d["y"])]
        if kc == "DSA_PRIV":
            return "private", [(C.CKA_CLASS, C.CKO_PRIVATE_KEY), (C.CKA_KEY_TYPE, C.CKK_DSA), (C.CKA_PRIME, d["p"]),
                               (C.CKA_SUBPRIME, d["q"]), (C.CKA_BASE, d["g"]), (C.CKA_VALUE, d["x"])]
        h = TK.DH1024
        if kc == "DH_PUB":
            return "public", [(C.CKA_CLASS, C.CKO_PUBLIC_KEY), (C.CKA_KEY_TYPE, C.CKK_DH), (C.CKA_PRIME, h["p"]),
                              (C.CKA_BASE, h["g"]), (C.CKA_VALUE, h["y"])]
        if kc == "DH_PRIV":
            return "private", [(C.CKA_CLASS, C.CKO_PRIVATE_KEY), (C.CKA_KEY_TYPE, C.CKK_DH), (C.CKA_PRIME, h["p"]),
                               (C.CKA_BASE, h["g"]), (C.CKA_VALUE, h["x"])]
        e = TK.EC_P256
        if kc == "EC_PUB":
            return "public", [(C.CKA_CLASS, C.CKO_PUBLIC_KEY), (C.CKA_KEY_TYPE, C.CKK_EC), (C.CKA_EC_PARAMS, e["params"]),
                              (C.CKA_EC_POINT, e["point"])]
        if kc == "EC_PRIV":
            return "private", [(C.CKA_CLASS, C.CKO_PRIVATE_KEY), (C.CKA_KEY_TYPE, C.CKK_EC), (C.CKA_EC_PARAMS, e["params"]),
                               (C.CKA_VALUE, e["d"])]
        e = TK.ED25519
        if kc == "ED_PUB":
            return "public", [(C.CKA_CLASS, C.CKO_PUBLIC_KEY), (C.CKA_KEY_TYPE, C.CKK_EC_EDWARDS),
                              (C.CKA_EC_PARAMS, e["params"]), (C.CKA_EC_POINT, e["point"])]
        if kc == "ED_PRIV":
            return "private", [(C.CKA_CLASS, C.CKO_PRIVATE_KEY), (C.CKA_KEY_TYPE, C.CKK_EC_EDWARDS),
                               (C.CKA_EC_PARAMS, e["params"]), (C.CKA_VALUE, e["d"])]
        raise ValueError(kc)

    def make_key(self, kc, use, al):
        self.drop_key()
        cls, mat = self.material(kc)
        enabled = lambda op: use[0] == "all" or (use[0] == "only" and use[1] == op) or (use[0] == "except" and use[1] != op)
        t = mat + [(K.CKA_TOKEN, False), (K.CKA_PRIVATE, False)]
        for op in APPLICABLE[cls]:
            t.append((OPFLAG[op], bool(enabled(op))))
        if cls != "public":
            t += [(K.CKA_EXTRACTABLE, True), (K.CKA_SENSITIVE, False)]
        other = K.CKM_SHA384_HMAC if self.m0 != "SHA384_HMAC" else K.CKM_SHA512_HMAC
        if al == "has":
            t.append((K.CKA_ALLOWED_MECHANISMS, [M(self.m0), other]))
        elif al == "hasnt":
            t.append((K.CKA_ALLOWED_MECHANISMS, [other]))
        elif self.rng.random() < 0.5:
            t.append((K.CKA_ALLOWED_MECHANISMS, []))
        rv, g = self.p.create_object(self.s, t)
        self.key = g if rv == 0 else 0
        self.kc = kc
        self.kcls = cls
        return rv

    def drop_key(self):
        if self.key:
            self.p.destroy_object(self.s, self.key)
            self.key = 0

    # ---- mechanism parameters
    def mech(self, name, op):
        m = M(name)
        if name in ("AES_CBC", "AES_CBC_PAD"):
            return Mech(m, self.rnd(16))
        if name in ("DES_CBC", "DES_CBC_PAD", "DES3_CBC", "DES3_CBC_PAD"):
            return Mech(m, self.rnd(8))
        if name == "AES_CTR":
            return Mech(m, p11.ctr_params(128, self.rnd(16)))
        if name == "AES_GCM":
            return Mech(m, p11.gcm_params(self.rnd(12), b"aad", 128))
        if name == "RSA_PKCS_OAEP":
            return Mech(m, p11.oaep_params())
        if name.endswith("_PSS"):
            h = {"RSA": (K.CKM_SHA_1, K.CKG_MGF1_SHA1, 20), "SHA1": (K.CKM_SHA_1, K.CKG_MGF1_SHA1, 20),
                 "SHA224": (K.CKM_SHA224, K.CKG_MGF1_SHA224, 28), "SHA256": (K.CKM_SHA256, K.CKG_MGF1_SHA256, 32),
                 "SHA384": (K.CKM_SHA384, K.CKG_MGF1_SHA384, 48), "SHA512": (K.CKM_SHA512, K.CKG_MGF1_SHA512, 64)}
            return Mech(m, p11.pss_params(*h[name.split("_")[0]]))
        if name == "ECDH1_DERIVE":
            peer = TK.EC_P256["point"] if self.kc != "ED_PRIV" else TK.ED25519["point"]
            return Mech(m, p11.ecdh_params(peer))
        if name == "DH_PKCS_DERIVE":
            return Mech(m, TK.DH1024["y"])
        if name.endswith("ECB_ENCRYPT_DATA"):
            return Mech(m, p11.keyderiv_string(self.rnd(32)))
        if name.endswith("CBC_ENCRYPT_DATA"):
            return Mech(m, p11.cbc_encrypt_data(self.rnd(16 if name.startswith("AES") else 8), self.rnd(32)))
        if name in ("CONCATENATE_BASE_AND_DATA", "CONCATENATE_DATA_AND_BASE"):
            return Mech(m, p11.keyderiv_string(self.rnd(8)))
        if name == "CONCATENATE_BASE_AND_KEY":
            rv, o = self.p.create_object(self.s, [(K.CKA_CLASS, K.CKO_SECRET_KEY), (K.CKA_KEY_TYPE, K.CKK_GENERIC_SECRET),
                                                  (K.CKA_VALUE, self.rnd(16)), (K.CKA_TOKEN, False), (K.CKA_PRIVATE, False),
                                                  (K.CKA_EXTRACTABLE, True), (K.CKA_SENSITIVE, False)])
            self.extra.append(o)
            return Mech(m, ctypes.c_ulong(o))
        return Mech(m)

    def cleanup(self):
        for o in self.extra:
            if o:
                self.p.destroy_object(self.s, o)
        self.extra = []

    def data_for(self, name, op):
        if name.startswith("RSA_X_509"):
            return b"\x00" + self.rnd(127)
        if name in ("RSA_PKCS", "RSA_PKCS_OAEP"):
            return self.rnd(32)
        if name in ("ECDSA", "DSA"):
            return self.rnd(20)
        if "CBC" in name or "ECB" in name:
            return self.rnd(32)
        return self.rnd(32)

    def temp_target(self):
        rv, o = self.p.create_object(self.s, [(K.CKA_CLASS, K.CKO_SECRET_KEY), (K.CKA_KEY_TYPE, K.CKK_AES),
                                              (K.CKA_VALUE, self.rnd(16)), (K.CKA_TOKEN, False), (K.CKA_PRIVATE, False),
                                              (K.CKA_EXTRACTABLE, True), (K.CKA_SENSITIVE, False)])
        self.extra.append(o)
        return o

    # ---- Start(op): returns (rv of the starting call, yields: did the follow-up produce output / an object)
    def start_op(self, op):
        p, s, name = self.p, self.s, self.m0
        mech = self.mech(name, op)
        data = self.data_for(name, op)
        yields = False
        if op in ("Encrypt", "Decrypt"):
            rv = p.op_init(op, s, mech, self.key)
            r = p.op_io(op, s, data if op == "Encrypt" else self.rnd(128 if self.kc == "RSA_PRIV" else 32), 1024)
            yields = (r["rv"] == 0)
        elif op == "Sign":
            rv = p.op_init("Sign", s, mech, self.key)
            r = p.op_io("Sign", s, data, 1024)
            yields = (r["rv"] == 0)
        elif op == "Verify":
            rv = p.op_init("Verify", s, mech, self.key)
            r2 = p.verify(s, data, self.rnd(128 if self.kc == "RSA_PUB" else 64))
            yields = (r2 == 0)
        elif op == "Wrap":
            rv, blob, n = p.wrap_key(s, mech, self.key, self.temp_target(), bufsize=2048)
            yields = bool(blob)
        elif op == "Unwrap":
            blob = self.valid_blob(name) or self.rnd(128 if self.kc == "RSA_PRIV" else 24)
            rv, o = p.unwrap_key(s, self.mech(name, op) if name not in ("AES_CBC", "AES_CBC_PAD") else self.lastmech or mech,
                                 self.key, blob,
                                 [(K.CKA_CLASS, K.CKO_SECRET_KEY), (K.CKA_KEY_TYPE, K.CKK_AES), (K.CKA_TOKEN, False),
                                  (K.CKA_PRIVATE, False)])
            yields = (rv == 0 and o != 0) or (rv != 0 and o != 0)
            if o:
                self.extra.append(o)
        elif op == "Derive":
            tmpl = [(K.CKA_CLASS, K.CKO_SECRET_KEY), (K.CKA_KEY_TYPE, K.CKK_GENERIC_SECRET), (K.CKA_TOKEN, False),
                    (K.CKA_PRIVATE, False), (K.CKA_EXTRACTABLE, True), (K.CKA_SENSITIVE, False)]
            if "ENCRYPT_DATA" in name or name in ("ECDH1_DERIVE", "DH_PKCS_DERIVE"):
                tmpl.append((K.CKA_VALUE_LEN, 16))
            rv, o = p.derive_key(s, mech, self.key, tmpl)
            yields = o != 0
            if o:
                self.extra.append(o)
        else:
            raise ValueError(op)
        self.cleanup()
        return rv, yields

    def valid_blob(self, name):
        """a blob that the key under test can unwrap, made with a helper key holding the same material and every
        usage flag (so that a permitted C_UnwrapKey can actually succeed)"""
        self.lastmech = None
        try:
            p, s = self.p, self.s
            if self.kcls == "secret":
                rvv, d = p.get_attrs(s, self.key, [K.CKA_VALUE, K.CKA_KEY_TYPE])
                if rvv or not d.get(K.CKA_VALUE):
                    return None
                rv, hk = p.create_object(s, [(K.CKA_CLASS, K.CKO_SECRET_KEY),
                                             (K.CKA_KEY_TYPE, int.from_bytes(d[K.CKA_KEY_TYPE], "little")),
                                             (K.CKA_VALUE, d[K.CKA_VALUE]), (K.CKA_TOKEN, False), (K.CKA_PRIVATE, False),
                                             (K.CKA_WRAP, True)])
            elif self.kc == "RSA_PRIV":
                cls, mat = self.material("RSA_PUB")
                rv, hk = p.create_object(s, mat + [(K.CKA_TOKEN, False), (K.CKA_PRIVATE, False), (K.CKA_WRAP, True)])
            else:
                return None
            if rv:
                return None
            self.extra.append(hk)
            m = self.mech(name, "Wrap")
            self.lastmech = m
            rv, blob, n = p.wrap_key(s, m, hk, self.temp_target(), bufsize=2048)
            if rv == 0:
                return blob
            # the library refuses to WRAP with that key (wrong type for the mechanism, as it must): make the blob with the
            # reference instead, the key's bytes taken as the mechanism's key - if the library wrongly UNWRAPS with such a
            # key, the blob is well-formed and the call goes all the way
            val = d.get(K.CKA_VALUE) if self.kcls == "secret" else None
            if val and len(val) in (16, 24, 32) and name in ("AES_CBC_PAD", "AES_KEY_WRAP", "AES_KEY_WRAP_PAD"):
                from . import refcrypto as R
                target = bytes(range(16))
                if name == "AES_CBC_PAD":
                    iv = self.rnd(16)
                    self.lastmech = Mech(M(name), iv)
                    return R.cbc("aes", val, iv, target, pad=True)
                self.lastmech = Mech(M(name))
                return R.keywrap(val, target) if name == "AES_KEY_WRAP" else R.keywrap_pad(val, target)
            return None
        except Exception:
            return None

    def start_keyless(self, ep):
        p, s, name = self.p, self.s, self.m0
        yields = False
        if ep == "DigestInit":
            rv = p.op_init("Digest", s, Mech(M(name)))
            r = p.op_io("Digest", s, b"abc", 128)
            yields = r["rv"] == 0
        elif ep == "GenerateKey":
            t = [(K.CKA_TOKEN, False), (K.CKA_PRIVATE, False)]
            if name in ("AES_KEY_GEN", "GENERIC_SECRET_KEY_GEN"):
                t.append((K.CKA_VALUE_LEN, 16))
            if name == "DSA_PARAMETER_GEN":
                t.append((K.CKA_PRIME_BITS, 512))
            if name == "DH_PKCS_PARAMETER_GEN":
                t.append((K.CKA_PRIME_BITS, 512))
            if name in ("DSA_PARAMETER_GEN", "DH_PKCS_PARAMETER_GEN") and self.conf_kind in ("ALL", "pos_in", "neg_out"):
                # parameter generation is slow; it is exercised once per run only
                if getattr(self, "did_" + name, False):
                    return None, False
                setattr(self, "did_" + name, True)
            rv, o = p.generate_key(s, Mech(M(name)), t)
            yields = o != 0
            if o:
                p.destroy_object(s, o)
        else:
            pub = [(K.CKA_TOKEN, False), (K.CKA_PRIVATE, False)]
            priv = [(K.CKA_TOKEN, False), (K.CKA_PRIVATE, False)]
            if name == "RSA_PKCS_KEY_PAIR_GEN":
                pub += [(K.CKA_MODULUS_BITS, 1024), (K.CKA_PUBLIC_EXPONENT, b"\x01\x00\x01")]
            elif name == "DSA_KEY_PAIR_GEN":
                d = TK.DSA1024
                pub += [(K.CKA_PRIME, d["p"]), (K.CKA_SUBPRIME, d["q"]), (K.CKA_BASE, d["g"])]
            elif name == "DH_PKCS_KEY_PAIR_GEN":
                h = TK.DH1024
                pub += [(K.CKA_PRIME, h["p"]), (K.CKA_BASE, h["g"])]
            elif name == "EC_KEY_PAIR_GEN":
                pub += [(K.CKA_EC_PARAMS, TK.EC_P256["params"])]
            elif name == "EC_EDWARDS_KEY_PAIR_GEN":
                pub += [(K.CKA_EC_PARAMS, TK.ED25519["params"])]
            rv, a, b = p.generate_key_pair(s, Mech(M(name)), pub, priv)
            yields = a != 0 or b != 0
            for o in (a, b):
                if o:
                    p.destroy_object(s, o)
        return rv, yields

    # ---- always-authenticate
    def aa_make(self):
        kc = "RSA_PRIV" if self.m0.endswith("RSA_PKCS") or "RSA" in self.m0 else "EC_PRIV"
        cls, mat = self.material(kc)
        rv, g = self.p.create_object(self.s, mat + [(K.CKA_TOKEN, False), (K.CKA_PRIVATE, True), (K.CKA_SIGN, True),
                                                   (K.CKA_DECRYPT, True), (K.CKA_ALWAYS_AUTHENTICATE, True)])
        self.aakey = g if rv == 0 else 0
        self.kc = kc
        return rv

    def step(self, label):
        if isinstance(label, (list, tuple)):
            name, a = label[0], list(label[1:])
        else:
            name, a = parse_call(label)
        p = self.p
        ev = {"e": name}
        rv = 0
        if name == "MConfigure":
            self.conf_kind = a[0]
            rv = self.configure(a[0], a[1])
            ev.update(kind=a[0], m0=a[1], line=self.confline)
            # (beyond the listed properties, MechInfo.tla: what C_GetMechanismInfo says about m0)
            FL = {"ENCRYPT": 0x100, "DECRYPT": 0x200, "DIGEST": 0x400, "SIGN": 0x800, "VERIFY": 0x2000, "GENERATE": 0x8000,
                  "GENERATE_KEY_PAIR": 0x10000, "WRAP": 0x20000, "UNWRAP": 0x40000, "DERIVE": 0x80000}
            mid = getattr(K, "CKM_" + a[1], None)
            r2, mi = p.mechanism_info(self.slot["t1"], mid) if (mid is not None and rv == 0) else (1, None)
            ev["fl"] = sorted(n for n, b in FL.items() if mi and mi["flags"] & b) if r2 == 0 else None
        elif name == "MUnconfigure":
            pass
        elif name == "MMakeKey":
            rv = self.make_key(a[0], list(a[1]), a[2])
            ev.update(kc=a[0], use=list(a[1]), al=a[2])
            if rv != 0:
                ev["rv_create"] = rvname(rv)
                rv = 0       # a key that cannot be created just makes every Start fail; the model allows that
        elif name == "MDropKey":
            self.drop_key()
        elif name == "MStart":
            rv, y = self.start_op(a[0])
            ev.update(op=a[0], yields=bool(y))
        elif name == "MStartKeyless":
            rv, y = self.start_keyless(a[0])
            if rv is None:
                return None
            ev.update(ep=a[0], yields=bool(y))
        elif name == "MAAInit":
            if not self.aakey:
                self.aa_make()
            self.aaop = self.rng.choice(["Sign", "Sign", "Decrypt"]) if self.kc == "RSA_PRIV" and self.m0 == "RSA_PKCS" else "Sign"
            rv = p.op_init(self.aaop, self.s, self.mech(self.m0, self.aaop), self.aakey)
        elif name == "MAALogin":
            rv = p.login(self.s, K.CKU_CONTEXT_SPECIFIC, self.pin("P2" if a[0] else "P3"))
            ev.update(right=a[0])
        elif name == "MAAUse":
            if not getattr(self, "aaop", None):
                self.aaop = "Sign"
            style = self.rng.choice(["single", "query", "update"]) if self.aaop == "Sign" else self.rng.choice(["single", "query"])
            data = self.data_for(self.m0, self.aaop) if self.aaop == "Sign" else self.rnd(128)
            y = False
            if style == "update" and self.m0 not in ("RSA_PKCS", "RSA_X_509", "ECDSA", "EDDSA", "DSA", "RSA_PKCS_PSS"):
                rv = p.op_update("SignUpdate", self.s, data)
                r = p.op_final("SignFinal", self.s, 1024)
                rv = rv or r["rv"]
                y = r["rv"] == 0
            else:
                if style == "query":
                    q = p.op_io(self.aaop, self.s, data, None)
                r = p.op_io(self.aaop, self.s, data, 1024)
                rv = r["rv"]
                y = r["rv"] == 0 and r["len"] > 0
                if self.aaop == "Decrypt" and rv not in (0, K.CKR_USER_NOT_LOGGED_IN, K.CKR_OPERATION_NOT_INITIALIZED):
                    pass
            # whatever happened, make sure no operation stays active
            p.op_io(self.aaop, self.s, data, 1024)
            ev.update(yields=bool(y), style=style, op=self.aaop)
        else:
            raise ValueError("unknown action " + str(label))
        ev["rv"] = rvname(rv)
        return ev


def main():
    lib, bfile, out, workdir, seed = sys.argv[1:6]
    behaviours = json.load(open(bfile))
    d = MechDriver(lib, workdir, int(seed))
    em = Emitter(out)
    for i, beh in enumerate(behaviours):
        em.emit({"e": "Reset", "b": i})
        skipping = False
        for label in beh:
            ev = d.step(label)
            if ev is not None:
                em.emit(ev)
        em.flush()
    d.shutdown()
    em.close()


if __name__ == "__main__":
    from .harness import run_main
    run_main(main)
