"""Shared machinery of the registered checks: scratch space, evidence, known findings, verdict lines."""
import json
import os
import shutil
import sys
import tempfile
import time

ROOT = os.path.dirname(os.path.dirname(os.path.abspath(__file__)))
# (VERIF_EVIDENCE: development runs against a scratch copy of the sources must not overwrite the committed evidence)
EVID = os.environ.get("VERIF_EVIDENCE", os.path.join(ROOT, "evidence"))
REPLAYS = os.path.join(ROOT, "replays")
KNOWN = os.path.join(ROOT, "known_findings.json")


class Broken(Exception):
    """The machinery failed (tool error, time-out, build failure): exit 2, never a VIOLATION line."""


class Ctx(object):
    def __init__(self, prop, tier, level):
        self.prop = prop
        self.tier = tier
        self.level = level
        self.seed = int(os.environ.get("VERIF_SEED", "1") or "1")
        self.t0 = time.time()
        base = os.environ.get("VERIF_SCRATCH") or ("/dev/shm" if os.access("/dev/shm", os.W_OK) else "/var/tmp")
        for e in os.listdir(base):          # scratch left behind by killed runs
            d = os.path.join(base, e)
            try:
                if e.startswith("verif-") and os.path.isdir(d) and time.time() - os.path.getmtime(d) > 4 * 3600:
                    shutil.rmtree(d, ignore_errors=True)
            except OSError:
                pass
        self.scratch = tempfile.mkdtemp(prefix="verif-%s-" % prop, dir=base)
        self.violations = []      # (what, replay_path)
        self.known_hits = []      # finding ids used
        self.notes = []
        self.coverage = {}
        self.assumptions = []
        self.known = load_known(prop)

    def sub(self, name):
        d = os.path.join(self.scratch, name)
        os.makedirs(d, exist_ok=True)
        return d

    def log(self, msg):
        sys.stderr.write("[%s %6.1fs] %s\n" % (self.prop, time.time() - self.t0, msg))
        sys.stderr.flush()

    def new_replay_dir(self, tag):
        os.makedirs(REPLAYS, exist_ok=True)
        d = os.path.join(REPLAYS, "%s-%s-%d-%d" % (self.prop, tag, self.seed, int(time.time())))
        k = 0
        base = d
        while os.path.exists(d):
            k += 1
            d = "%s-%d" % (base, k)
        os.makedirs(d)
        return d

    def violation(self, what, replay):
        self.violations.append((what, replay))
        print("VIOLATION property=%s replay=%s" % (self.prop, replay))
        sys.stdout.flush()
        self.log("violation: " + what)

    def known_finding(self, fid, what):
        if fid not in self.known_hits:
            self.known_hits.append(fid)
            print("KNOWN-FINDING: property=%s %s" % (self.prop, what))
            sys.stdout.flush()

    def finish(self):
        # every listed open finding of this property gets its line, also when this run did not come across it (rare
        # schedules, tiers that skip the scenario): a listed finding is never silent, and never more than a line
        listed_only = []
        for e in active_known(self.known):
            if e.get("property") == self.prop and e["id"] not in self.known_hits:
                listed_only.append(e["id"])
                print("KNOWN-FINDING: property=%s %s [listed in known_findings.json; not reproduced in this run]"
                      % (self.prop, e.get("scope", e["id"])))
        sys.stdout.flush()
        ev = {
            "property_id": self.prop,
            "tier": self.tier,
            "seed": self.seed,
            "level": self.level,
            "coverage": self.coverage,
            "assumptions": self.assumptions,
            "wall_s": round(time.time() - self.t0, 1),
            "violations": len(self.violations),
        }
        if self.notes:
            ev["coverage"]["notes"] = self.notes
        if self.known_hits:
            ev["coverage"]["known_findings_reproduced"] = self.known_hits
        if listed_only:
            ev["coverage"]["known_findings_listed_not_reproduced"] = listed_only
        os.makedirs(EVID, exist_ok=True)
        tmp = os.path.join(EVID, ".%s.json.tmp" % self.prop)
        with open(tmp, "w") as f:
            json.dump(ev, f, indent=1, sort_keys=True, default=str)
        os.replace(tmp, os.path.join(EVID, "%s.json" % self.prop))
        shutil.rmtree(self.scratch, ignore_errors=True)
        return 1 if self.violations else 0

    def abort(self):
        shutil.rmtree(self.scratch, ignore_errors=True)


def load_known(prop=None):
    try:
        with open(KNOWN) as f:
            d = json.load(f)
    except (IOError, OSError):
        return []
    out = []
    for e in d.get("findings", []):
        if prop is None or e.get("property") == prop or prop in e.get("also_affects", []):
            out.append(e)
    return out


def active_known(known):
    """Findings that are still open (status 'known'); fixed ones enable nothing."""
    return [e for e in known if e.get("status") == "known"]
