"""Driver for C18: real threads, each with its own session, run fixed programs of PKCS#11 calls concurrently.

  controlled   C_Initialize gets CK_C_INITIALIZE_ARGS with the four mutex callbacks; the callbacks are the scheduler:
               exactly one thread runs at a time and a switch can happen before every LockMutex and at every call
               boundary.  The schedule (a list of thread numbers, one per scheduling point) comes from a TLC behaviour
               of Conc.tla; where it does not fit (thread blocked or finished) the lowest enabled thread runs.  A state
               in which nobody is enabled is a deadlock.
  calibrate    runs the threads one after the other and records each thread's sequence of scheduling points
               (lock / unlock with mutex numbers, call begin / end): the "lock program" Conc.tla is instantiated with.
  free         CKF_OS_LOCKING_OK, threads run freely (stress); only call begin / end are recorded.

Every call's begin and end (with results) go to the trace in real-time order; Trace_Conc.tla (interval
linearizability) is the oracle.

usage: python3 -m vf.drv_conc <lib> <behaviours.json> <out.ndjson> <workdir> <seed> <mode> <programs: A,B[,C]> [rounds]
"""
import ctypes as C
import hashlib
import json
import os
import shutil
import sys
import threading
import time

from . import p11const as K
from . import p11
from .harness import Emitter
from .p11 import P11, rvname, Mech
from .tlaval import parse_call

SO, USER = b"conc-so-pin", b"conc-user-pin"      # (USER is PINS["P0"])
HANG = 25.0

# ---- thread programs: (call, object number k, extra)
PROGRAMS = {
    # token objects
    "A": [("open",), ("create", 1, "tok"), ("findown", 1), ("findall",), ("set", 1), ("get", 1), ("destroy", 1), ("findown", 1),
          ("close",)],
    # session objects, closing the session destroys the second one
    "B": [("open",), ("create", 1, "ses"), ("findall",), ("get", 1), ("destroy", 1), ("create", 2, "ses"), ("findown", 2),
          ("close",), ("open",), ("findown", 2), ("close",)],
    # session churn and counting
    "D": [("open",), ("sessinfo",), ("close",), ("open",), ("findall",), ("sessinfo",), ("close",)],
    # cryptography with an own session key
    "C": [("open",), ("create", 1, "ses"), ("digest",), ("encrypt", 1), ("sign", 1), ("findall",), ("close",)],
    # two token objects, search in between
    "E": [("open",), ("create", 1, "tok"), ("create", 2, "tok"), ("findall",), ("destroy", 1), ("findall",), ("get", 2),
          ("destroy", 2), ("close",)],
    # short ones for three threads
    "a": [("open",), ("create", 1, "tok"), ("findall",), ("destroy", 1), ("close",)],
    "b": [("open",), ("create", 1, "ses"), ("findall",), ("close",)],
    "d": [("open",), ("sessinfo",), ("findall",), ("close",)],
    # tiny ones for the exhaustive single-preemption exploration at EVERY mutex callback
    "g": [("open",), ("create", 1, "ses"), ("get", 1), ("close",)],
    "o": [("open",), ("close",)],
    # one thread changes and reads its token object while the other one searches (reload of a changed object)
    "s": [("open",), ("create", 1, "tok"), ("set", 1), ("get", 1), ("close",)],
    "f": [("open",), ("findall",), ("findall",), ("close",)],
    "h": [("open",), ("create", 1, "tok"), ("get", 1), ("destroy", 1), ("close",)],
    # ---- the shared token state (ConcTok.tla): login state, last-session logout, the user PIN.  No base session.
    "Lc": [("open",), ("login", "P0"), ("close",)],
    "Lo": [("open",), ("login", "P0"), ("sessinfo",), ("close",)],
    "Lv": [("open",), ("login", "P0"), ("createpriv",), ("sessinfo",), ("close",)],
    "Ll": [("open",), ("login", "P0"), ("logout",), ("sessinfo",), ("close",)],
    "Lp": [("open",), ("setpin", "P0", "P1"), ("close",)],
    "Lq": [("open",), ("setpin", "P0", "P2"), ("login", "P2"), ("close",)],
    "Lr": [("open",), ("login", "P0"), ("setpin", "P0", "P1"), ("sessinfo",), ("close",)],
    "Lx": [("open",), ("login", "PX"), ("login", "P1"), ("sessinfo",), ("close",)],
    # a private TOKEN key comes into being (C_UnwrapKey) while another thread logs out
    "Lu": [("open",), ("login", "P0"), ("unwrappriv",), ("close",)],
    # one thread makes a sensitive session key and has changes to it refused (rolled back); the other one tries to read it
    # the two guards of the SO / read-only-session exclusion race each other
    "Lz": [("open",), ("loginso", "SO"), ("sessinfo",), ("close",)],
    "Ly": [("openro",), ("sessinfo",), ("close",)],
    # a shared public TOKEN key: one thread's change is refused at the last entry of a long template, the other one's is valid
    "Lt": [("open",), ("tbadset", "A"), ("tget",), ("close",)],
    "Lw": [("open",), ("tset", "B"), ("tget",), ("close",)],
    # (the same without the reads in between: what counts is the state afterwards)
    "Lt2": [("open",), ("tbadset", "A"), ("tbadset", "A"), ("close",)],
    "Lw2": [("open",), ("tset", "B"), ("close",)],
    "Ls": [("open",), ("mksens",), ("badset",), ("badset",), ("close",)],
    "Lg": [("open",), ("readsens",), ("readsens",), ("readsens",), ("close",)],
}
SENS_VALUE = b"conc-SENSITIVE-session-key-value"[:32]
UNWRAPPED_SECRET = b"conc-UNWRAPPED-secret-0123456789ab"[:32]
PINS = {"P0": b"conc-user-pin", "P1": b"conc-pin-one", "P2": b"conc-pin-two2", "PX": b"conc-wrong-pin"}


def shared_family(progs):
    return any(len(c) > 0 and c[0] in ("login", "logout", "setpin", "createpriv", "unwrappriv", "mksens", "badset", "readsens", "loginso", "openro", "tset", "tbadset", "tget") for pr in progs for c in pr)


def conf(wd):
    c = os.path.join(wd, "softhsm2.conf")
    with open(c, "w") as f:
        f.write("directories.tokendir = %s\nobjectstore.backend = file\nlog.level = ERROR\nslots.removable = false\n"
                % os.path.join(wd, "tokens"))
    os.environ["SOFTHSM2_CONF"] = c


def the_slot(p):
    rv, slots = p.slot_list(True)
    for s in slots:
        rv, ti = p.token_info(s)
        if rv == 0 and ti["flags"] & K.CKF_TOKEN_INITIALIZED:
            return s
    return None


def prepare(lib, wd, shared=False):
    os.makedirs(os.path.join(wd, "tokens"))
    conf(wd)
    p = P11(lib)
    assert p.initialize() == 0
    rv, slots = p.slot_list(True)
    assert p.init_token(slots[0], SO, b"conc-token") == 0
    p.finalize()
    p.initialize()
    rv, s = p.open_session(the_slot(p), True)
    assert p.login(s, K.CKU_SO, SO) == 0 and p.init_pin(s, USER) == 0
    assert p.logout(s) == 0 and p.login(s, K.CKU_USER, USER) == 0
    if not shared:
        p.finalize()
        return
    # for the "unwrappriv" calls: a public wrapping key on the token and a blob holding the known secret UNWRAPPED_SECRET
    # (only for the shared-state programs: the others count the secret keys on the token)
    rv, wk = p.create_object(s, [(K.CKA_CLASS, K.CKO_SECRET_KEY), (K.CKA_KEY_TYPE, K.CKK_AES), (K.CKA_TOKEN, True),
                                 (K.CKA_PRIVATE, False), (K.CKA_ID, b"wk"), (K.CKA_VALUE, bytes(range(32))), (K.CKA_WRAP, True),
                                 (K.CKA_UNWRAP, True)])
    rv2, x = p.create_object(s, [(K.CKA_CLASS, K.CKO_SECRET_KEY), (K.CKA_KEY_TYPE, K.CKK_GENERIC_SECRET), (K.CKA_TOKEN, False),
                                 (K.CKA_PRIVATE, False), (K.CKA_VALUE, UNWRAPPED_SECRET), (K.CKA_EXTRACTABLE, True)])
    rv3, blob, n = p.wrap_key(s, Mech(K.CKM_AES_KEY_WRAP), wk, x)
    # the shared public token key of the tset / tbadset / tget calls (an AES key is not counted by the final key census)
    rv4, tk = p.create_object(s, [(K.CKA_CLASS, K.CKO_SECRET_KEY), (K.CKA_KEY_TYPE, K.CKK_AES), (K.CKA_TOKEN, True),
                                  (K.CKA_PRIVATE, False), (K.CKA_ID, b"tk"), (K.CKA_LABEL, b"orig"), (K.CKA_VALUE, bytes(16))])
    assert rv4 == 0, rv4
    assert not (rv or rv2 or rv3), (rv, rv2, rv3)
    with open(os.path.join(wd, "blob.bin"), "wb") as f:
        f.write(blob)
    p.finalize()


class Deadlock(Exception):
    pass


class Sched(object):
    """The mutex callbacks and the scheduler.  mode: 'controlled' | 'calibrate'."""

    def __init__(self):
        self.cv = threading.Condition()
        self.owner = {}
        self.nmutex = 0
        self.tids = {}          # thread ident -> thread number
        self.full = False       # True: every LockMutex and every UnlockMutex is a scheduling point (no collapsing)
        self.reset([], "off")
        self.cb_create = p11.CREATEMUTEX(self._create)
        self.cb_destroy = p11.MUTEXFN(self._destroy)
        self.cb_lock = p11.MUTEXFN(self._lock)
        self.cb_unlock = p11.MUTEXFN(self._unlock)

    def reset(self, schedule, mode):
        self.schedule = list(schedule)
        self.si = 0
        self.ent = None
        self.mode = mode
        self.state = {}         # thread number -> None (runnable) | mutex it wants | "done"
        self.running = 0        # thread number allowed to run; 0: the main thread
        self.points = {}        # calibrate: thread number -> list of [kind, mutex]
        self.deadlock = None
        self.lastm = {}
        self.npoints = 0
        self.switches = 0
        self.error = None

    def args(self):
        a = p11.CK_C_INITIALIZE_ARGS()
        C.memset(C.byref(a), 0, C.sizeof(a))
        a.CreateMutex, a.DestroyMutex, a.LockMutex, a.UnlockMutex = self.cb_create, self.cb_destroy, self.cb_lock, self.cb_unlock
        return a

    def me(self):
        return self.tids.get(threading.get_ident(), 0)

    # ---- callbacks
    def _create(self, pp):
        try:
            self.nmutex += 1
            self.owner[self.nmutex] = None
            pp[0] = self.nmutex
            return 0
        except BaseException as e:
            self.error = repr(e)
            return K.CKR_GENERAL_ERROR

    def _destroy(self, m):
        self.owner.pop(m or 0, None)
        return 0

    def _lock(self, m):
        try:
            t = self.me()
            if t == 0 or self.mode == "off":
                if self.owner.get(m) is not None:
                    self.error = "main thread would block on mutex %s held by %s" % (m, self.owner.get(m))
                    return K.CKR_GENERAL_ERROR
                self.owner[m] = -1
                return 0
            # a scheduling point, unless it is the secure memory registry's mutex (the first one the library creates;
            # a leaf lock around a map update, taken for every allocation) taken again in a row, and it is free
            is_point = self.full or m != 1 or self.lastm.get(t) != m or self.owner.get(m) is not None
            self.lastm[t] = m
            if is_point:
                self.point(t, m)
            self.owner[m] = t
            if self.mode == "calibrate":
                self.points[t].append(["L" if is_point else "l", m])
            return 0
        except Deadlock:
            return K.CKR_GENERAL_ERROR
        except BaseException as e:
            self.error = repr(e)
            return K.CKR_GENERAL_ERROR

    def _unlock(self, m):
        try:
            t = self.me()
            self.owner[m] = None
            if t and self.mode == "calibrate":
                self.points[t].append(["V" if self.full else "U", m])
            if t and self.full and self.mode in ("controlled", "calibrate"):
                self.point(t, None)          # full mode: a thread can also be preempted right after releasing a mutex
            return 0
        except Deadlock:
            return K.CKR_GENERAL_ERROR
        except BaseException as e:
            self.error = repr(e)
            return K.CKR_GENERAL_ERROR

    # ---- scheduling
    def enabled(self):
        return sorted(t for t, w in self.state.items() if w != "done" and (w is None or self.owner.get(w) is None))

    def pick(self, cur):
        """chooses who runs next (caller holds cv)"""
        en = self.enabled()
        if not en:
            if all(w == "done" for w in self.state.values()):
                self.running = 0
            else:
                self.deadlock = {str(t): w for t, w in self.state.items() if w != "done"}
                self.running = 0
            self.cv.notify_all()
            return
        nxt = None
        if self.mode == "controlled":
            # schedule entries: [thread, n points] (n = 0: until it finishes or would block)
            while True:
                if self.ent is None:
                    if self.si >= len(self.schedule):
                        break
                    self.ent = list(self.schedule[self.si])
                    self.si += 1
                t, n = self.ent
                if t in en:
                    nxt = t
                    if n == 1:
                        self.ent = None
                    elif n > 1:
                        self.ent[1] = n - 1
                    break
                self.ent = None          # that thread is finished or blocked: the entry is over
        if nxt is None:
            nxt = cur if cur in en else en[0]
        if nxt != cur:
            self.switches += 1
        self.running = nxt
        self.cv.notify_all()

    def point(self, t, want):
        """a scheduling point of thread t (it wants mutex `want`, or nothing)"""
        with self.cv:
            self.npoints += 1
            self.state[t] = want
            self.pick(t)
            t0 = time.time()
            while self.running != t:
                if self.deadlock is not None:
                    raise Deadlock()
                self.cv.wait(1.0)
                if time.time() - t0 > HANG * 4:
                    raise Deadlock()
            self.state[t] = None

    def begin(self, t):
        """worker start: wait for the first turn"""
        self.tids[threading.get_ident()] = t
        with self.cv:
            while self.running != t:
                if self.deadlock is not None:
                    raise Deadlock()
                self.cv.wait(1.0)

    def finish(self, t):
        with self.cv:
            self.state[t] = "done"
            self.pick(t)


class Run(object):
    """one concurrent execution"""

    def __init__(self, p, slot, progs, sched, em, free=False):
        self.p, self.slot, self.progs, self.sched, self.em, self.free = p, slot, progs, sched, em, free
        self.shared = shared_family(progs)
        self.blob = b""
        self.loglock = threading.Lock()
        self.events = []
        self.h2o = {}

    def log(self, ev):
        with self.loglock:
            self.events.append(ev)

    def worker(self, t, prog):
        p, sc = self.p, self.sched
        try:
            if not self.free:
                sc.begin(t)
            s = 0
            hnd = {}
            for call in prog:
                c = call[0]
                k = call[1] if len(call) > 1 and isinstance(call[1], int) else 0
                o = t * 10 + k if k else 0
                if not self.free:
                    if sc.mode == "calibrate":
                        sc.points[t].append(["I", 0])
                    sc.lastm[t] = None
                    sc.point(t, None)
                ev = dict(e="Inv", t=t, c=c, o=o)
                if c == "create":
                    ev["tok"] = call[2] == "tok"
                if c in ("login", "setpin", "loginso", "tset", "tbadset"):
                    ev.update(o=0, a=call[1], b=call[2] if len(call) > 2 else "")
                self.log(ev)
                r = dict(e="Ret", t=t, c=c, o=o)
                if c in ("login", "setpin", "loginso", "tset", "tbadset"):
                    r["o"] = 0
                if c == "login":
                    rv = p.login(s, K.CKU_USER, PINS[call[1]])
                    r.update(rv=rvname(rv))
                elif c == "loginso":
                    rv = p.login(s, K.CKU_SO, SO if call[1] == "SO" else b"conc-wrong-so")
                    r.update(rv=rvname(rv))
                elif c == "openro":
                    rv, s = p.open_session(self.slot, False)
                    r.update(rv=rvname(rv), h=int(s))
                elif c == "logout":
                    rv = p.logout(s)
                    r.update(rv=rvname(rv))
                elif c == "setpin":
                    rv = p.set_pin(s, PINS[call[1]], PINS[call[2]])
                    r.update(rv=rvname(rv))
                elif c == "createpriv":
                    # (no byte-string attribute: nothing to encrypt, the answer depends on the login state alone)
                    rv, g = p.create_object(s, [(K.CKA_CLASS, K.CKO_DATA), (K.CKA_TOKEN, False), (K.CKA_PRIVATE, True)])
                    r.update(rv=rvname(rv))
                elif c in ("tset", "tbadset", "tget"):
                    rvf, hs = p.find(s, [(K.CKA_ID, b"tk")])
                    g = hs[0] if hs else 0
                    if not hs:
                        r.update(rv="LOST")           # there is no such key (any more)
                    elif c == "tget":
                        rv, d = p.get_attrs(s, g, [K.CKA_LABEL])
                        lab = (d.get(K.CKA_LABEL) or b"").decode("latin-1") if rv == 0 else ""
                        r.update(rv=rvname(rv), st=lab if lab in ("orig", "A", "B") else "?" + lab[:8])
                    elif c == "tset":
                        rv = p.set_attrs(s, g, [(K.CKA_LABEL, call[1].encode())])
                        r.update(rv=rvname(rv))
                    else:
                        # many entries, the last one is refused (CKA_LOCAL is read-only): nothing of the template may stay
                        tm = []
                        for i in range(10):
                            tm += [(K.CKA_LABEL, call[1].encode()), (K.CKA_DERIVE, i % 2 == 0)]
                        rv = p.set_attrs(s, g, tm + [(K.CKA_LOCAL, True)])
                        r.update(rv=rvname(rv))
                elif c == "mksens":
                    rvf, hs = p.find(s, [(K.CKA_ID, b"sk")])
                    if hs:
                        r.update(rv="EXISTS")
                    else:
                        rv, g = p.create_object(s, [(K.CKA_CLASS, K.CKO_SECRET_KEY), (K.CKA_KEY_TYPE, K.CKK_GENERIC_SECRET),
                                                    (K.CKA_TOKEN, False), (K.CKA_PRIVATE, False), (K.CKA_ID, b"sk"),
                                                    (K.CKA_LABEL, b"shared"), (K.CKA_VALUE, SENS_VALUE), (K.CKA_SENSITIVE, True),
                                                    (K.CKA_EXTRACTABLE, False), (K.CKA_SIGN, True)])
                        r.update(rv=rvname(rv))
                elif c == "badset":
                    rvf, hs = p.find(s, [(K.CKA_ID, b"sk")])
                    if not hs:
                        r.update(rv="NOKEY")
                    else:
                        rv = p.set_attrs(s, hs[0], [(K.CKA_LABEL, b"changed"), (K.CKA_SENSITIVE, False)])
                        r.update(rv=rvname(rv) if rv in (0, K.CKR_ATTRIBUTE_READ_ONLY) else "NOKEY", err=rvname(rv))
                elif c == "readsens":
                    rvf, hs = p.find(s, [(K.CKA_ID, b"sk")])
                    if not hs:
                        r.update(rv="NOKEY")
                    else:
                        rv, raw = p.get_attrs_raw(s, hs[0], [K.CKA_VALUE], [64])
                        buf = raw[0][1] if raw and raw[0] else b""
                        leak = rv == 0 or any(SENS_VALUE[i:i + 8] in (buf or b"") for i in range(0, 25))
                        if rv not in (0, K.CKR_ATTRIBUTE_SENSITIVE) and not leak:
                            # the owner closed its session between the search and the read, or during the read (whatever
                            # error the vanishing object produces: the model accepts it only if the key can have been gone)
                            r.update(rv="NOKEY", err=rvname(rv))
                        else:
                            r.update(rv=rvname(rv), st="LEAK" if leak else "")
                elif c == "unwrappriv":
                    # (no byte-string attribute in the template but the identifier, which is looked for afterwards)
                    rvf, hs = p.find(s, [(K.CKA_ID, b"wk")])
                    rv, g = p.unwrap_key(s, Mech(K.CKM_AES_KEY_WRAP), hs[0] if hs else 0, self.blob,
                                         [(K.CKA_CLASS, K.CKO_SECRET_KEY), (K.CKA_KEY_TYPE, K.CKK_GENERIC_SECRET),
                                          (K.CKA_TOKEN, True), (K.CKA_PRIVATE, True), (K.CKA_SENSITIVE, False),
                                          (K.CKA_EXTRACTABLE, True), (K.CKA_ENCRYPT, t % 2 == 1)])
                    r.update(rv=rvname(rv))
                elif c == "sessinfo" and self.shared:
                    rv, si = p.session_info(s)
                    r.update(rv=rvname(rv), st=p11.statename(si["state"]) if rv == 0 else "")
                elif c == "open":
                    rv, s = p.open_session(self.slot, True)
                    r.update(rv=rvname(rv), h=int(s))
                elif c == "close":
                    rv = p.close_session(s)
                    r.update(rv=rvname(rv))
                elif c == "create":
                    rv, g = p.create_object(s, [(K.CKA_CLASS, K.CKO_SECRET_KEY), (K.CKA_KEY_TYPE, K.CKK_AES),
                                                (K.CKA_TOKEN, call[2] == "tok"), (K.CKA_PRIVATE, True),
                                                (K.CKA_LABEL, b"o%d" % o), (K.CKA_ID, b"v0"), (K.CKA_VALUE, bytes([o]) * 16),
                                                (K.CKA_SENSITIVE, False), (K.CKA_EXTRACTABLE, True), (K.CKA_ENCRYPT, True),
                                                (K.CKA_SIGN, True)])
                    hnd[o] = g
                    with self.loglock:
                        self.h2o.setdefault(int(g), []).append(o)
                    r.update(rv=rvname(rv), h=int(g))
                elif c == "findown":
                    rv, hs = p.find(s, [(K.CKA_LABEL, b"o%d" % o)])
                    r.update(rv=rvname(rv), n=len(hs), same=(len(hs) == 1 and hs[0] == hnd.get(o)))
                elif c == "findall":
                    rv, hs = p.find(s, [(K.CKA_CLASS, K.CKO_SECRET_KEY)])
                    labs = []
                    for g in hs:          # which object each handle denotes: its label, read through the handle
                        r2, d = p.get_attrs(s, g, [K.CKA_LABEL])
                        lab = (d.get(K.CKA_LABEL) or b"") if r2 == 0 else b""
                        labs.append(int(lab[1:]) if lab[:1] == b"o" and lab[1:].isdigit() else 0)
                    r.update(rv=rvname(rv), hs=[int(x) for x in hs], labs=labs)
                elif c == "get":
                    rv, d = p.get_attrs(s, hnd.get(o, 0), [K.CKA_LABEL, K.CKA_VALUE])
                    r.update(rv=rvname(rv), ok=(rv == 0 and d.get(K.CKA_LABEL) == b"o%d" % o and
                                                d.get(K.CKA_VALUE) == bytes([o]) * 16))
                elif c == "set":
                    rv = p.set_attrs(s, hnd.get(o, 0), [(K.CKA_ID, b"v1")])
                    r.update(rv=rvname(rv))
                elif c == "destroy":
                    rv = p.destroy_object(s, hnd.get(o, 0))
                    r.update(rv=rvname(rv))
                elif c == "sessinfo":
                    rv, si = p.session_info(s)
                    r.update(rv=rvname(rv), ok=(rv == 0 and si["state"] == K.CKS_RW_USER_FUNCTIONS and si["slot"] == self.slot))
                elif c == "digest":
                    data = b"thread %d data" % t * 20
                    rv = p.op_init("Digest", s, Mech(K.CKM_SHA256))
                    rv2, out = p.io_full("Digest", s, data) if rv == 0 else (rv, b"")
                    r.update(rv=rvname(rv or rv2), ok=(out == hashlib.sha256(data).digest()))
                elif c == "encrypt":
                    data = bytes([t]) * 64
                    rv = p.op_init("Encrypt", s, Mech(K.CKM_AES_ECB), hnd.get(o, 0))
                    rv2, ct = p.io_full("Encrypt", s, data) if rv == 0 else (rv, b"")
                    rv3 = p.op_init("Decrypt", s, Mech(K.CKM_AES_ECB), hnd.get(o, 0)) if not (rv or rv2) else 1
                    rv4, pt = p.io_full("Decrypt", s, ct) if rv3 == 0 else (rv3, b"")
                    r.update(rv=rvname(rv or rv2 or rv3 or rv4), ok=bool(ct and pt == data and ct != data and ct[:16] == ct[16:32]))
                elif c == "sign":
                    import hmac
                    data = b"sign me %d" % t
                    rv = p.op_init("Sign", s, Mech(K.CKM_AES_CMAC), hnd.get(o, 0))
                    rv2, sig = p.io_full("Sign", s, data) if rv == 0 else (rv, b"")
                    rv3 = p.op_init("Verify", s, Mech(K.CKM_AES_CMAC), hnd.get(o, 0)) if not (rv or rv2) else 1
                    rv4 = p.verify(s, data, sig) if rv3 == 0 else rv3
                    r.update(rv=rvname(rv or rv2 or rv3 or rv4), ok=bool(sig and len(sig) == 16))
                else:
                    raise ValueError(c)
                self.log(r)
                if not self.free and sc.mode == "calibrate":
                    sc.points[t].append(["R", 0])
                if c in ("open", "openro") and r.get("rv") != "OK":
                    break          # no session: the rest of the program cannot be run
        except Deadlock:
            self.log(dict(e="Stuck", t=t))
        except BaseException as e:
            import traceback
            self.log(dict(e="DriverError", t=t, msg=traceback.format_exc()[-600:]))
        finally:
            if not self.free:
                try:
                    sc.finish(t)
                except BaseException:
                    pass

    def go(self):
        sc = self.sched
        n = len(self.progs)
        if not self.free:
            for t in range(1, n + 1):
                sc.state[t] = None
                sc.points[t] = []
        ths = [threading.Thread(target=self.worker, args=(t + 1, self.progs[t]), daemon=True) for t in range(n)]
        for th in ths:
            th.start()
        if not self.free:
            order = list(range(1, n + 1))
            if sc.mode == "calibrate":
                # one thread after the other
                with sc.cv:
                    sc.schedule = []
                    sc.running = 1
                    sc.cv.notify_all()
            else:
                with sc.cv:
                    first = sc.schedule[0][0] if sc.schedule and sc.schedule[0][0] in order else 1
                    sc.running = first
                    sc.cv.notify_all()
        t0 = time.time()
        hung = False
        for th in ths:
            th.join(max(0.1, HANG - (time.time() - t0)))
            if th.is_alive():
                hung = True
        return hung


def lock_program(points):
    """the recorded points of each thread as the constant Prog of Conc.tla: [[{acq: [...], held: [...]}, ...], ...]"""
    out = []
    for t in sorted(points, key=int):
        prog, held, cur = [], set(), None
        for kind, m in points[t]:
            if kind in ("I", "L"):
                if cur is not None:
                    cur["held"] = sorted(held)
                cur = dict(acq=[m] if kind == "L" else [], held=[])
                prog.append(cur)
                if kind == "L":
                    held.add(m)
            elif kind == "l":
                if m not in cur["acq"]:
                    cur["acq"].append(m)
                held.add(m)
            elif kind == "U":
                held.discard(m)
            elif kind == "V":                       # full mode: a point right after the release
                held.discard(m)
                cur["held"] = sorted(held)
                cur = dict(acq=[], held=[])
                prog.append(cur)
        if cur is not None:
            cur["held"] = sorted(held)
        out.append(prog)
    return out


def resolve(events, h2o):
    """handles -> object numbers in the search results (a handle no C_CreateObject returned is a ghost)"""
    out = []
    for ev in events:
        if ev.get("c") == "findall" and ev["e"] == "Ret":
            hs, labs = ev.pop("hs"), ev.pop("labs")
            ids, ghost, twice = [], 0, 0
            for h, lab in zip(hs, labs):
                if lab:
                    ids.append(lab)
                    if h in h2o and lab not in h2o[h]:
                        twice += 1           # the handle some C_CreateObject returned for ANOTHER object
                elif h in h2o:
                    ids.append(h2o[h][-1])
                else:
                    ghost += 1               # not readable any more and never returned by a C_CreateObject
            ev["ids"] = sorted(set(ids))
            ev["dup"] = len(ids) - len(set(ids)) + twice
            ev["ghost"] = ghost
        out.append(ev)
    return out


def execute(lib, p, sched, wd, template, progs, mode, schedule, em, b):
    """one execution: fresh token, C_Initialize with the callbacks (or OS locking), base session + login, threads"""
    tok = os.path.join(wd, "tokens")
    shutil.rmtree(tok, ignore_errors=True)
    shutil.copytree(os.path.join(template, "tokens"), tok)
    free = mode == "free"
    if free:
        rv = p.initialize_os_locking()
    else:
        sched.reset(schedule, "off")
        # mutex numbers start again with every C_Initialize (the calibration numbers them in its first and only execution)
        sched.nmutex = 0
        sched.owner = {}
        a = sched.args()
        rv = p.lib.C_Initialize(C.byref(a))
    if rv:
        raise RuntimeError("C_Initialize: " + rvname(rv))
    slot = the_slot(p)
    shared = shared_family(progs)
    rv, base = p.open_session(slot, True)
    rv = p.login(base, K.CKU_USER, USER)
    if rv:
        raise RuntimeError("login: " + rvname(rv))
    if shared:
        # the threads own ALL sessions of the token: the last one of them to close its session logs the token out
        p.close_session(base)
    if not free:
        sched.mode = mode
    run = Run(p, slot, progs, sched, em, free)
    bf = os.path.join(template, "blob.bin")
    if os.path.exists(bf):
        run.blob = open(bf, "rb").read()
    em.emit(dict(e="Reset", b=b, n=len(progs), base=1))
    em.flush()
    hung = run.go()
    events = resolve(run.events, run.h2o)
    for ev in events:
        em.emit(ev)
    points = None
    if not free:
        points = dict(sched.points)
        npoints, switches = sched.npoints, sched.switches
        if sched.deadlock is not None:
            em.emit(dict(e="Deadlock", waiting=sched.deadlock))
        if sched.error:
            em.emit(dict(e="DriverError", msg=sched.error))
        sched.mode = "off"
    if hung:
        em.emit(dict(e="Hang"))
        em.flush()
        em.close()
        os._exit(0)            # threads are stuck inside the library: this process cannot go on
    if shared:
        # what a single thread finds afterwards: the state of a new session, and the PIN that logs in
        rv, base = p.open_session(slot, True)
        rv, si = p.session_info(base)
        good = [sym for sym in ("P0", "P1", "P2") if p.login(base, K.CKU_USER, PINS[sym]) == 0 and p.logout(base) == 0]
        # the private token keys that C_UnwrapKey calls have left: how many, how many with another value than the one that
        # was wrapped; and (independent of the library) is that value anywhere in the token directory in clear?
        nkeys = bad = 0
        if good and p.login(base, K.CKU_USER, PINS[good[0]]) == 0:
            r2, hs = p.find(base, [(K.CKA_CLASS, K.CKO_SECRET_KEY), (K.CKA_KEY_TYPE, K.CKK_GENERIC_SECRET), (K.CKA_TOKEN, True)])
            for g in hs:
                r3, d = p.get_attrs(base, g, [K.CKA_VALUE])
                nkeys += 1
                bad += 0 if (r3 == 0 and d.get(K.CKA_VALUE) == UNWRAPPED_SECRET) else 1
        p.finalize()
        from . import tokdec
        plain = len(tokdec.contains_plaintext(tok, [UNWRAPPED_SECRET]))
        # the shared token key after the restart: the label a new library instance reads
        lab = "n/a"
        if p.initialize() == 0:
            r4, s4 = p.open_session(the_slot(p), True)
            r5, hs = p.find(s4, [(K.CKA_ID, b"tk")])
            if r5 == 0 and hs:
                r6, d6 = p.get_attrs(s4, hs[0], [K.CKA_LABEL])
                lab = (d6.get(K.CKA_LABEL) or b"").decode("latin-1") if r6 == 0 else "?" + rvname(r6)
            p.finalize()
        em.emit(dict(e="Final", st=p11.statename(si["state"]) if rv == 0 else "", pin=good[0] if len(good) == 1 else "?",
                     nkeys=nkeys, bad=bad, plain=plain, lab=lab))
        return points
    # what is left afterwards (main thread, sequential)
    rv, hs = p.find(base, [(K.CKA_CLASS, K.CKO_SECRET_KEY)])
    ids = []
    for h in hs:
        r, d = p.get_attrs(base, h, [K.CKA_LABEL])
        lab = d.get(K.CKA_LABEL) or b""
        ids.append(int(lab[1:]) if r == 0 and lab[:1] == b"o" and lab[1:].isdigit() else -1)
    em.emit(dict(e="Final", rv=rvname(rv), ids=sorted(i for i in ids if i > 0), junk=sum(1 for i in ids if i <= 0)))
    p.finalize()
    return points


def main():
    lib, bfile, out, workdir, seed, mode, progs = sys.argv[1:8]
    rounds = int(sys.argv[8]) if len(sys.argv) > 8 else 1
    progs = [PROGRAMS[x] for x in progs.split(",")]
    behaviours = json.load(open(bfile))
    os.makedirs(workdir, exist_ok=True)
    template = os.path.join(workdir, "template")
    if not os.path.exists(template):
        prepare(lib, template, shared_family(progs))
    wd = os.path.join(workdir, "run")
    os.makedirs(wd, exist_ok=True)
    conf(wd)
    p = P11(lib)
    sched = Sched()
    if mode.endswith("-full"):
        sched.full = True
        mode = mode[:-5]
    em = Emitter(out)
    if mode == "calibrate":
        pts = execute(lib, p, sched, wd, template, progs, "calibrate", [], em, 0)
        with open(os.path.join(workdir, "points.json"), "w") as f:
            json.dump(lock_program(pts), f)
    elif mode == "free":
        for i in range(rounds):
            execute(lib, p, sched, wd, template, progs, "free", [], em, i)
            em.flush()
    else:
        for i, beh in enumerate(behaviours):
            schedule = [[parse_call(l)[1][0], 1 if parse_call(l)[0] == "Run" else 0] for l in beh]
            execute(lib, p, sched, wd, template, progs, "controlled", schedule, em, i)
            em.flush()
    em.close()


if __name__ == "__main__":
    from .harness import run_main
    run_main(main)
