"""Crash-point and fault-point exploration of the calls that write to the token directory (C16; fault clauses of
C05 / C09), with the LD_PRELOAD shim harness/fsshim.c.

For each scenario (one writing call on a prepared token):
  log run    the call under the shim in log mode: the sequence of file-system operations, and the state a fresh
             process sees before (old) and after (new) the completed call
  crash k    for EVERY k: a copy of the prepared directory, the call in a child process that dies right before its
             k-th file-system operation, then recovery in a fresh process (time-limited): what does it see?
  fault k    the k-th operation fails (ENOSPC / EACCES); the call's return value and the state afterwards
One ndjson event per experiment; Trace_Crash.tla decides.

usage: python3 -m vf.drv_crash <lib> <scenarios.json> <out.ndjson> <workdir> <seed> <mode crash|fault> <shim.so> [jobs]
"""
import concurrent.futures as cf
import ctypes
import hashlib
import json
import os
import re
import shutil
import subprocess
import sys

from . import p11const as K
from .p11 import P11, rvname, Mech
from .testkeys import EC_P256

SO, USER, NEWPIN = b"crash-so-pin", b"crash-user-pin", b"crash-new-pin"
ROOTDIR = os.path.dirname(os.path.dirname(os.path.abspath(__file__)))
ATTRS = [K.CKA_CLASS, K.CKA_ID, K.CKA_LABEL, K.CKA_VALUE, K.CKA_PRIVATE, K.CKA_KEY_TYPE, K.CKA_SENSITIVE, K.CKA_EXTRACTABLE,
         K.CKA_ENCRYPT, K.CKA_SIGN, K.CKA_LOCAL, K.CKA_EC_PARAMS, K.CKA_EC_POINT, K.CKA_VALUE_LEN, K.CKA_MODIFIABLE]


def conf(workdir):
    c = os.path.join(workdir, "softhsm2.conf")
    with open(c, "w") as f:
        f.write("directories.tokendir = %s\nobjectstore.backend = file\nlog.level = ERROR\nslots.removable = false\n"
                % os.path.join(workdir, "tokens"))
    os.environ["SOFTHSM2_CONF"] = c
    return c


def the_slot(p):
    rv, slots = p.slot_list(True)
    for s in slots:
        rv, ti = p.token_info(s)
        if rv == 0 and ti["flags"] & K.CKF_TOKEN_INITIALIZED:
            return s
    return None


def free_slot(p):
    rv, slots = p.slot_list(True)
    for s in slots:
        rv, ti = p.token_info(s)
        if rv == 0 and not ti["flags"] & K.CKF_TOKEN_INITIALIZED:
            return s
    return None


def prepare(lib, workdir):
    """token with both PINs, a public AES key (o1), a private generic secret (o2), a private data object (o3)"""
    os.makedirs(os.path.join(workdir, "tokens"))
    conf(workdir)
    p = P11(lib)
    assert p.initialize() == 0
    assert p.init_token(free_slot(p), SO, b"crash-token") == 0
    p.finalize()
    p.initialize()
    rv, s = p.open_session(the_slot(p), True)
    assert p.login(s, K.CKU_SO, SO) == 0 and p.init_pin(s, USER) == 0 and p.logout(s) == 0
    assert p.login(s, K.CKU_USER, USER) == 0
    T, F = True, False
    for t in ([(K.CKA_CLASS, K.CKO_SECRET_KEY), (K.CKA_KEY_TYPE, K.CKK_AES), (K.CKA_TOKEN, T), (K.CKA_PRIVATE, F),
               (K.CKA_ID, b"o1"), (K.CKA_LABEL, b"public aes"), (K.CKA_VALUE, bytes(range(16))), (K.CKA_SENSITIVE, F),
               (K.CKA_EXTRACTABLE, T), (K.CKA_ENCRYPT, T)],
              [(K.CKA_CLASS, K.CKO_SECRET_KEY), (K.CKA_KEY_TYPE, K.CKK_GENERIC_SECRET), (K.CKA_TOKEN, T),
               (K.CKA_PRIVATE, T), (K.CKA_ID, b"o2"), (K.CKA_LABEL, b"private secret"), (K.CKA_VALUE, b"s" * 40),
               (K.CKA_SENSITIVE, F), (K.CKA_EXTRACTABLE, T), (K.CKA_SIGN, T)],
              [(K.CKA_CLASS, K.CKO_DATA), (K.CKA_TOKEN, T), (K.CKA_PRIVATE, T), (K.CKA_LABEL, b"private data"),
               (K.CKA_APPLICATION, b"o3"), (K.CKA_VALUE, b"d" * 100)],
              # further key types (the typed object wrappers of P11Objects.cpp differ per CKA_KEY_TYPE)
              [(K.CKA_CLASS, K.CKO_SECRET_KEY), (K.CKA_KEY_TYPE, K.CKK_SHA256_HMAC), (K.CKA_TOKEN, T), (K.CKA_PRIVATE, T),
               (K.CKA_ID, b"o4"), (K.CKA_LABEL, b"private hmac"), (K.CKA_VALUE, b"h" * 32), (K.CKA_SENSITIVE, F),
               (K.CKA_EXTRACTABLE, T), (K.CKA_SIGN, T), (K.CKA_VERIFY, T)],
              [(K.CKA_CLASS, K.CKO_SECRET_KEY), (K.CKA_KEY_TYPE, K.CKK_DES3), (K.CKA_TOKEN, T), (K.CKA_PRIVATE, F),
               (K.CKA_ID, b"o5"), (K.CKA_LABEL, b"public des3"), (K.CKA_VALUE, bytes([1, 2, 4, 7, 8, 11, 13, 14] * 3)),
               (K.CKA_SENSITIVE, F), (K.CKA_EXTRACTABLE, T), (K.CKA_ENCRYPT, T)]):
        rv, g = p.create_object(s, t)
        assert rv == 0, rvname(rv)
    p.finalize()


# ------------------------------------------------------------------------------------------------ the call under test
def find_by_id(p, s, tag):
    rv, hs = p.find(s, [(K.CKA_ID, tag)])
    return hs[0] if hs else 0


def perform(p, scenario, arm, disarm):
    """runs the scenario's set-up (not armed), then the call under test (armed); returns rv"""
    sl = the_slot(p)
    if scenario == "InitTokenFresh":
        fs = free_slot(p)
        arm()
        rv = p.init_token(fs, SO, b"second-token")
        disarm()
        return rv
    if scenario == "InitTokenReinit":
        arm()
        rv = p.init_token(sl, SO, b"crash-token-2")
        disarm()
        return rv
    if scenario in ("ReadAll", "ReadAllRO"):
        # calls that only read: whatever they do to the token directory, they must not write to it
        rv, s = p.open_session(sl, scenario == "ReadAll")
        assert p.login(s, K.CKU_USER, USER) == 0
        arm()
        rv, hs = p.find(s, [])
        for g in hs:
            for a in ATTRS:
                p.get_attr(s, g, a)
            p.object_size(s, g)
        for tag, mech in ((b"o4", K.CKM_SHA256_HMAC), (b"o2", K.CKM_SHA256_HMAC)):
            g = find_by_id(p, s, tag)
            if p.op_init("Sign", s, Mech(mech), g) == 0:
                p.io_full("Sign", s, b"some data")
        g = find_by_id(p, s, b"o1")
        if p.op_init("Encrypt", s, Mech(K.CKM_AES_ECB), g) == 0:
            p.io_full("Encrypt", s, bytes(32))
        p.token_info(sl)
        p.session_info(s)
        rv, hs2 = p.find(s, [(K.CKA_CLASS, K.CKO_SECRET_KEY)])
        disarm()
        return rv
    rv, s = p.open_session(sl, True)
    if scenario == "LoginWrongUser":
        arm()
        rv = p.login(s, K.CKU_USER, b"wrong-pin")
        disarm()
        return rv
    if scenario == "LoginWrongSO":
        arm()
        rv = p.login(s, K.CKU_SO, b"wrong-pin")
        disarm()
        return rv
    if scenario == "LoginRightAfterWrong":
        p.login(s, K.CKU_USER, b"wrong-pin")
        arm()
        rv = p.login(s, K.CKU_USER, USER)
        disarm()
        return rv
    if scenario == "InitPIN":
        p.login(s, K.CKU_SO, SO)
        arm()
        rv = p.init_pin(s, NEWPIN)
        disarm()
        return rv
    if scenario == "SetPINSO":
        p.login(s, K.CKU_SO, SO)
        arm()
        rv = p.set_pin(s, SO, NEWPIN)
        disarm()
        return rv
    if scenario == "SetPINUser":
        arm()
        rv = p.set_pin(s, USER, NEWPIN)
        disarm()
        return rv
    assert p.login(s, K.CKU_USER, USER) == 0
    T, F = True, False
    if scenario.startswith("CreateObject"):
        private = scenario.endswith("Private")
        t = [(K.CKA_CLASS, K.CKO_SECRET_KEY), (K.CKA_KEY_TYPE, K.CKK_GENERIC_SECRET), (K.CKA_TOKEN, T),
             (K.CKA_PRIVATE, private), (K.CKA_ID, b"n1"), (K.CKA_LABEL, b"new object"), (K.CKA_VALUE, b"n" * 33),
             (K.CKA_SENSITIVE, F), (K.CKA_EXTRACTABLE, T)]
        arm()
        rv, g = p.create_object(s, t)
        disarm()
        return rv
    if scenario == "CreateObjectRich":
        # every value kind of the object file: boolean, number, byte string, mechanism set, attribute map
        t = [(K.CKA_CLASS, K.CKO_SECRET_KEY), (K.CKA_KEY_TYPE, K.CKK_AES), (K.CKA_TOKEN, T), (K.CKA_PRIVATE, T),
             (K.CKA_ID, b"n1"), (K.CKA_LABEL, b"rich object"), (K.CKA_VALUE, b"r" * 32), (K.CKA_SENSITIVE, F),
             (K.CKA_EXTRACTABLE, T), (K.CKA_WRAP, T),
             (K.CKA_ALLOWED_MECHANISMS, [K.CKM_AES_CBC, K.CKM_AES_ECB, K.CKM_AES_KEY_WRAP]),
             (K.CKA_WRAP_TEMPLATE, [(K.CKA_ENCRYPT, T), (K.CKA_LABEL, b"w")]),
             (K.CKA_UNWRAP_TEMPLATE, [(K.CKA_KEY_TYPE, K.CKK_AES)])]
        arm()
        rv, g = p.create_object(s, t)
        disarm()
        return rv
    if scenario == "GenerateKey":
        arm()
        rv, g = p.generate_key(s, Mech(K.CKM_AES_KEY_GEN), [(K.CKA_TOKEN, T), (K.CKA_PRIVATE, T), (K.CKA_ID, b"n1"),
                                                            (K.CKA_LABEL, b"generated"), (K.CKA_VALUE_LEN, 16)])
        disarm()
        return rv
    if scenario == "GenerateKeyPair":
        arm()
        rv, a, b = p.generate_key_pair(s, Mech(K.CKM_EC_KEY_PAIR_GEN),
                                       [(K.CKA_TOKEN, T), (K.CKA_PRIVATE, F), (K.CKA_ID, b"n1"), (K.CKA_EC_PARAMS, EC_P256["params"])],
                                       [(K.CKA_TOKEN, T), (K.CKA_PRIVATE, T), (K.CKA_ID, b"n2")])
        disarm()
        return rv
    if scenario in ("SetAttrPublic", "SetAttrPrivate", "SetAttrShrink"):
        g = find_by_id(p, s, b"o1" if scenario == "SetAttrPublic" else b"o2")
        lab = b"x" if scenario == "SetAttrShrink" else b"a much longer label than before, changed"
        arm()
        rv = p.set_attrs(s, g, [(K.CKA_LABEL, lab)])
        disarm()
        return rv
    if scenario == "CopyObject":
        g = find_by_id(p, s, b"o2")
        arm()
        rv, ng = p.copy_object(s, g, [(K.CKA_ID, b"n1"), (K.CKA_LABEL, b"copy")])
        disarm()
        return rv
    if scenario == "DestroyObject":
        g = find_by_id(p, s, b"o2")
        arm()
        rv = p.destroy_object(s, g)
        disarm()
        return rv
    if scenario == "DeriveKey":
        g = find_by_id(p, s, b"o1")
        p.set_attrs(s, g, [(K.CKA_DERIVE, True)])
        from .p11 import keyderiv_string
        arm()
        rv, ng = p.derive_key(s, Mech(K.CKM_AES_ECB_ENCRYPT_DATA, keyderiv_string(bytes(32))), g,
                              [(K.CKA_CLASS, K.CKO_SECRET_KEY), (K.CKA_KEY_TYPE, K.CKK_GENERIC_SECRET), (K.CKA_TOKEN, T),
                               (K.CKA_PRIVATE, T), (K.CKA_ID, b"n1"), (K.CKA_VALUE_LEN, 32)])
        disarm()
        return rv
    if scenario == "UnwrapKey":
        wk = find_by_id(p, s, b"o1")
        p.set_attrs(s, wk, [(K.CKA_WRAP, True), (K.CKA_UNWRAP, True)])
        g = find_by_id(p, s, b"o2")
        rvw, blob, n = p.wrap_key(s, Mech(K.CKM_AES_KEY_WRAP), wk, g)
        arm()
        rv, ng = p.unwrap_key(s, Mech(K.CKM_AES_KEY_WRAP), wk, blob or bytes(48),
                              [(K.CKA_CLASS, K.CKO_SECRET_KEY), (K.CKA_KEY_TYPE, K.CKK_GENERIC_SECRET), (K.CKA_TOKEN, T),
                               (K.CKA_PRIVATE, T), (K.CKA_ID, b"n1")])
        disarm()
        return rv
    raise ValueError(scenario)


def child(lib, workdir, scenario, mode, k):
    conf(workdir)
    sh = ctypes.CDLL(None)
    p = P11(lib)
    rv = p.initialize()
    if rv:
        print(json.dumps(dict(rv="init:" + rvname(rv))))
        return
    m = {"log": 0, "crash": 1, "fault": 2}[mode]
    rv = perform(p, scenario, lambda: sh.fsshim_arm(m, int(k)), lambda: sh.fsshim_disarm())
    out = dict(rv=rvname(rv), nops=sh.fsshim_count(), hit=bool(sh.fsshim_hit()))
    # what the SAME process sees afterwards (fault mode: a call that returned OK must have persisted its effect)
    print(json.dumps(out))
    sys.stdout.flush()
    p.finalize()


def recover(lib, workdir):
    """fresh process: can the directory be opened, do the PINs log in, what objects are there?"""
    conf(workdir)
    p = P11(lib)
    rv = p.initialize()
    out = dict(init=rvname(rv), tokens=[])
    if rv == 0:
        rv, slots = p.slot_list(True)
        for sl in slots:
            rv, ti = p.token_info(sl)
            if rv:
                out["tokens"].append(dict(label="?", info=rvname(rv), so="", sonew="", user="", usernew="", find="",
                                          userinit=False, objects=[]))
                continue
            if not ti["flags"] & K.CKF_TOKEN_INITIALIZED:
                continue
            t = dict(label=ti["label"].rstrip(b" ").decode("latin-1"), info="OK",
                     userinit=bool(ti["flags"] & K.CKF_USER_PIN_INITIALIZED))
            rv, s = p.open_session(sl, True)
            t["so"] = rvname(p.login(s, K.CKU_SO, SO))
            p.logout(s)
            t["sonew"] = rvname(p.login(s, K.CKU_SO, NEWPIN))
            p.logout(s)
            t["user"] = rvname(p.login(s, K.CKU_USER, USER))
            if t["user"] != "OK":
                t["usernew"] = rvname(p.login(s, K.CKU_USER, NEWPIN))
            else:
                t["usernew"] = "-"
            rvf, hs = p.find(s, [])
            objs = []
            for g in hs:
                rec = {}
                for a in ATTRS:
                    rv, v = p.get_attr(s, g, a)
                    rec["%x" % a] = (v.hex() if len(v) <= 48 else "h:" + hashlib.sha256(v).hexdigest()[:16]) \
                        if (rv == 0 and v is not None) else "n/a:" + rvname(rv)
                rec["ghost"] = rec["%x" % K.CKA_CLASS].startswith("n/a")
                objs.append(rec)
            objs.sort(key=lambda r: (r["%x" % K.CKA_ID], r["%x" % K.CKA_LABEL], r["%x" % K.CKA_CLASS]))
            t["find"] = rvname(rvf)
            t["objects"] = objs
            out["tokens"].append(t)
        out["tokens"].sort(key=lambda t: t["label"])
        p.finalize()
    print(json.dumps(out))


# ------------------------------------------------------------------------------------------------ orchestration
def run_child(lib, wd, scenario, mode, k, shim, log=None, timeout=120):
    env = dict(os.environ, LD_PRELOAD=shim, FSSHIM_ROOT=os.path.join(wd, "tokens"), PYTHONPATH=ROOTDIR)
    if log:
        env["FSSHIM_LOG"] = log
    try:
        r = subprocess.run([sys.executable, "-m", "vf.drv_crash", "--child", lib, wd, scenario, mode, str(k)], env=env,
                           cwd=ROOTDIR, stdout=subprocess.PIPE, stderr=subprocess.PIPE, timeout=timeout)
    except subprocess.TimeoutExpired:
        return -99, {}
    try:
        out = json.loads(r.stdout.decode().strip().splitlines()[-1])
    except Exception:
        out = {}
    return r.returncode, out


def run_recover(lib, wd, timeout=60):
    env = dict(os.environ, PYTHONPATH=ROOTDIR)
    env.pop("LD_PRELOAD", None)
    try:
        r = subprocess.run([sys.executable, "-m", "vf.drv_crash", "--recover", lib, wd], env=env, cwd=ROOTDIR,
                           stdout=subprocess.PIPE, stderr=subprocess.PIPE, timeout=timeout)
    except subprocess.TimeoutExpired:
        return dict(init="HANG", tokens=[])
    try:
        return json.loads(r.stdout.decode().strip().splitlines()[-1])
    except Exception:
        return dict(init="DIED:%d" % r.returncode, tokens=[])


UUID = re.compile(r"[0-9a-f]{8}-[0-9a-f]{4}-[0-9a-f]{4}-[0-9a-f]{4}-[0-9a-f]{12}")


def listing(root):
    out = set()
    for dp, dns, fns in os.walk(root):
        for n in fns:
            out.add(os.path.relpath(os.path.join(dp, n), root))
    return out


def normalise_ops(path_log, before=()):
    """path classes: token.object -> 'token', <uuid>.object -> 'obj<i>' (i by first appearance), locks likewise.
    Returns (ops, classes of the files that did not exist before the call)."""
    ops = []
    names = {}
    toks = {}
    newf = set()
    for line in open(path_log):
        try:
            e = json.loads(line)
        except ValueError:
            continue
        p = e["path"]
        base = os.path.basename(p)
        m = UUID.match(base)
        depth = p.strip("/").count("/")
        if base in ("token.object", "token.lock", "generation"):
            td = os.path.dirname(p.strip("/"))
            ti = toks.setdefault(td, len(toks) + 1)
            cls = {"token.object": "token", "token.lock": "tokenlock", "generation": "generation"}[base]
            if ti > 1 and cls != "generation":
                cls = cls.replace("token", "token%d" % ti)
        elif m and base.endswith(".object"):
            cls = names.setdefault(m.group(0), "obj%d" % (len(names) + 1))
        elif m and base.endswith(".lock"):
            cls = names.setdefault(m.group(0), "obj%d" % (len(names) + 1)) + "lock"
        elif depth == 0:
            cls = "tokendir"
        else:
            cls = "other"
        ops.append([e["op"], cls, e.get("x", "")])
        if p.strip("/") not in before and (cls.startswith("obj") or cls.startswith("token")) and not cls.endswith("lock"):
            newf.add(cls)
    return ops, sorted(newf)


RANDOM_VALUED = ("GenerateKey", "GenerateKeyPair")


def mask(scenario, state):
    """keys generated by the call differ from run to run: their random attributes are reduced to present / n/a"""
    if scenario not in RANDOM_VALUED:
        return state
    for t in state.get("tokens", []):
        for o in t.get("objects", []):
            if o.get("%x" % K.CKA_ID, "") in (b"n1".hex(), b"n2".hex()):
                for a in (K.CKA_VALUE, K.CKA_EC_POINT):
                    k = "%x" % a
                    if k in o and not o[k].startswith("n/a"):
                        o[k] = "present"
    return state


def experiment(args):
    lib, base, wdroot, scenario, mode, k, shim = args
    wd = os.path.join(wdroot, "%s-%s-%d" % (scenario, mode, k))
    shutil.copytree(base, wd)
    rc, out = run_child(lib, wd, scenario, mode, k, shim)
    rec = run_recover(lib, wd)
    shutil.rmtree(wd, ignore_errors=True)
    return dict(k=k, rc=rc, child=out, rec=mask(scenario, rec))


def torn_experiment(args):
    lib, base, wdroot, rel, data, L = args
    wd = os.path.join(wdroot, "torn-%d" % L)
    shutil.copytree(base, wd)
    path = os.path.join(wd, "tokens", rel)
    with open(path, "wb") as f:
        f.write(data[:L])
    lock = path[:-len(".object")] + ".lock"
    open(lock, "ab").close()
    rec = run_recover(lib, wd)
    shutil.rmtree(wd, ignore_errors=True)
    return dict(L=L, rec=rec)


def torn_main(lib, outp, workdir, shim, jobs):
    """Torn writes: the file of an object that was being created holds only the first L bytes of what the call would have
    written - for EVERY L.  `boundary`: the cut falls on the start of an attribute record or inside the record's first
    word (the reader takes a short first word for the end of the file, so this is the same file as the one cut at the record
    start - what the as-built multi-step creation can leave anyway).  (Crash points at operation boundaries cannot produce
    these; a write torn by the kernel can.)  Two objects: a plain one and one with every value kind of the file format."""
    from . import tokdec
    base = os.path.join(workdir, "base")
    prepare(lib, base)
    old = run_recover(lib, base)
    f = open(outp, "w")
    for sc in ("CreateObjectPrivate", "CreateObjectRich"):
        wd = os.path.join(workdir, "log-torn-" + sc)
        shutil.copytree(base, wd)
        before = listing(os.path.join(wd, "tokens"))
        log = os.path.join(workdir, "ops-torn-%s.ndjson" % sc)
        rc, out = run_child(lib, wd, sc, "log", 0, shim, log=log)
        new = run_recover(lib, wd)
        added = sorted(x for x in listing(os.path.join(wd, "tokens")) - before if x.endswith(".object"))
        ops, newfiles = normalise_ops(log, before) if os.path.exists(log) else ([], [])
        f.write(json.dumps(dict(e="Log", scenario=sc, rv=out.get("rv", "?"), ops=ops, newfiles=newfiles, old=old, new=new,
                                ro=False)) + "\n")
        if len(added) == 1 and out.get("rv") == "OK":
            rel = added[0]
            data = open(os.path.join(wd, "tokens", rel), "rb").read()
            bounds = tokdec.record_boundaries(data)
            with cf.ThreadPoolExecutor(max_workers=jobs) as ex:
                results = list(ex.map(torn_experiment, [(lib, base, os.path.join(workdir, sc), rel, data, L)
                                                        for L in range(0, len(data))]))
            for r in results:
                f.write(json.dumps(dict(e="Torn", scenario=sc, L=r["L"], size=len(data),
                                        boundary=any(b <= r["L"] < b + 8 for b in bounds), rec=r["rec"])) + "\n")
        shutil.rmtree(wd, ignore_errors=True)
    f.close()


def main():
    if len(sys.argv) > 6 and sys.argv[6] == "torn":
        return torn_main(sys.argv[1], sys.argv[3], sys.argv[4], sys.argv[7], int(sys.argv[8]) if len(sys.argv) > 8 else 12)
    if sys.argv[1] == "--child":
        return child(*sys.argv[2:7])
    if sys.argv[1] == "--recover":
        return recover(*sys.argv[2:4])
    lib, sfile, outp, workdir, seed, mode, shim = sys.argv[1:8]
    jobs = int(sys.argv[8]) if len(sys.argv) > 8 else 12
    scenarios = json.load(open(sfile))
    base = os.path.join(workdir, "base")
    prepare(lib, base)
    old = run_recover(lib, base)
    f = open(outp, "w")
    for sc in scenarios:
        # log run
        wd = os.path.join(workdir, "log-" + sc)
        shutil.copytree(base, wd)
        log = os.path.join(workdir, "ops-%s.ndjson" % sc)
        before = listing(os.path.join(wd, "tokens"))
        rc, out = run_child(lib, wd, sc, "log", 0, shim, log=log)
        new = mask(sc, run_recover(lib, wd))
        ops, newfiles = normalise_ops(log, before) if os.path.exists(log) else ([], [])
        shutil.rmtree(wd, ignore_errors=True)
        f.write(json.dumps(dict(e="Log", scenario=sc, rv=out.get("rv", "?"), ops=ops, newfiles=newfiles, old=old, new=new,
                                ro=sc.startswith("ReadAll"))) + "\n")
        ks = list(range(1, len(ops) + 1))
        if sc.startswith("ReadAll"):
            # a reading call has no interesting crash point - unless it writes (which the protocol check refuses):
            # death before every modifying operation, and at a few other points
            mod = [i + 1 for i, o in enumerate(ops) if o[0] in ("ftruncate", "remove", "wrlock") or (o[0] == "fflush" and o[2] == "w")]
            ks = sorted(set(mod[:40] + [1, len(ops) // 3, len(ops) // 2, len(ops)]) - {0})
        with cf.ThreadPoolExecutor(max_workers=jobs) as ex:
            results = list(ex.map(experiment, [(lib, base, workdir, sc, mode, k, shim) for k in ks]))
        for r in results:
            f.write(json.dumps(dict(e="Crash" if mode == "crash" else "Fault", scenario=sc, k=r["k"], rc=r["rc"],
                                    rv=r["child"].get("rv", ""), hit=r["child"].get("hit", False), rec=r["rec"])) + "\n")
        f.flush()
    f.close()


if __name__ == "__main__":
    from .harness import run_main
    run_main(main)
