"""Driver for the behaviours of MC_Core: executes TLC-generated action sequences on the real library and
records, after every call, the return value, the outputs and the projection of the implementation state
(every session handle ever issued -> CKS_* state or invalid; every object handle ever issued -> valid or
invalid, and the identity/label read through it).  No expected value lives here: the oracle is
Trace_Core.tla evaluated by TLC on the recorded events.

usage: python3 -m vf.drv_core <lib> <behaviours.json> <out.ndjson> <workdir> <seed> <class> [backend]
"""
import json
import os
import sys

from . import p11const as K
from .harness import Harness, Emitter
from .p11 import rvname, statename
from .tlaval import parse_call
from .p11 import Mech, keyderiv_string
from .testkeys import RSA1024

USER = {"user": K.CKU_USER, "so": K.CKU_SO, "ctx": K.CKU_CONTEXT_SPECIFIC, "bad": 77}
BOGUS = 0x7fff0000


class CoreDriver(Harness):
    def __init__(self, libpath, workdir, seed, cls, backend="file"):
        Harness.__init__(self, libpath, workdir, seed, backend)
        self.cls = cls
        self.key_material = {}

    # ---------------- object templates per concrete class
    def tag_attr(self):
        return K.CKA_APPLICATION if self.cls == "data" else K.CKA_ID

    def tagbytes(self, o):
        return ("o%d" % o).encode()

    def labbytes(self, lab):
        return b"" if lab == "e" else ("lab-" + lab).encode()

    def template(self, atoms):
        """search template for a set of atoms (see P11Core: Search)"""
        t = []
        for a in sorted(atoms):
            if a == "tok":
                t.append((K.CKA_TOKEN, True))
            elif a == "sess":
                t.append((K.CKA_TOKEN, False))
            elif a == "priv":
                t.append((K.CKA_PRIVATE, True))
            elif a == "pub":
                t.append((K.CKA_PRIVATE, False))
            elif a == "absent":
                t.append((K.CKA_PRIME_BITS if self.cls != "data" else K.CKA_ID, ("raw", b"\x00" * 8)))
            elif a == "wrongsize":
                k = self.rng.randrange(3)
                t.append([(K.CKA_TOKEN, ("raw", b"\x01\x00")), (K.CKA_CLASS, ("raw", b"\x04\x00\x00\x00")),
                          (K.CKA_PRIVATE, ("raw", b""))][k])
            else:
                t.append((K.CKA_LABEL, self.labbytes(a)))
        self.rng.shuffle(t)
        return t

    def create_template(self, o, tokobj, private, lab):
        c = self.cls
        base = [(K.CKA_TOKEN, bool(tokobj)), (K.CKA_PRIVATE, bool(private)), (K.CKA_LABEL, self.labbytes(lab)),
                (self.tag_attr(), self.tagbytes(o))]
        r = self.rng
        if c == "data":
            return [(K.CKA_CLASS, K.CKO_DATA)] + base + [(K.CKA_VALUE, bytes(r.randrange(256) for _ in range(20)))]
        if c == "secret":
            return [(K.CKA_CLASS, K.CKO_SECRET_KEY), (K.CKA_KEY_TYPE, K.CKK_GENERIC_SECRET)] + base + \
                   [(K.CKA_VALUE, bytes(r.randrange(256) for _ in range(24))), (K.CKA_SENSITIVE, False),
                    (K.CKA_EXTRACTABLE, True)]
        if c == "aes":
            return [(K.CKA_CLASS, K.CKO_SECRET_KEY), (K.CKA_KEY_TYPE, K.CKK_AES)] + base + \
                   [(K.CKA_VALUE, bytes(r.randrange(256) for _ in range(16))), (K.CKA_ENCRYPT, True),
                    (K.CKA_DECRYPT, True), (K.CKA_SIGN, True), (K.CKA_VERIFY, True), (K.CKA_WRAP, True),
                    (K.CKA_UNWRAP, True), (K.CKA_DERIVE, True), (K.CKA_EXTRACTABLE, True), (K.CKA_SENSITIVE, False)]
        if c == "rsapriv":
            k = RSA1024
            return [(K.CKA_CLASS, K.CKO_PRIVATE_KEY), (K.CKA_KEY_TYPE, K.CKK_RSA)] + base + \
                   [(K.CKA_MODULUS, k["n"]), (K.CKA_PUBLIC_EXPONENT, k["e"]), (K.CKA_PRIVATE_EXPONENT, k["d"]),
                    (K.CKA_PRIME_1, k["p"]), (K.CKA_PRIME_2, k["q"]), (K.CKA_EXPONENT_1, k["dp"]),
                    (K.CKA_EXPONENT_2, k["dq"]), (K.CKA_COEFFICIENT, k["qi"]), (K.CKA_SIGN, True),
                    (K.CKA_DECRYPT, True), (K.CKA_UNWRAP, True), (K.CKA_EXTRACTABLE, True), (K.CKA_SENSITIVE, False)]
        if c == "rsapub":
            k = RSA1024
            return [(K.CKA_CLASS, K.CKO_PUBLIC_KEY), (K.CKA_KEY_TYPE, K.CKK_RSA)] + base + \
                   [(K.CKA_MODULUS, k["n"]), (K.CKA_PUBLIC_EXPONENT, k["e"]), (K.CKA_VERIFY, True),
                    (K.CKA_ENCRYPT, True), (K.CKA_WRAP, True)]
        if c == "cert":
            return [(K.CKA_CLASS, K.CKO_CERTIFICATE), (K.CKA_CERTIFICATE_TYPE, K.CKC_X_509)] + base + \
                   [(K.CKA_SUBJECT, b"\x30\x0b\x31\x09\x30\x07\x06\x03\x55\x04\x03\x0c\x00"),
                    (K.CKA_VALUE, bytes(r.randrange(256) for _ in range(40)))]
        if c == "pubkey":
            return [(K.CKA_CLASS, K.CKO_PUBLIC_KEY), (K.CKA_KEY_TYPE, K.CKK_RSA)] + base + \
                   [(K.CKA_MODULUS, bytes([0xc1] + [r.randrange(256) for _ in range(63)])),
                    (K.CKA_PUBLIC_EXPONENT, b"\x01\x00\x01"), (K.CKA_VERIFY, True)]
        if c == "privkey":
            def rb(n):
                return bytes([0xc1] + [r.randrange(256) for _ in range(n - 1)])
            return [(K.CKA_CLASS, K.CKO_PRIVATE_KEY), (K.CKA_KEY_TYPE, K.CKK_RSA)] + base + \
                   [(K.CKA_MODULUS, rb(64)), (K.CKA_PUBLIC_EXPONENT, b"\x01\x00\x01"),
                    (K.CKA_PRIVATE_EXPONENT, rb(64)), (K.CKA_PRIME_1, rb(32)), (K.CKA_PRIME_2, rb(32)),
                    (K.CKA_EXPONENT_1, rb(32)), (K.CKA_EXPONENT_2, rb(32)), (K.CKA_COEFFICIENT, rb(32)),
                    (K.CKA_SIGN, True)]
        raise ValueError(c)

    # ---------------- per execution state
    def begin(self):
        self.setup_tokens("P1", "P2")
        self.m2r = {}          # model handle number -> real handle
        self.nissued = 0       # handles issued so far in this execution (mirrors MC's NextH rule)
        self.sess_issued = []  # real session handles, in issue order
        self.obj_issued = []   # real object handles, in issue order
        self.slot_of_sess = {}
        self.next_o = 0

    def issue(self, real, kind, t=None):
        self.nissued += 1
        self.m2r[self.nissued] = real
        if kind == "s":
            self.sess_issued.append(real)
            self.slot_of_sess[real] = t
        else:
            self.obj_issued.append(real)

    def real(self, mh):
        if mh == 0:
            return BOGUS
        return self.m2r.get(mh, BOGUS + mh)

    # ---------------- projection
    def project(self, want_obj=True):
        p = self.p
        ss = []
        valid = []
        for h in self.sess_issued:
            rv, info = p.session_info(h)
            if rv == 0:
                ss.append([h, statename(info["state"])])
                valid.append(h)
            elif rv == K.CKR_SESSION_HANDLE_INVALID:
                ss.append([h, "INVALID"])
            else:
                ss.append([h, "ERR_" + rvname(rv)])
        oo = []
        if want_obj:
            for g in self.obj_issued:
                if not valid:
                    oo.append([g, "UNPROBED", 0, ""])
                    continue
                st = None
                tag, lab = 0, ""
                for s in valid:
                    rv, _ = p.object_size(s, g)
                    if rv == 0:
                        st = "OK"
                        break
                    st = "INVALID" if rv == K.CKR_OBJECT_HANDLE_INVALID else "ERR_" + rvname(rv)
                if st == "OK":
                    for s in valid:
                        rv, d = p.get_attrs(s, g, [self.tag_attr(), K.CKA_LABEL])
                        if rv == 0 and d.get(self.tag_attr()) is not None:
                            tag, lab = self.untag(d[self.tag_attr()]), self.unlab(d.get(K.CKA_LABEL))
                            break
                oo.append([g, st, tag, lab])
        return ss, oo

    def untag(self, b):
        try:
            s = b.decode()
            return int(s[1:]) if s.startswith("o") else -1
        except Exception:
            return -1

    def unlab(self, b):
        try:
            s = (b or b"").decode()
            return "e" if s == "" else (s[4:] if s.startswith("lab-") else "?" + s)
        except Exception:
            return "?"

    # ---------------- actions
    def step(self, label):
        if isinstance(label, (list, tuple)):
            name, a = label[0], list(label[1:])
        else:
            name, a = parse_call(label)
        p = self.p
        ev = {"e": name}
        if name == "MOpen":
            t, rw = a
            rv, h = p.open_session(self.slot[t], rw)
            ev.update(t=t, rw=rw, nh=h if rv == 0 else 0)
            if rv == 0:
                self.issue(h, "s", t)
        elif name == "MClose":
            h = self.real(a[0])
            rv = p.close_session(h)
            ev.update(h=h)
        elif name == "MCloseAll":
            rv = p.close_all(self.slot[a[0]])
            ev.update(t=a[0])
        elif name == "MInfo":
            h = self.real(a[0])
            rv, info = p.session_info(h)
            ev.update(h=h, st=statename(info["state"]) if rv == 0 else "")
        elif name == "MLogin":
            h = self.real(a[0])
            rv = p.login(h, USER[a[1]], self.pin(a[2]))
            ev.update(h=h, u=a[1], pin=a[2])
        elif name == "MLogout":
            h = self.real(a[0])
            rv = p.logout(h)
            ev.update(h=h)
        elif name == "MVanish":
            # behind the library's back: the token's directory is removed (as softhsm2-util --delete-token would)
            import glob
            import shutil
            t = a[0]
            for dpath in glob.glob(os.path.join(self.tokdir, "*")):
                if self.serial_dir.get(t) == os.path.basename(dpath):
                    shutil.rmtree(dpath, ignore_errors=True)
            rv = 0
            ev.update(t=t)
        elif name == "MInitToken":
            t, pin = a
            rv = p.init_token(self.slot[t], self.pin(pin), self.label_of(t))
            ev.update(t=t, pin=pin)
        elif name == "MInitPIN":
            h = self.real(a[0])
            rv = p.init_pin(h, self.pin(a[1]))
            ev.update(h=h, pin=a[1])
        elif name == "MSetPIN":
            h = self.real(a[0])
            rv = p.set_pin(h, self.pin(a[1]), self.pin(a[2]))
            ev.update(h=h, old=a[1], new=a[2])
        elif name == "MCreate":
            h = self.real(a[0])
            self.next_o += 1
            o = self.next_o
            rv, g = p.create_object(h, self.create_template(o, a[1], a[2], a[3]))
            ev.update(h=h, o=o, tokobj=a[1], priv=a[2], lab=a[3], nh=g if rv == 0 else 0)
            if rv == 0:
                self.issue(g, "o")
        elif name == "MCopy":
            h, g = self.real(a[0]), self.real(a[1])
            self.next_o += 1
            o = self.next_o
            rv, ng = p.copy_object(h, g, [(K.CKA_TOKEN, bool(a[2])), (K.CKA_PRIVATE, bool(a[3])),
                                          (self.tag_attr(), self.tagbytes(o))])
            ev.update(h=h, g=g, o=o, tokobj=a[2], priv=a[3], nh=ng if rv == 0 else 0)
            if rv == 0:
                self.issue(ng, "o")
        elif name == "MDestroy":
            h, g = self.real(a[0]), self.real(a[1])
            rv = p.destroy_object(h, g)
            ev.update(h=h, g=g)
        elif name == "MGetAttr":
            h, g = self.real(a[0]), self.real(a[1])
            rv, raw = p.get_attrs_raw(h, g, [self.tag_attr(), K.CKA_LABEL], [64, 64])
            tag, lab, clean = 0, "", True
            if rv == 0:
                tag = self.untag(raw[0][1][:raw[0][0]])
                lab = self.unlab(raw[1][1][:raw[1][0]])
            else:
                # "yields nothing": the canary-filled buffers must be untouched
                clean = all(r[1] == bytes([0xA5]) * 64 and r[2] for r in raw)
            ev.update(h=h, g=g, tag=tag, lab=lab, clean=clean)
        elif name == "MSetAttr":
            h, g = self.real(a[0]), self.real(a[1])
            rv = p.set_attrs(h, g, [(K.CKA_LABEL, self.labbytes(a[2]))])
            ev.update(h=h, g=g, lab=a[2])
        elif name == "MSize":
            h, g = self.real(a[0]), self.real(a[1])
            rv, n = p.object_size(h, g)
            ev.update(h=h, g=g)
        elif name == "MUse":
            h, g = self.real(a[0]), self.real(a[1])
            rv, clean = self.use(h, g, a[2])
            ev.update(h=h, g=g, f=a[2], clean=clean)
        elif name in ("MMake", "MMakeFail"):
            h = self.real(a[0])
            self.next_o += 1
            o = self.next_o
            rv, g = self.make(h, a[1], o, a[2], a[3], a[4], bad=(name == "MMakeFail"))
            ev["e"] = "MMake"
            ev.update(h=h, how=a[1], o=o, tokobj=a[2], priv=a[3], lab=a[4], nh=g if rv == 0 else 0)
            if rv == 0:
                self.issue(g, "o")
        elif name == "MMakePair":
            h = self.real(a[0])
            o, o2 = self.next_o + 1, self.next_o + 2
            self.next_o += 2
            rv, g1, g2 = self.make_pair(h, o, o2, a[1], a[2], a[3])
            ev.update(h=h, o=o, o2=o2, tokobj=a[1], priv=a[2], lab=a[3], nh=g1 if rv == 0 else 0,
                      nh2=g2 if rv == 0 else 0)
            if rv == 0:
                self.issue(g1, "o")
                self.issue(g2, "o")
        elif name in ("MFindAll", "MFindInit"):
            h = self.real(a[0])
            atoms = sorted(a[1])
            tmpl = self.template(atoms)
            if name == "MFindAll":
                rv, hs = p.find(h, tmpl, batch=self.rng.choice([1, 2, 3, 7]))
                found = self.identify(h, hs)
                ev.update(h=h, tmpl=atoms, found=found)
                self.adopt(found)
            else:
                rv = p.find_init(h, tmpl)
                ev.update(h=h, tmpl=atoms)
        elif name == "MFind":
            h = self.real(a[0])
            rv, hs, n = p.find_next(h, a[1])
            found = self.identify(h, hs) if rv == 0 else []
            ev.update(h=h, n=a[1], found=found, cnt=n if rv == 0 else 0)
            self.adopt(found)
        elif name == "MFindFinal":
            h = self.real(a[0])
            rv = p.find_final(h)
            ev.update(h=h)
        else:
            raise ValueError("unknown action " + label)
        ev["rv"] = rvname(rv)
        ss, oo = self.project()
        ev["ss"] = ss
        ev["oo"] = oo
        return ev

    # ---------------- using an object as a key: one representative mechanism per entry point and class
    def temp_key(self, h, **flags):
        t = [(K.CKA_CLASS, K.CKO_SECRET_KEY), (K.CKA_KEY_TYPE, K.CKK_AES), (K.CKA_TOKEN, False), (K.CKA_PRIVATE, False),
             (K.CKA_VALUE, bytes(self.rng.randrange(256) for _ in range(16))), (K.CKA_EXTRACTABLE, True),
             (K.CKA_SENSITIVE, False), (K.CKA_WRAP, True), (K.CKA_UNWRAP, True), (K.CKA_DERIVE, True),
             (K.CKA_ENCRYPT, True), (K.CKA_DECRYPT, True)]
        rv, g = self.p.create_object(h, t)
        return g if rv == 0 else 0

    def drop(self, h, g):
        if g:
            self.p.destroy_object(h, g)

    def use(self, h, g, f):
        """Returns (rv of the call that takes the object, clean) where clean = a refused attempt produced no
        output (no bytes in the output buffer of the follow-up call, no new object)."""
        p = self.p
        asym = self.cls in ("rsapriv", "rsapub", "privkey", "pubkey")
        zero16 = bytes(16)
        clean = True
        if f in ("EncryptInit", "DecryptInit"):
            kind = "Encrypt" if f == "EncryptInit" else "Decrypt"
            mech = Mech(K.CKM_RSA_PKCS) if asym else Mech(K.CKM_AES_ECB)
            rv = p.op_init(kind, h, mech, g)
            data = zero16 if not (asym and kind == "Decrypt") else bytes(128)
            r = p.op_io(kind, h, data, 256)
            if rv != 0 and r["rv"] == 0:
                clean = False
            return rv, clean and r["guard"]
        if f == "SignInit":
            mech = Mech(K.CKM_RSA_PKCS) if asym else Mech(K.CKM_AES_CMAC)
            rv = p.op_init("Sign", h, mech, g)
            r = p.op_io("Sign", h, b"verif-data-12345", 256)
            if rv != 0 and r["rv"] == 0:
                clean = False
            return rv, clean and r["guard"]
        if f == "VerifyInit":
            mech = Mech(K.CKM_RSA_PKCS) if asym else Mech(K.CKM_AES_CMAC)
            rv = p.op_init("Verify", h, mech, g)
            r2 = p.verify(h, b"verif-data-12345", bytes(128 if asym else 16))
            if rv != 0 and r2 == 0:
                clean = False
            return rv, clean
        if f == "DigestKey":
            rv0 = p.op_init("Digest", h, Mech(K.CKM_SHA256))
            rv = p.digest_key(h, g)
            r = p.op_final("DigestFinal", h, 64)       # also closes the digest operation
            if rv0 != 0:
                return rv0 if rv == 0 else rv, True
            return rv, True
        if f == "WrapWith":
            tmp = self.temp_key(h)
            mech = Mech(K.CKM_RSA_PKCS) if asym else Mech(K.CKM_AES_KEY_WRAP)
            rv, blob, n = p.wrap_key(h, mech, g, tmp, bufsize=512)
            self.drop(h, tmp)
            return rv, not (rv != 0 and blob)
        if f == "WrapIt":
            tmp = self.temp_key(h)
            mech = Mech(K.CKM_AES_KEY_WRAP_PAD) if asym else Mech(K.CKM_AES_KEY_WRAP)
            rv, blob, n = p.wrap_key(h, mech, tmp, g, bufsize=2048)
            self.drop(h, tmp)
            if rv == K.CKR_WRAPPING_KEY_HANDLE_INVALID and tmp == 0:
                rv = K.CKR_SESSION_HANDLE_INVALID
            return rv, not (rv != 0 and blob)
        tmpl = [(K.CKA_CLASS, K.CKO_SECRET_KEY), (K.CKA_KEY_TYPE, K.CKK_GENERIC_SECRET), (K.CKA_TOKEN, False),
                (K.CKA_PRIVATE, False), (K.CKA_EXTRACTABLE, True), (K.CKA_SENSITIVE, False)]
        if f == "UnwrapWith":
            tmp = self.temp_key(h)
            blob = bytes(self.rng.randrange(256) for _ in range(128 if asym else 24))
            if not asym:
                rvw, b2, n = p.wrap_key(h, Mech(K.CKM_AES_KEY_WRAP), g, tmp, bufsize=64)
                if rvw == 0 and b2:
                    blob = b2
            self.drop(h, tmp)
            mech = Mech(K.CKM_RSA_PKCS) if asym else Mech(K.CKM_AES_KEY_WRAP)
            rv, ng = p.unwrap_key(h, mech, g, blob, tmpl)
            if rv == 0:
                self.drop(h, ng)
            return rv, not (rv != 0 and ng)
        if f == "DeriveFrom":
            mech = Mech(K.CKM_AES_ECB_ENCRYPT_DATA, keyderiv_string(bytes(range(16))))
            rv, ng = p.derive_key(h, mech, g, tmpl + [(K.CKA_VALUE_LEN, 16)])
            if rv == 0:
                self.drop(h, ng)
            return rv, not (rv != 0 and ng)
        raise ValueError(f)

    def make(self, h, how, o, tokobj, private, lab, bad=False):
        p = self.p
        ident = [(K.CKA_TOKEN, bool(tokobj)), (K.CKA_PRIVATE, bool(private)), (K.CKA_LABEL, self.labbytes(lab)),
                 (K.CKA_ID, self.tagbytes(o))]
        if bad:
            # an attribute the key class does not have: refused only when the object is built from the template
            ident = ident + [(K.CKA_MODULUS_BITS, 1024)]
        if how == "generate":
            return p.generate_key(h, Mech(K.CKM_AES_KEY_GEN), ident + [(K.CKA_VALUE_LEN, 16), (K.CKA_ENCRYPT, True)])
        if how == "unwrap":
            k = self.temp_key(h)
            x = self.temp_key(h)
            rvw, blob, n = p.wrap_key(h, Mech(K.CKM_AES_KEY_WRAP), k, x, bufsize=64)
            rv, g = p.unwrap_key(h, Mech(K.CKM_AES_KEY_WRAP), k, blob or bytes(24),
                                 [(K.CKA_CLASS, K.CKO_SECRET_KEY), (K.CKA_KEY_TYPE, K.CKK_AES)] + ident)
            self.drop(h, k)
            self.drop(h, x)
            if rv == K.CKR_UNWRAPPING_KEY_HANDLE_INVALID and k == 0:
                rv = K.CKR_SESSION_HANDLE_INVALID
            return rv, g
        if how == "derive":
            b = self.temp_key(h)
            mech = Mech(K.CKM_AES_ECB_ENCRYPT_DATA, keyderiv_string(bytes(range(16))))
            rv, g = p.derive_key(h, mech, b, [(K.CKA_CLASS, K.CKO_SECRET_KEY), (K.CKA_KEY_TYPE, K.CKK_GENERIC_SECRET),
                                              (K.CKA_VALUE_LEN, 16)] + ident)
            self.drop(h, b)
            if rv == K.CKR_KEY_HANDLE_INVALID and b == 0:
                rv = K.CKR_SESSION_HANDLE_INVALID
            return rv, g
        raise ValueError(how)

    P256 = bytes.fromhex("06082a8648ce3d030107")

    def make_pair(self, h, o, o2, tokobj, private, lab):
        common = [(K.CKA_TOKEN, bool(tokobj)), (K.CKA_PRIVATE, bool(private)), (K.CKA_LABEL, self.labbytes(lab))]
        pub = common + [(K.CKA_ID, self.tagbytes(o)), (K.CKA_EC_PARAMS, self.P256), (K.CKA_VERIFY, True)]
        priv = common + [(K.CKA_ID, self.tagbytes(o2)), (K.CKA_SIGN, True)]
        return self.p.generate_key_pair(h, Mech(K.CKM_EC_KEY_PAIR_GEN), pub, priv)

    def identify(self, h, hs):
        out = []
        for g in hs:
            rv, d = self.p.get_attrs(h, g, [self.tag_attr()])
            out.append([g, self.untag(d[self.tag_attr()]) if rv == 0 and d.get(self.tag_attr()) is not None else 0])
        return out

    def adopt(self, found):
        """New handle values seen in a search result get model numbers in ascending object-id order
        (the numbering rule of MC_Core.FreshFor)."""
        known = set(self.obj_issued)
        new = sorted([(o, g) for g, o in found if g not in known])
        for o, g in new:
            if g not in known:
                self.issue(g, "o")
                known.add(g)


def main():
    lib, bfile, out, workdir, seed, cls = sys.argv[1:7]
    backend = sys.argv[7] if len(sys.argv) > 7 else "file"
    behaviours = json.load(open(bfile))
    d = CoreDriver(lib, workdir, int(seed), cls, backend)
    em = Emitter(out)
    for i, beh in enumerate(behaviours):
        d.begin()
        em.emit({"e": "Reset", "b": i})
        for label in beh:
            em.emit(d.step(label))
        em.flush()
    d.shutdown()
    em.close()


if __name__ == "__main__":
    from .harness import run_main
    run_main(main)
