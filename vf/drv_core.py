"""Driver for the behaviours of MC_Core: executes TLC-generated action sequences on the real library and
records, after every call, the return value, the outputs and the projection of the implementation state
(every session handle ever issued -> CKS_* state or invalid; every object handle ever issued -> valid or
invalid, and the identity/label read through it).  No expected value lives here: the oracle is
Trace_Core.tla evaluated by TLC on the recorded events.

usage: python3 -m vf.drv_core <lib> <behaviours.json> <out.ndjson> <workdir> <seed> <class> [backend]
"""
import json
import sys

from . import p11const as K
from .harness import Harness, Emitter
from .p11 import rvname, statename
from .tlaval import parse_call

USER = {"user": K.CKU_USER, "so": K.CKU_SO, "ctx": K.CKU_CONTEXT_SPECIFIC, "bad": 77}
BOGUS = 0x7fff0000


class CoreDriver(Harness):
    def __init__(self, libpath, workdir, seed, cls, backend="file"):
        Harness.__init__(self, libpath, workdir, seed, backend)
        self.cls = cls
        self.key_material = {}

    # ---------------- object templates per concrete class
    def tag_attr(self):
        return K.CKA_APPLICATION if self.cls == "data" else K.CKA_ID

    def tagbytes(self, o):
        return ("o%d" % o).encode()

    def labbytes(self, lab):
        return ("lab-" + lab).encode()

    def create_template(self, o, tokobj, private, lab):
        c = self.cls
        base = [(K.CKA_TOKEN, bool(tokobj)), (K.CKA_PRIVATE, bool(private)), (K.CKA_LABEL, self.labbytes(lab)),
                (self.tag_attr(), self.tagbytes(o))]
        r = self.rng
        if c == "data":
            return [(K.CKA_CLASS, K.CKO_DATA)] + base + [(K.CKA_VALUE, bytes(r.randrange(256) for _ in range(20)))]
        if c == "secret":
            return [(K.CKA_CLASS, K.CKO_SECRET_KEY), (K.CKA_KEY_TYPE, K.CKK_GENERIC_SECRET)] + base + \
                   [(K.CKA_VALUE, bytes(r.randrange(256) for _ in range(24))), (K.CKA_SENSITIVE, False),
                    (K.CKA_EXTRACTABLE, True)]
        if c == "aes":
            return [(K.CKA_CLASS, K.CKO_SECRET_KEY), (K.CKA_KEY_TYPE, K.CKK_AES)] + base + \
                   [(K.CKA_VALUE, bytes(r.randrange(256) for _ in range(16))), (K.CKA_ENCRYPT, True),
                    (K.CKA_DECRYPT, True)]
        if c == "cert":
            return [(K.CKA_CLASS, K.CKO_CERTIFICATE), (K.CKA_CERTIFICATE_TYPE, K.CKC_X_509)] + base + \
                   [(K.CKA_SUBJECT, b"\x30\x0b\x31\x09\x30\x07\x06\x03\x55\x04\x03\x0c\x00"),
                    (K.CKA_VALUE, bytes(r.randrange(256) for _ in range(40)))]
        if c == "pubkey":
            return [(K.CKA_CLASS, K.CKO_PUBLIC_KEY), (K.CKA_KEY_TYPE, K.CKK_RSA)] + base + \
                   [(K.CKA_MODULUS, bytes([0xc1] + [r.randrange(256) for _ in range(63)])),
                    (K.CKA_PUBLIC_EXPONENT, b"\x01\x00\x01"), (K.CKA_VERIFY, True)]
        if c == "privkey":
            def rb(n):
                return bytes([0xc1] + [r.randrange(256) for _ in range(n - 1)])
            return [(K.CKA_CLASS, K.CKO_PRIVATE_KEY), (K.CKA_KEY_TYPE, K.CKK_RSA)] + base + \
                   [(K.CKA_MODULUS, rb(64)), (K.CKA_PUBLIC_EXPONENT, b"\x01\x00\x01"),
                    (K.CKA_PRIVATE_EXPONENT, rb(64)), (K.CKA_PRIME_1, rb(32)), (K.CKA_PRIME_2, rb(32)),
                    (K.CKA_EXPONENT_1, rb(32)), (K.CKA_EXPONENT_2, rb(32)), (K.CKA_COEFFICIENT, rb(32)),
                    (K.CKA_SIGN, True)]
        raise ValueError(c)

    # ---------------- per execution state
    def begin(self):
        self.setup_tokens("P1", "P2")
        self.m2r = {}          # model handle number -> real handle
        self.nissued = 0       # handles issued so far in this execution (mirrors MC's NextH rule)
        self.sess_issued = []  # real session handles, in issue order
        self.obj_issued = []   # real object handles, in issue order
        self.slot_of_sess = {}
        self.next_o = 0

    def issue(self, real, kind, t=None):
        self.nissued += 1
        self.m2r[self.nissued] = real
        if kind == "s":
            self.sess_issued.append(real)
            self.slot_of_sess[real] = t
        else:
            self.obj_issued.append(real)

    def real(self, mh):
        if mh == 0:
            return BOGUS
        return self.m2r.get(mh, BOGUS + mh)

    # ---------------- projection
    def project(self, want_obj=True):
        p = self.p
        ss = []
        valid = []
        for h in self.sess_issued:
            rv, info = p.session_info(h)
            if rv == 0:
                ss.append([h, statename(info["state"])])
                valid.append(h)
            elif rv == K.CKR_SESSION_HANDLE_INVALID:
                ss.append([h, "INVALID"])
            else:
                ss.append([h, "ERR_" + rvname(rv)])
        oo = []
        if want_obj:
            for g in self.obj_issued:
                if not valid:
                    oo.append([g, "UNPROBED", 0, ""])
                    continue
                st = None
                tag, lab = 0, ""
                for s in valid:
                    rv, _ = p.object_size(s, g)
                    if rv == 0:
                        st = "OK"
                        break
                    st = "INVALID" if rv == K.CKR_OBJECT_HANDLE_INVALID else "ERR_" + rvname(rv)
                if st == "OK":
                    for s in valid:
                        rv, d = p.get_attrs(s, g, [self.tag_attr(), K.CKA_LABEL])
                        if rv == 0 and d.get(self.tag_attr()) is not None:
                            tag, lab = self.untag(d[self.tag_attr()]), self.unlab(d.get(K.CKA_LABEL))
                            break
                oo.append([g, st, tag, lab])
        return ss, oo

    def untag(self, b):
        try:
            s = b.decode()
            return int(s[1:]) if s.startswith("o") else -1
        except Exception:
            return -1

    def unlab(self, b):
        try:
            s = (b or b"").decode()
            return s[4:] if s.startswith("lab-") else "?" + s
        except Exception:
            return "?"

    # ---------------- actions
    def step(self, label):
        if isinstance(label, (list, tuple)):
            name, a = label[0], list(label[1:])
        else:
            name, a = parse_call(label)
        p = self.p
        ev = {"e": name}
        if name == "MOpen":
            t, rw = a
            rv, h = p.open_session(self.slot[t], rw)
            ev.update(t=t, rw=rw, nh=h if rv == 0 else 0)
            if rv == 0:
                self.issue(h, "s", t)
        elif name == "MClose":
            h = self.real(a[0])
            rv = p.close_session(h)
            ev.update(h=h)
        elif name == "MCloseAll":
            rv = p.close_all(self.slot[a[0]])
            ev.update(t=a[0])
        elif name == "MInfo":
            h = self.real(a[0])
            rv, info = p.session_info(h)
            ev.update(h=h, st=statename(info["state"]) if rv == 0 else "")
        elif name == "MLogin":
            h = self.real(a[0])
            rv = p.login(h, USER[a[1]], self.pin(a[2]))
            ev.update(h=h, u=a[1], pin=a[2])
        elif name == "MLogout":
            h = self.real(a[0])
            rv = p.logout(h)
            ev.update(h=h)
        elif name == "MInitToken":
            t, pin = a
            rv = p.init_token(self.slot[t], self.pin(pin), self.label_of(t))
            ev.update(t=t, pin=pin)
        elif name == "MInitPIN":
            h = self.real(a[0])
            rv = p.init_pin(h, self.pin(a[1]))
            ev.update(h=h, pin=a[1])
        elif name == "MSetPIN":
            h = self.real(a[0])
            rv = p.set_pin(h, self.pin(a[1]), self.pin(a[2]))
            ev.update(h=h, old=a[1], new=a[2])
        elif name == "MCreate":
            h = self.real(a[0])
            self.next_o += 1
            o = self.next_o
            rv, g = p.create_object(h, self.create_template(o, a[1], a[2], a[3]))
            ev.update(h=h, o=o, tokobj=a[1], priv=a[2], lab=a[3], nh=g if rv == 0 else 0)
            if rv == 0:
                self.issue(g, "o")
        elif name == "MCopy":
            h, g = self.real(a[0]), self.real(a[1])
            self.next_o += 1
            o = self.next_o
            rv, ng = p.copy_object(h, g, [(K.CKA_TOKEN, bool(a[2])), (K.CKA_PRIVATE, bool(a[3])),
                                          (self.tag_attr(), self.tagbytes(o))])
            ev.update(h=h, g=g, o=o, tokobj=a[2], priv=a[3], nh=ng if rv == 0 else 0)
            if rv == 0:
                self.issue(ng, "o")
        elif name == "MDestroy":
            h, g = self.real(a[0]), self.real(a[1])
            rv = p.destroy_object(h, g)
            ev.update(h=h, g=g)
        elif name == "MGetAttr":
            h, g = self.real(a[0]), self.real(a[1])
            rv, raw = p.get_attrs_raw(h, g, [self.tag_attr(), K.CKA_LABEL], [64, 64])
            tag, lab, clean = 0, "", True
            if rv == 0:
                tag = self.untag(raw[0][1][:raw[0][0]])
                lab = self.unlab(raw[1][1][:raw[1][0]])
            else:
                # "yields nothing": the canary-filled buffers must be untouched
                clean = all(r[1] == bytes([0xA5]) * 64 and r[2] for r in raw)
            ev.update(h=h, g=g, tag=tag, lab=lab, clean=clean)
        elif name == "MSetAttr":
            h, g = self.real(a[0]), self.real(a[1])
            rv = p.set_attrs(h, g, [(K.CKA_LABEL, self.labbytes(a[2]))])
            ev.update(h=h, g=g, lab=a[2])
        elif name == "MSize":
            h, g = self.real(a[0]), self.real(a[1])
            rv, n = p.object_size(h, g)
            ev.update(h=h, g=g)
        elif name in ("MFindAll", "MFindInit"):
            h = self.real(a[0])
            tmpl = [] if a[1] == "any" else [(K.CKA_LABEL, self.labbytes(a[1]))]
            if name == "MFindAll":
                rv, hs = p.find(h, tmpl, batch=3)
                found = self.identify(h, hs)
                ev.update(h=h, tmpl=a[1], found=found)
                self.adopt(found)
            else:
                rv = p.find_init(h, tmpl)
                ev.update(h=h, tmpl=a[1])
        elif name == "MFind":
            h = self.real(a[0])
            rv, hs, n = p.find_next(h, a[1])
            found = self.identify(h, hs) if rv == 0 else []
            ev.update(h=h, n=a[1], found=found, cnt=n if rv == 0 else 0)
            self.adopt(found)
        elif name == "MFindFinal":
            h = self.real(a[0])
            rv = p.find_final(h)
            ev.update(h=h)
        else:
            raise ValueError("unknown action " + label)
        ev["rv"] = rvname(rv)
        ss, oo = self.project()
        ev["ss"] = ss
        ev["oo"] = oo
        return ev

    def identify(self, h, hs):
        out = []
        for g in hs:
            rv, d = self.p.get_attrs(h, g, [self.tag_attr()])
            out.append([g, self.untag(d[self.tag_attr()]) if rv == 0 and d.get(self.tag_attr()) is not None else 0])
        return out

    def adopt(self, found):
        """New handle values seen in a search result get model numbers in ascending object-id order
        (the numbering rule of MC_Core.FreshFor)."""
        known = set(self.obj_issued)
        new = sorted([(o, g) for g, o in found if g not in known])
        for o, g in new:
            if g not in known:
                self.issue(g, "o")
                known.add(g)


def main():
    lib, bfile, out, workdir, seed, cls = sys.argv[1:7]
    backend = sys.argv[7] if len(sys.argv) > 7 else "file"
    behaviours = json.load(open(bfile))
    d = CoreDriver(lib, workdir, int(seed), cls, backend)
    em = Emitter(out)
    for i, beh in enumerate(behaviours):
        d.begin()
        em.emit({"e": "Reset", "b": i})
        for label in beh:
            em.emit(d.step(label))
        em.flush()
    d.shutdown()
    em.close()


if __name__ == "__main__":
    main()
