"""Parser for TLA+ values as printed by TLC (in dot edge labels, PrintT output and error traces).

ints -> int, strings -> str, TRUE/FALSE -> bool, {..} -> frozenset, <<..>> -> tuple,
[a |-> v, ...] -> dict, (k :> v @@ ...) -> dict, bare identifiers (model values) -> str.
"""


class ParseError(Exception):
    pass


def parse(s):
    v, i = _val(s, _ws(s, 0))
    i = _ws(s, i)
    if i != len(s):
        raise ParseError("trailing input at %d in %r" % (i, s[:200]))
    return v


def parse_call(label):
    """'MLogin(1,"user","P1")' -> ('MLogin', [1, 'user', 'P1']);  'Foo' -> ('Foo', [])"""
    label = label.strip()
    k = label.find("(")
    if k < 0:
        return label, []
    name = label[:k]
    if not label.endswith(")"):
        raise ParseError("bad call " + label)
    inner = label[k + 1:-1]
    args = []
    i = _ws(inner, 0)
    while i < len(inner):
        v, i = _val(inner, i)
        args.append(v)
        i = _ws(inner, i)
        if i < len(inner):
            if inner[i] != ",":
                raise ParseError("expected , at %d in %r" % (i, inner))
            i = _ws(inner, i + 1)
    return name, args


def _ws(s, i):
    while i < len(s) and s[i] in " \t\r\n":
        i += 1
    return i


def _val(s, i):
    c = s[i]
    if c == '"':
        j = i + 1
        out = []
        while s[j] != '"':
            if s[j] == "\\":
                j += 1
                out.append({"n": "\n", "t": "\t"}.get(s[j], s[j]))
            else:
                out.append(s[j])
            j += 1
        return "".join(out), j + 1
    if c.isdigit() or (c == "-" and s[i + 1].isdigit()):
        j = i + 1
        while j < len(s) and s[j].isdigit():
            j += 1
        return int(s[i:j]), j
    if s.startswith("<<", i):
        items, j = _seq(s, i + 2, ">>")
        return tuple(items), j
    if c == "{":
        items, j = _seq(s, i + 1, "}")
        return frozenset(_freeze(x) for x in items), j
    if c == "[":
        d = {}
        j = _ws(s, i + 1)
        if s[j] == "]":
            return d, j + 1
        while True:
            k = j
            while s[j] not in " |":
                j += 1
            key = s[k:j]
            j = _ws(s, j)
            if not s.startswith("|->", j):
                raise ParseError("expected |-> at %d" % j)
            v, j = _val(s, _ws(s, j + 3))
            d[key] = v
            j = _ws(s, j)
            if s[j] == ",":
                j = _ws(s, j + 1)
                continue
            if s[j] == "]":
                return d, j + 1
            raise ParseError("bad record at %d" % j)
    if c == "(":
        d = {}
        j = _ws(s, i + 1)
        while True:
            k, j = _val(s, j)
            j = _ws(s, j)
            if not s.startswith(":>", j):
                raise ParseError("expected :> at %d" % j)
            v, j = _val(s, _ws(s, j + 2))
            d[_freeze(k)] = v
            j = _ws(s, j)
            if s.startswith("@@", j):
                j = _ws(s, j + 2)
                continue
            if s[j] == ")":
                return d, j + 1
            raise ParseError("bad function at %d" % j)
    # identifier / TRUE / FALSE
    j = i
    while j < len(s) and (s[j].isalnum() or s[j] in "_"):
        j += 1
    if j == i:
        raise ParseError("unexpected %r at %d in %r" % (c, i, s[:200]))
    w = s[i:j]
    if w == "TRUE":
        return True, j
    if w == "FALSE":
        return False, j
    return w, j


def _seq(s, i, close):
    items = []
    i = _ws(s, i)
    if s.startswith(close, i):
        return items, i + len(close)
    while True:
        v, i = _val(s, i)
        items.append(v)
        i = _ws(s, i)
        if s[i] == ",":
            i = _ws(s, i + 1)
            continue
        if s.startswith(close, i):
            return items, i + len(close)
        raise ParseError("bad sequence at %d in %r" % (i, s[:200]))


def _freeze(x):
    if isinstance(x, dict):
        return tuple(sorted((k, _freeze(v)) for k, v in x.items()))
    if isinstance(x, (list, tuple)):
        return tuple(_freeze(v) for v in x)
    if isinstance(x, (set, frozenset)):
        return frozenset(_freeze(v) for v in x)
    return x
