"""Common part of the python drivers: scratch token directory, configuration file, library life cycle,
token set-up, PIN concretisation and the ndjson event writer.

A driver is a separate process (a crash or exit() inside the library kills only that process); it appends
{"e":"ProcessDied"} through atexit when it ends without having been closed properly - no trace
specification has an action for that event, so such a trace is rejected.
"""
import atexit
import json
import os
import random
import shutil
import sys

from . import p11const as K
from .p11 import P11, rvname, statename


DRIVER_ERROR = [None]


def run_main(fn):
    """Runs a driver's main(); a python exception in the DRIVER is a failure of the machinery (exit 3, DriverError
    event), never a verdict about the library.  A process that ends any other way without closing its trace
    (exit() or a crash inside the library) leaves the trace unterminated; the pipeline appends ProcessDied."""
    import traceback
    try:
        fn()
    except SystemExit:
        raise
    except BaseException:
        DRIVER_ERROR[0] = traceback.format_exc()[-1500:]
        sys.stderr.write(DRIVER_ERROR[0])
        sys.exit(3)


class Emitter(object):
    def __init__(self, path):
        self.f = open(path, "w")
        self.n = 0
        self.closed = False
        atexit.register(self._died)

    def emit(self, ev):
        self.f.write(json.dumps(ev, separators=(",", ":")) + "\n")
        self.n += 1

    def flush(self):
        self.f.flush()

    def close(self):
        self.closed = True
        self.f.close()

    def _died(self):
        if not self.closed:
            try:
                self.f.write('{"e":"DriverError","msg":%s}\n' % json.dumps(DRIVER_ERROR[0]) if DRIVER_ERROR[0]
                             else '{"e":"ProcessDied"}\n')
                self.f.close()
            except Exception:
                pass


class Harness(object):
    def __init__(self, libpath, workdir, seed=0, backend="file", conf_extra="", tokens=("t1", "t2")):
        self.workdir = workdir
        self.tokdir = os.path.join(workdir, "tokens")
        self.conf = os.path.join(workdir, "softhsm2.conf")
        self.backend = backend
        self.conf_extra = conf_extra
        self.seed = seed
        self.rng = random.Random(seed)
        self.tokens = list(tokens)
        self.write_conf()
        os.environ["SOFTHSM2_CONF"] = self.conf
        self.p = P11(libpath)
        self.up = False
        self.slot = {}
        self.pinbytes = {}
        self.new_pins()

    def write_conf(self, extra=None):
        with open(self.conf, "w") as f:
            f.write("directories.tokendir = %s\nobjectstore.backend = %s\nlog.level = ERROR\nslots.removable = false\n"
                    "slots.mechanisms = ALL\nlibrary.reset_on_fork = false\n%s\n"
                    % (self.tokdir, self.backend, extra if extra is not None else self.conf_extra))

    # ---- PIN symbols -> bytes
    def new_pins(self):
        r = self.rng

        def rnd(n):
            return bytes(r.randrange(1, 256) for _ in range(n))
        base = {}
        for name in ("P1", "P2", "P3", "P4"):
            while True:
                b = rnd(r.choice([4, 5, 8, 16, 31, 64, 255]))
                if b not in base.values():
                    break
            base[name] = b
        base["short"] = rnd(3)
        base["long"] = rnd(256)
        base["empty"] = b""
        self.pinbytes = base

    def pin(self, sym):
        return self.pinbytes[sym]

    # ---- life cycle
    def wipe(self):
        if self.up:
            self.p.finalize()
            self.up = False
        shutil.rmtree(self.tokdir, ignore_errors=True)
        os.makedirs(self.tokdir)

    def start(self):
        rv = self.p.initialize()
        if rv != 0:
            raise RuntimeError("C_Initialize failed: " + rvname(rv))
        self.up = True

    def restart(self):
        if self.up:
            self.p.finalize()
        self.up = False
        self.start()
        self.map_slots()

    def label_of(self, t):
        return ("tok-" + t).encode()

    def map_slots(self):
        rv, slots = self.p.slot_list(True)
        self.slot = {}
        self.free_slot = None
        for s in slots:
            rv, ti = self.p.token_info(s)
            if rv:
                continue
            if not (ti["flags"] & K.CKF_TOKEN_INITIALIZED):
                self.free_slot = s
                continue
            lab = ti["label"].rstrip(b" ")
            for t in self.tokens:
                if lab == self.label_of(t):
                    self.slot[t] = s

    def setup_tokens(self, so="P1", user="P2"):
        """Fresh token directory with the tokens initialised (SO PIN `so`, user PIN `user` or None), then the
        library is re-initialised so that handle numbering and all in-memory state start afresh."""
        self.wipe()
        self.start()
        self.serial_dir = {}
        for t in self.tokens:
            self.map_slots()
            before = set(os.listdir(self.tokdir))
            rv = self.p.init_token(self.free_slot, self.pin(so), self.label_of(t))
            if rv:
                raise RuntimeError("set-up C_InitToken: " + rvname(rv))
            new = sorted(set(os.listdir(self.tokdir)) - before)
            if len(new) == 1:
                self.serial_dir[t] = new[0]          # the directory of this token (for faults injected from outside)
            if user is not None:
                self.map_slots()
                rv, s = self.p.open_session(self.slot[t], True)
                rv = rv or self.p.login(s, K.CKU_SO, self.pin(so))
                rv = rv or self.p.init_pin(s, self.pin(user))
                rv = rv or self.p.close_session(s)
                if rv:
                    raise RuntimeError("set-up user PIN: " + rvname(rv))
        self.restart()
        missing = [t for t in self.tokens if t not in self.slot]
        if missing:
            raise RuntimeError("set-up: tokens not found after restart: %r" % missing)

    def shutdown(self):
        if self.up:
            self.p.finalize()
            self.up = False


def hexs(b):
    return b.hex() if b is not None else None
