"""Independent reference for the value-level checks (C10, C13, C20).  Block cipher primitives come from libcrypto's
EVP interface through ctypes (single-block ECB only; every mode, padding, key wrap, CMAC, GCM-free construction above
it is written out here from the standards), digests and HMAC from hashlib / hmac, RSA and ECDSA from python integers.
Nothing in here calls SoftHSM.
"""
import ctypes as C
import hashlib
import hmac as _hmac

_crypto = None


def _lib():
    global _crypto
    if _crypto is None:
        L = C.CDLL("libcrypto.so.3")
        L.EVP_CIPHER_CTX_new.restype = C.c_void_p
        L.EVP_get_cipherbyname.restype = C.c_void_p
        L.EVP_get_cipherbyname.argtypes = [C.c_char_p]
        L.EVP_CipherInit_ex.argtypes = [C.c_void_p, C.c_void_p, C.c_void_p, C.c_char_p, C.c_char_p, C.c_int]
        L.EVP_CipherUpdate.argtypes = [C.c_void_p, C.c_char_p, C.POINTER(C.c_int), C.c_char_p, C.c_int]
        L.EVP_CipherFinal_ex.argtypes = [C.c_void_p, C.c_char_p, C.POINTER(C.c_int)]
        L.EVP_CIPHER_CTX_set_padding.argtypes = [C.c_void_p, C.c_int]
        L.EVP_CIPHER_CTX_ctrl.argtypes = [C.c_void_p, C.c_int, C.c_int, C.c_void_p]
        L.EVP_CIPHER_CTX_free.argtypes = [C.c_void_p]
        _crypto = L
    return _crypto


def _evp(name, key, iv, data, enc, pad=False, gcm=None):
    L = _lib()
    ciph = L.EVP_get_cipherbyname(name.encode())
    if not ciph:
        raise ValueError("no cipher " + name)
    ctx = L.EVP_CIPHER_CTX_new()
    try:
        if gcm is not None:
            assert L.EVP_CipherInit_ex(ctx, ciph, None, None, None, 1 if enc else 0) == 1
            assert L.EVP_CIPHER_CTX_ctrl(ctx, 0x9, len(iv), None) == 1
            assert L.EVP_CipherInit_ex(ctx, None, None, key, iv, 1 if enc else 0) == 1
        else:
            assert L.EVP_CipherInit_ex(ctx, ciph, None, key, iv, 1 if enc else 0) == 1
        L.EVP_CIPHER_CTX_set_padding(ctx, 1 if pad else 0)
        n = C.c_int(0)
        if gcm is not None and gcm.get("aad"):
            assert L.EVP_CipherUpdate(ctx, None, C.byref(n), gcm["aad"], len(gcm["aad"])) == 1
        out = C.create_string_buffer(len(data) + 64)
        if L.EVP_CipherUpdate(ctx, out, C.byref(n), data, len(data)) != 1:
            return None
        res = out.raw[:n.value]
        if gcm is not None and not enc:
            tag = C.create_string_buffer(gcm["tag"])
            assert L.EVP_CIPHER_CTX_ctrl(ctx, 0x11, len(gcm["tag"]), tag) == 1
        fin = C.create_string_buffer(64)
        if L.EVP_CipherFinal_ex(ctx, fin, C.byref(n)) != 1:
            return None
        res += fin.raw[:n.value]
        if gcm is not None and enc:
            tag = C.create_string_buffer(16)
            assert L.EVP_CIPHER_CTX_ctrl(ctx, 0x10, 16, tag) == 1
            res += tag.raw[:gcm["taglen"]]
        return res
    finally:
        L.EVP_CIPHER_CTX_free(ctx)


def _alg(kind, key):
    if kind == "aes":
        return "aes-%d-ecb" % (len(key) * 8), 16
    if kind == "des3":
        return ("des-ede3-ecb" if len(key) == 24 else "des-ede-ecb"), 8
    if kind == "des":
        return "des-ecb", 8
    raise ValueError(kind)


def block_enc(kind, key, block):
    name, bs = _alg(kind, key)
    assert len(block) == bs
    return _evp(name, key, None, block, True)


def block_dec(kind, key, block):
    name, bs = _alg(kind, key)
    return _evp(name, key, None, block, False)


def _xor(a, b):
    return bytes(x ^ y for x, y in zip(a, b))


def ecb(kind, key, data, enc=True):
    bs = _alg(kind, key)[1]
    if len(data) % bs:
        return None
    f = block_enc if enc else block_dec
    return b"".join(f(kind, key, data[i:i + bs]) for i in range(0, len(data), bs))


def pkcs7_pad(data, bs):
    n = bs - len(data) % bs
    return data + bytes([n]) * n


def pkcs7_unpad(data, bs):
    if not data or len(data) % bs:
        return None
    n = data[-1]
    if n < 1 or n > bs or data[-n:] != bytes([n]) * n:
        return None
    return data[:-n]


def cbc(kind, key, iv, data, enc=True, pad=False):
    bs = _alg(kind, key)[1]
    if enc:
        if pad:
            data = pkcs7_pad(data, bs)
        if len(data) % bs:
            return None
        out, prev = [], iv
        for i in range(0, len(data), bs):
            prev = block_enc(kind, key, _xor(data[i:i + bs], prev))
            out.append(prev)
        return b"".join(out)
    if len(data) % bs:
        return None
    out, prev = [], iv
    for i in range(0, len(data), bs):
        out.append(_xor(block_dec(kind, key, data[i:i + bs]), prev))
        prev = data[i:i + bs]
    res = b"".join(out)
    return pkcs7_unpad(res, bs) if pad else res


def ctr(key, counter_block, bits, data):
    """AES-CTR with a `bits`-wide big-endian counter in the low bits of the 16-byte block"""
    out = []
    cb = int.from_bytes(counter_block, "big")
    mask = (1 << bits) - 1
    for i in range(0, len(data), 16):
        ks = block_enc("aes", key, cb.to_bytes(16, "big"))
        out.append(_xor(data[i:i + 16], ks))
        cb = (cb & ~mask) | ((cb + 1) & mask)
    return b"".join(out)


def gcm_encrypt(key, iv, aad, data, taglen):
    return _evp("aes-%d-gcm" % (len(key) * 8), key, iv, data, True, gcm=dict(aad=aad, taglen=taglen))


def gcm_decrypt(key, iv, aad, data, taglen):
    if len(data) < taglen:
        return None
    return _evp("aes-%d-gcm" % (len(key) * 8), key, iv, data[:-taglen], False, gcm=dict(aad=aad, tag=data[-taglen:]))


def _dbl(b, rb):
    n = int.from_bytes(b, "big") << 1
    if n >> (8 * len(b)):
        n = (n & ((1 << (8 * len(b))) - 1)) ^ rb
    return n.to_bytes(len(b), "big")


def cmac(kind, key, data):
    """RFC 4493 / SP 800-38B"""
    bs = _alg(kind, key)[1]
    rb = 0x87 if bs == 16 else 0x1B
    k1 = _dbl(block_enc(kind, key, bytes(bs)), rb)
    k2 = _dbl(k1, rb)
    n = max(1, (len(data) + bs - 1) // bs)
    last = data[(n - 1) * bs:]
    if len(last) == bs:
        last = _xor(last, k1)
    else:
        last = _xor(last + b"\x80" + bytes(bs - len(last) - 1), k2)
    x = bytes(bs)
    for i in range(n - 1):
        x = block_enc(kind, key, _xor(x, data[i * bs:(i + 1) * bs]))
    return block_enc(kind, key, _xor(x, last))


def hmac(hname, key, data):
    return _hmac.new(key, data, hname).digest()


def digest(hname, data):
    return hashlib.new(hname, data).digest()


# ---- RFC 3394 / RFC 5649 key wrap, written out over the single-block primitive
def _wrap_core(kek, a, r):
    n = len(r)
    for j in range(6):
        for i in range(n):
            b = block_enc("aes", kek, a + r[i])
            t = n * j + i + 1
            a = _xor(b[:8], t.to_bytes(8, "big"))
            r[i] = b[8:]
    return a + b"".join(r)


def _unwrap_core(kek, c):
    n = len(c) // 8 - 1
    a = c[:8]
    r = [c[8 * (i + 1):8 * (i + 2)] for i in range(n)]
    for j in range(5, -1, -1):
        for i in range(n - 1, -1, -1):
            t = n * j + i + 1
            b = block_dec("aes", kek, _xor(a, t.to_bytes(8, "big")) + r[i])
            a = b[:8]
            r[i] = b[8:]
    return a, b"".join(r)


def keywrap(kek, data):
    if len(data) % 8 or len(data) < 16:
        return None
    return _wrap_core(kek, b"\xa6" * 8, [data[i:i + 8] for i in range(0, len(data), 8)])


def keyunwrap(kek, c):
    if len(c) % 8 or len(c) < 24:
        return None
    a, p = _unwrap_core(kek, c)
    return p if a == b"\xa6" * 8 else None


def keywrap_pad(kek, data):
    if not data:
        return None
    aiv = b"\xa6\x59\x59\xa6" + len(data).to_bytes(4, "big")
    p = data + bytes(-len(data) % 8)
    if len(p) == 8:
        return block_enc("aes", kek, aiv + p)
    return _wrap_core(kek, aiv, [p[i:i + 8] for i in range(0, len(p), 8)])


def keyunwrap_pad(kek, c):
    if len(c) % 8 or len(c) < 16:
        return None
    if len(c) == 16:
        b = block_dec("aes", kek, c)
        a, p = b[:8], b[8:]
    else:
        a, p = _unwrap_core(kek, c)
    if a[:4] != b"\xa6\x59\x59\xa6":
        return None
    n = int.from_bytes(a[4:], "big")
    if not (len(p) - 8 < n <= len(p)) or any(p[n:]):
        return None
    return p[:n]


# ---- check values
def kcv(kind, value):
    """PKCS#11 v2.40 CKA_CHECK_VALUE: first three bytes of the ECB encryption of one all-zero block (block ciphers);
    first three bytes of SHA-1 of the value (generic secrets, as for other objects)"""
    if kind in ("aes", "des", "des3"):
        return block_enc(kind, value, bytes(_alg(kind, value)[1]))[:3]
    return hashlib.sha1(value).digest()[:3]


def des_parity(b):
    return bytes((x & 0xfe) | (1 if bin(x >> 1).count("1") % 2 == 0 else 0) for x in b)


# ---- RSA with python integers
def _i2osp(x, n):
    return x.to_bytes(n, "big")


_DIGESTINFO = {"sha1": bytes.fromhex("3021300906052b0e03021a05000414"),
               "sha256": bytes.fromhex("3031300d060960864801650304020105000420"),
               "sha384": bytes.fromhex("3041300d060960864801650304020205000430"),
               "sha512": bytes.fromhex("3051300d060960864801650304020305000440")}


def rsa_sign_pkcs1(key, hname, msg, prehashed=None):
    """deterministic: EMSA-PKCS1-v1_5; hname None: msg is the DigestInfo / raw data to pad (CKM_RSA_PKCS)"""
    k = (key["n"].bit_length() + 7) // 8
    t = msg if hname is None else _DIGESTINFO[hname] + hashlib.new(hname, msg).digest()
    if len(t) > k - 11:
        return None
    em = b"\x00\x01" + b"\xff" * (k - len(t) - 3) + b"\x00" + t
    return _i2osp(pow(int.from_bytes(em, "big"), key["d"], key["n"]), k)


def rsa_public(key, sig):
    k = (key["n"].bit_length() + 7) // 8
    if len(sig) != k or int.from_bytes(sig, "big") >= key["n"]:
        return None
    return _i2osp(pow(int.from_bytes(sig, "big"), key["e"], key["n"]), k)


def rsa_private(key, c):
    k = (key["n"].bit_length() + 7) // 8
    if len(c) != k or int.from_bytes(c, "big") >= key["n"]:
        return None
    return _i2osp(pow(int.from_bytes(c, "big"), key["d"], key["n"]), k)


def mgf1(hname, seed, n):
    out = b""
    i = 0
    while len(out) < n:
        out += hashlib.new(hname, seed + i.to_bytes(4, "big")).digest()
        i += 1
    return out[:n]


def rsa_verify_pss(key, hname, msg, sig, slen):
    em = rsa_public(key, sig)
    if em is None:
        return False
    embits = key["n"].bit_length() - 1
    emlen = (embits + 7) // 8
    em = em[len(em) - emlen:]
    mh = hashlib.new(hname, msg).digest()
    hl = len(mh)
    if emlen < hl + slen + 2 or em[-1] != 0xbc:
        return False
    mdb, h = em[:emlen - hl - 1], em[emlen - hl - 1:-1]
    if mdb[0] >> (8 - (8 * emlen - embits)) if (8 * emlen - embits) else 0:
        return False
    db = bytearray(_xor(mdb, mgf1(hname, h, len(mdb))))
    db[0] &= 0xff >> (8 * emlen - embits)
    db = bytes(db)
    if any(db[:emlen - hl - slen - 2]) or db[emlen - hl - slen - 2] != 1:
        return False
    salt = db[len(db) - slen:] if slen else b""
    return hashlib.new(hname, bytes(8) + mh + salt).digest() == h


def rsa_decrypt_pkcs1(key, c):
    em = rsa_private(key, c)
    if em is None or em[:2] != b"\x00\x02":
        return None
    i = em.find(b"\x00", 2)
    if i < 10:
        return None
    return em[i + 1:]


def rsa_encrypt_pkcs1(key, msg, rnd):
    k = (key["n"].bit_length() + 7) // 8
    ps = bytes((b % 255) + 1 for b in rnd(k - len(msg) - 3))
    em = b"\x00\x02" + ps + b"\x00" + msg
    return _i2osp(pow(int.from_bytes(em, "big"), key["e"], key["n"]), k)


def rsa_decrypt_oaep(key, hname, c, label=b""):
    em = rsa_private(key, c)
    if em is None:
        return None
    hl = hashlib.new(hname).digest_size
    y, ms, mdb = em[0], em[1:1 + hl], em[1 + hl:]
    seed = _xor(ms, mgf1(hname, mdb, hl))
    db = _xor(mdb, mgf1(hname, seed, len(mdb)))
    if y != 0 or db[:hl] != hashlib.new(hname, label).digest():
        return None
    i = db.find(b"\x01", hl)
    if i < 0 or any(db[hl:i]):
        return None
    return db[i + 1:]


def rsa_encrypt_oaep(key, hname, msg, rnd, label=b""):
    k = (key["n"].bit_length() + 7) // 8
    hl = hashlib.new(hname).digest_size
    db = hashlib.new(hname, label).digest() + bytes(k - len(msg) - 2 * hl - 2) + b"\x01" + msg
    seed = rnd(hl)
    mdb = _xor(db, mgf1(hname, seed, len(db)))
    ms = _xor(seed, mgf1(hname, mdb, hl))
    return _i2osp(pow(int.from_bytes(b"\x00" + ms + mdb, "big"), key["e"], key["n"]), k)


# ---- DER: PKCS#8 PrivateKeyInfo of an RSA key (what a wrapped RSA private key contains)
def _der(tag, body):
    n = len(body)
    if n < 128:
        return bytes([tag, n]) + body
    l = n.to_bytes((n.bit_length() + 7) // 8, "big")
    return bytes([tag, 0x80 | len(l)]) + l + body


def _der_int(x):
    b = x.to_bytes(max(1, (x.bit_length() + 8) // 8), "big")
    return _der(2, b)


def pkcs8_rsa(key):
    rsa = _der(0x30, b"".join(_der_int(v) for v in (0, key["n"], key["e"], key["d"], key["p"], key["q"], key["dp"], key["dq"],
                                                    key["qi"])))
    alg = _der(0x30, bytes.fromhex("06092a864886f70d0101010500"))
    return _der(0x30, _der_int(0) + alg + _der(4, rsa))


# ---- ECDSA P-256 verification with python integers
P256 = dict(p=0xffffffff00000001000000000000000000000000ffffffffffffffffffffffff,
            a=-3, b=0x5ac635d8aa3a93e7b3ebbd55769886bc651d06b0cc53b0f63bce3c3e27d2604b,
            n=0xffffffff00000000ffffffffffffffffbce6faada7179e84f3b9cac2fc632551,
            gx=0x6b17d1f2e12c4247f8bce6e563a440f277037d812deb33a0f4a13945d898c296,
            gy=0x4fe342e2fe1a7f9b8ee7eb4a7c0f9e162bce33576b315ececbb6406837bf51f5)


def _ec_add(c, P, Q):
    if P is None:
        return Q
    if Q is None:
        return P
    p = c["p"]
    if P[0] == Q[0] and (P[1] + Q[1]) % p == 0:
        return None
    if P == Q:
        lam = (3 * P[0] * P[0] + c["a"]) * pow(2 * P[1], -1, p) % p
    else:
        lam = (Q[1] - P[1]) * pow(Q[0] - P[0], -1, p) % p
    x = (lam * lam - P[0] - Q[0]) % p
    return x, (lam * (P[0] - x) - P[1]) % p


def _ec_mul(c, k, P):
    R = None
    while k:
        if k & 1:
            R = _ec_add(c, R, P)
        P = _ec_add(c, P, P)
        k >>= 1
    return R


def ecdsa_verify_p256(pub, digest_bytes, sig):
    """pub: (x, y); sig: r || s (PKCS#11 format); digest_bytes: the hash that was signed"""
    c = P256
    if len(sig) != 64:
        return False
    r, s = int.from_bytes(sig[:32], "big"), int.from_bytes(sig[32:], "big")
    if not (0 < r < c["n"] and 0 < s < c["n"]):
        return False
    e = int.from_bytes(digest_bytes[:32], "big")
    w = pow(s, -1, c["n"])
    R = _ec_add(c, _ec_mul(c, e * w % c["n"], (c["gx"], c["gy"])), _ec_mul(c, r * w % c["n"], pub))
    return R is not None and R[0] % c["n"] == r


def ecdsa_sign_p256(priv, digest_bytes, k):
    """r || s with the given nonce k (any value in 1..n-1 gives a valid signature)"""
    c = P256
    R = _ec_mul(c, k, (c["gx"], c["gy"]))
    r = R[0] % c["n"]
    e = int.from_bytes(digest_bytes[:32], "big")
    s_ = pow(k, -1, c["n"]) * (e + r * priv) % c["n"]
    if r == 0 or s_ == 0:
        return None
    return r.to_bytes(32, "big") + s_.to_bytes(32, "big")


def ecdh_p256(priv, pub):
    R = _ec_mul(P256, priv, pub)
    return R[0].to_bytes(32, "big")


# ---- DSA with python integers (FIPS 186-4)
def _dsa_z(q, digest_bytes):
    n = q.bit_length()
    z = int.from_bytes(digest_bytes, "big")
    if len(digest_bytes) * 8 > n:
        z >>= len(digest_bytes) * 8 - n
    return z


def dsa_verify(key, digest_bytes, sig):
    p_, q, g, y = key["p"], key["q"], key["g"], key["y"]
    ql = (q.bit_length() + 7) // 8
    if len(sig) != 2 * ql:
        return False
    r, s_ = int.from_bytes(sig[:ql], "big"), int.from_bytes(sig[ql:], "big")
    if not (0 < r < q and 0 < s_ < q):
        return False
    w = pow(s_, -1, q)
    z = _dsa_z(q, digest_bytes)
    v = (pow(g, z * w % q, p_) * pow(y, r * w % q, p_) % p_) % q
    return v == r


def dsa_sign(key, digest_bytes, k):
    p_, q, g, x = key["p"], key["q"], key["g"], key["x"]
    ql = (q.bit_length() + 7) // 8
    r = pow(g, k, p_) % q
    s_ = pow(k, -1, q) * (_dsa_z(q, digest_bytes) + x * r) % q
    if r == 0 or s_ == 0:
        return None
    return r.to_bytes(ql, "big") + s_.to_bytes(ql, "big")


# ---- Ed25519 (RFC 8032, pure: deterministic signatures)
_EP = 2 ** 255 - 19
_EL = 2 ** 252 + 27742317777372353535851937790883648493
_ED = -121665 * pow(121666, -1, _EP) % _EP
_EI = pow(2, (_EP - 1) // 4, _EP)


def _ed_add(P, Q):
    A = (P[1] - P[0]) * (Q[1] - Q[0]) % _EP
    B = (P[1] + P[0]) * (Q[1] + Q[0]) % _EP
    Cc = 2 * P[3] * Q[3] * _ED % _EP
    Dd = 2 * P[2] * Q[2] % _EP
    E, F, G, H = B - A, Dd - Cc, Dd + Cc, B + A
    return (E * F % _EP, G * H % _EP, F * G % _EP, E * H % _EP)


def _ed_mul(s_, P):
    Q = (0, 1, 1, 0)
    while s_ > 0:
        if s_ & 1:
            Q = _ed_add(Q, P)
        P = _ed_add(P, P)
        s_ >>= 1
    return Q


def _ed_recover_x(y, sign):
    x2 = (y * y - 1) * pow(_ED * y * y + 1, -1, _EP) % _EP
    if x2 == 0:
        return None if sign else 0
    x = pow(x2, (_EP + 3) // 8, _EP)
    if (x * x - x2) % _EP != 0:
        x = x * _EI % _EP
    if (x * x - x2) % _EP != 0:
        return None
    if (x & 1) != sign:
        x = _EP - x
    return x


_EGY = 4 * pow(5, -1, _EP) % _EP
_EGX = _ed_recover_x(_EGY, 0)
_EG = (_EGX, _EGY, 1, _EGX * _EGY % _EP)


def _ed_compress(P):
    zi = pow(P[2], -1, _EP)
    x, y = P[0] * zi % _EP, P[1] * zi % _EP
    return (y | ((x & 1) << 255)).to_bytes(32, "little")


def _ed_decompress(b):
    y = int.from_bytes(b, "little")
    sign = y >> 255
    y &= (1 << 255) - 1
    if y >= _EP:
        return None
    x = _ed_recover_x(y, sign)
    if x is None:
        return None
    return (x, y, 1, x * y % _EP)


def _ed_expand(secret):
    hh = hashlib.sha512(secret).digest()
    a = int.from_bytes(hh[:32], "little")
    a &= (1 << 254) - 8
    a |= 1 << 254
    return a, hh[32:]


def ed25519_public(secret):
    a, _ = _ed_expand(secret)
    return _ed_compress(_ed_mul(a, _EG))


def ed25519_sign(secret, msg):
    a, prefix = _ed_expand(secret)
    A = _ed_compress(_ed_mul(a, _EG))
    r = int.from_bytes(hashlib.sha512(prefix + msg).digest(), "little") % _EL
    Rs = _ed_compress(_ed_mul(r, _EG))
    hh = int.from_bytes(hashlib.sha512(Rs + A + msg).digest(), "little") % _EL
    return Rs + ((r + hh * a) % _EL).to_bytes(32, "little")


def ed25519_verify(public, msg, sig):
    if len(public) != 32 or len(sig) != 64:
        return False
    A = _ed_decompress(public)
    R = _ed_decompress(sig[:32])
    s_ = int.from_bytes(sig[32:], "little")
    if A is None or R is None or s_ >= _EL:
        return False
    hh = int.from_bytes(hashlib.sha512(sig[:32] + public + msg).digest(), "little") % _EL
    sB = _ed_mul(s_, _EG)
    hA = _ed_add(R, _ed_mul(hh, A))
    # compare projective points
    return (sB[0] * hA[2] - hA[0] * sB[2]) % _EP == 0 and (sB[1] * hA[2] - hA[1] * sB[2]) % _EP == 0


def selftest():
    # RFC 8032 7.1 test 2
    sk = bytes.fromhex("4ccd089b28ff96da9db6c346ec114e0f5b8a319f35aba624da8cf6ed4fb8a6fb")
    assert ed25519_public(sk).hex() == "3d4017c3e843895a92b70aa74d1b7ebc9c982ccf2ec4968cc0cd55f12af4660c"
    sg = ed25519_sign(sk, bytes.fromhex("72"))
    assert sg.hex() == ("92a009a9f0d4cab8720e820b5f642540a2b27b5416503f8fb3762223ebdb69da"
                        "085ac1e43e15996e458f3613d0f11d8c387b2eaeb4302aeeb00d291612bb0c00")
    assert ed25519_verify(ed25519_public(sk), bytes.fromhex("72"), sg) and not ed25519_verify(ed25519_public(sk), b"x", sg)
    # RFC 3394 4.1, RFC 4493 example 2, NIST CBC, FIPS 180 etc.
    kek = bytes.fromhex("000102030405060708090A0B0C0D0E0F")
    assert keywrap(kek, bytes.fromhex("00112233445566778899AABBCCDDEEFF")).hex().upper() == \
        "1FA68B0A8112B447AEF34BD8FB5A7B829D3E862371D2CFE5"
    assert keyunwrap(kek, keywrap(kek, bytes(range(32)))) == bytes(range(32))
    k5649 = bytes.fromhex("5840df6e29b02af1ab493b705bf16ea1ae8338f4dcc176a8")
    assert keywrap_pad(k5649, bytes.fromhex("c37b7e6492584340bed12207808941155068f738")).hex() == \
        "138bdeaa9b8fa7fc61f97742e72248ee5ae6ae5360d1ae6a5f54f373fa543b6a"
    assert keywrap_pad(k5649, bytes.fromhex("466f7250617369")).hex() == "afbeb0f07dfbf5419200f2ccb50bb24f"
    assert keyunwrap_pad(k5649, keywrap_pad(k5649, b"abc")) == b"abc"
    k = bytes.fromhex("2b7e151628aed2a6abf7158809cf4f3c")
    assert cmac("aes", k, b"").hex() == "bb1d6929e95937287fa37d129b756746"
    assert cmac("aes", k, bytes.fromhex("6bc1bee22e409f96e93d7e117393172a")).hex() == "070a16b46b4d4144f79bdd9dd04a287c"
    iv = bytes(range(16))
    m = bytes.fromhex("6bc1bee22e409f96e93d7e117393172a")
    assert cbc("aes", k, iv, m).hex() == "7649abac8119b246cee98e9b12e9197d"
    assert cbc("aes", k, iv, cbc("aes", k, iv, b"hello", pad=True), enc=False, pad=True) == b"hello"
    assert _evp("aes-128-cbc", k, iv, m, True) == cbc("aes", k, iv, m)
    assert _evp("aes-128-ctr", k, iv, m * 3, True) == ctr(k, iv, 128, m * 3)
    c = gcm_encrypt(k, bytes(12), b"aad", b"data", 16)
    assert gcm_decrypt(k, bytes(12), b"aad", c, 16) == b"data" and gcm_decrypt(k, bytes(12), b"aae", c, 16) is None
    return True


if __name__ == "__main__":
    print(selftest())
