"""Driver for the behaviours of MC_Policy (attribute policy: C08, C02).

Every model transition becomes one call sequence on a concrete key class; after every call ALL policy and history
attributes of every live object are read back and logged.  Reads of secret attributes are made alone and mixed
with other attributes, with NULL / too small / exact / larger buffers, and every returned byte is scanned for
windows of the protected values (leak scan).  The oracle is Trace_Policy.tla.

usage: python3 -m vf.drv_policy <lib> <behaviours.json> <out.ndjson> <workdir> <seed> <class>
classes: aes generic des3 ecpriv rsapriv
"""
import json
import sys

from . import p11const as K
from .harness import Harness, Emitter
from .p11 import rvname, Mech, keyderiv_string, ecdh_params, UNAVAIL
from .tlaval import parse_call
from .testkeys import RSA1024

ATTR = {"S": K.CKA_SENSITIVE, "E": K.CKA_EXTRACTABLE, "W": K.CKA_WRAP_WITH_TRUSTED, "M": K.CKA_MODIFIABLE,
        "C": K.CKA_COPYABLE, "D": K.CKA_DESTROYABLE, "T": K.CKA_TRUSTED, "P": K.CKA_PRIVATE, "L": K.CKA_LOCAL,
        "AS": K.CKA_ALWAYS_SENSITIVE, "NE": K.CKA_NEVER_EXTRACTABLE, "G": K.CKA_KEY_GEN_MECHANISM}
P256 = bytes.fromhex("06082a8648ce3d030107")
# a fixed P-256 public point (uncompressed, DER OCTET STRING) for ECDH derivation
P256_PEER = bytes.fromhex("0441046b17d1f2e12c4247f8bce6e563a440f277037d812deb33a0f4a13945d898c2964fe342e2fe1a7f9b8ee7eb4a7c0f9e162bce33576b315ececbb6406837bf51f5")


class PolicyDriver(Harness):
    def __init__(self, libpath, workdir, seed, cls):
        Harness.__init__(self, libpath, workdir, seed, "file", tokens=("t1",))
        self.cls = cls
        self.secret_attrs = {"aes": [K.CKA_VALUE], "generic": [K.CKA_VALUE], "des3": [K.CKA_VALUE],
                             "ecpriv": [K.CKA_VALUE],
                             "rsapriv": [K.CKA_PRIVATE_EXPONENT, K.CKA_PRIME_1, K.CKA_PRIME_2, K.CKA_EXPONENT_1,
                                         K.CKA_EXPONENT_2, K.CKA_COEFFICIENT]}[cls]
        self.genmech = {"aes": K.CKM_AES_KEY_GEN, "generic": K.CKM_GENERIC_SECRET_KEY_GEN, "des3": K.CKM_DES3_KEY_GEN,
                        "ecpriv": K.CKM_EC_KEY_PAIR_GEN, "rsapriv": K.CKM_RSA_PKCS_KEY_PAIR_GEN}[cls]

    # ---- set-up per execution: one RW session, a trusted and a plain wrapping key (made by the SO / the user)
    def begin(self):
        self.setup_tokens("P1", "P2")
        p = self.p
        rv, self.s = p.open_session(self.slot["t1"], True)
        wk = [(K.CKA_CLASS, K.CKO_SECRET_KEY), (K.CKA_KEY_TYPE, K.CKK_AES), (K.CKA_TOKEN, True), (K.CKA_PRIVATE, False),
              (K.CKA_VALUE, bytes(self.rng.randrange(256) for _ in range(32))), (K.CKA_WRAP, True), (K.CKA_UNWRAP, True),
              (K.CKA_ENCRYPT, True), (K.CKA_DECRYPT, True), (K.CKA_EXTRACTABLE, True), (K.CKA_SENSITIVE, False)]
        assert p.login(self.s, K.CKU_SO, self.pin("P1")) == 0
        rv, self.wk_trusted = p.create_object(self.s, wk + [(K.CKA_TRUSTED, True)])
        assert rv == 0, rvname(rv)
        p.logout(self.s)
        assert p.login(self.s, K.CKU_USER, self.pin("P2")) == 0
        rv, self.wk_plain = p.create_object(self.s, wk)
        assert rv == 0
        # the same pair as RSA public keys (CKM_RSA_PKCS / CKM_RSA_PKCS_OAEP wrap secret keys): trusted by the SO, and plain
        from . import testkeys as TK
        rk = [(K.CKA_CLASS, K.CKO_PUBLIC_KEY), (K.CKA_KEY_TYPE, K.CKK_RSA), (K.CKA_TOKEN, True), (K.CKA_PRIVATE, False),
              (K.CKA_MODULUS, TK.RSA1024["n"]), (K.CKA_PUBLIC_EXPONENT, TK.RSA1024["e"]), (K.CKA_WRAP, True), (K.CKA_ENCRYPT, True)]
        rv, self.rk_plain = p.create_object(self.s, rk)
        assert rv == 0
        p.logout(self.s)
        assert p.login(self.s, K.CKU_SO, self.pin("P1")) == 0
        rv, self.rk_trusted = p.create_object(self.s, rk + [(K.CKA_TRUSTED, True)])
        assert rv == 0, rvname(rv)
        p.logout(self.s)
        assert p.login(self.s, K.CKU_USER, self.pin("P2")) == 0
        self.nwrap = 0
        self.h = {}            # model id -> handle
        self.secrets = {}      # model id -> list of byte strings that must not leak while protected
        self.made = 0

    def tmpl(self, t, creating=False):
        out = []
        if creating and not any(a == "P" for a, v in t):
            out.append((K.CKA_PRIVATE, False))      # the specification's Blank object is public
        for a, v in t:
            if a == "G":
                out.append((ATTR[a], self.genmech if v == "gen" else UNAVAIL))
            elif v:
                # CK_BBOOL "true": usually CK_TRUE, sometimes another non-zero byte (the code treats every non-zero
                # byte as true when it stores the value, so every check has to as well)
                out.append((ATTR[a], ("raw", bytes([self.rng.choice([1, 1, 1, 1, 0xFF, 2, 0x80])]))))
            else:
                out.append((ATTR[a], False))
        return out

    def base_attrs(self):
        return [(K.CKA_TOKEN, True), (K.CKA_DERIVE, True), (K.CKA_LABEL, b"verif-policy")]

    def rnd(self, n):
        return bytes(self.rng.randrange(256) for _ in range(n))

    def keylen(self):
        return {"aes": 16, "generic": 24, "des3": 24}.get(self.cls, 16)

    def ktype(self):
        return {"aes": K.CKK_AES, "generic": K.CKK_GENERIC_SECRET, "des3": K.CKK_DES3, "ecpriv": K.CKK_EC,
                "rsapriv": K.CKK_RSA}[self.cls]

    # ---- making keys
    def generate(self, t):
        p, c = self.p, self.cls
        tm = self.tmpl(t, True)
        if c in ("aes", "generic"):
            return p.generate_key(self.s, Mech(self.genmech), self.base_attrs() + tm + [(K.CKA_VALUE_LEN, self.keylen())])
        if c == "des3":
            return p.generate_key(self.s, Mech(self.genmech), self.base_attrs() + tm)
        if c == "ecpriv":
            rv, pub, priv = p.generate_key_pair(self.s, Mech(self.genmech),
                                                [(K.CKA_TOKEN, False), (K.CKA_PRIVATE, False), (K.CKA_EC_PARAMS, P256)],
                                                self.base_attrs() + tm)
            return rv, priv
        if c == "rsapriv":
            rv, pub, priv = p.generate_key_pair(self.s, Mech(self.genmech),
                                                [(K.CKA_TOKEN, False), (K.CKA_PRIVATE, False), (K.CKA_MODULUS_BITS, 1024),
                                                 (K.CKA_PUBLIC_EXPONENT, b"\x01\x00\x01")],
                                                self.base_attrs() + tm)
            return rv, priv

    def material(self):
        """template part carrying key material for C_CreateObject, and the secrets in it"""
        c = self.cls
        if c in ("aes", "generic", "des3"):
            v = self.rnd(self.keylen())
            if c == "des3":
                v = bytes((b & 0xfe) | (bin(b >> 1).count("1") % 2 == 0) for b in v)
            return [(K.CKA_CLASS, K.CKO_SECRET_KEY), (K.CKA_KEY_TYPE, self.ktype()), (K.CKA_VALUE, v)], [v]
        if c == "rsapriv":
            k = RSA1024
            return ([(K.CKA_CLASS, K.CKO_PRIVATE_KEY), (K.CKA_KEY_TYPE, K.CKK_RSA), (K.CKA_MODULUS, k["n"]),
                     (K.CKA_PUBLIC_EXPONENT, k["e"]), (K.CKA_PRIVATE_EXPONENT, k["d"]), (K.CKA_PRIME_1, k["p"]),
                     (K.CKA_PRIME_2, k["q"]), (K.CKA_EXPONENT_1, k["dp"]), (K.CKA_EXPONENT_2, k["dq"]),
                     (K.CKA_COEFFICIENT, k["qi"])], [k["d"], k["p"], k["q"], k["dp"], k["dq"], k["qi"]])
        if c == "ecpriv":
            v = b"\x01" + self.rnd(31)
            return ([(K.CKA_CLASS, K.CKO_PRIVATE_KEY), (K.CKA_KEY_TYPE, K.CKK_EC), (K.CKA_EC_PARAMS, P256),
                     (K.CKA_VALUE, v)], [v])

    def create(self, t):
        mat, sec = self.material()
        rv, g = self.p.create_object(self.s, mat + self.base_attrs() + self.tmpl(t, True))
        return rv, g, sec

    def unwrap(self, t):
        """wraps a scratch key of this class under the plain wrapping key, then unwraps the blob with template t"""
        p = self.p
        mat, sec = self.material()
        rv, tmp = p.create_object(self.s, mat + [(K.CKA_TOKEN, False), (K.CKA_PRIVATE, False), (K.CKA_EXTRACTABLE, True),
                                               (K.CKA_SENSITIVE, False)])
        if rv:
            return rv, 0, []
        mech = K.CKM_AES_KEY_WRAP if self.cls in ("aes", "generic", "des3") else K.CKM_AES_KEY_WRAP_PAD
        rv, blob, n = p.wrap_key(self.s, Mech(mech), self.wk_plain, tmp)
        p.destroy_object(self.s, tmp)
        if rv:
            return rv, 0, []
        head = [(K.CKA_CLASS, K.CKO_SECRET_KEY if self.cls in ("aes", "generic", "des3") else K.CKO_PRIVATE_KEY),
                (K.CKA_KEY_TYPE, self.ktype())]
        rv, g = p.unwrap_key(self.s, Mech(mech), self.wk_plain, blob, head + self.base_attrs() + self.tmpl(t, True))
        return rv, g, sec

    def derive(self, b, b2, mech, t):
        p = self.p
        hb, hb2 = self.h.get(b, 0), self.h.get(b2, 0)
        out = [(K.CKA_CLASS, K.CKO_SECRET_KEY), (K.CKA_KEY_TYPE, K.CKK_GENERIC_SECRET)] + self.base_attrs() + self.tmpl(t, True)
        if self.cls in ("ecpriv",):
            return p.derive_key(self.s, Mech(K.CKM_ECDH1_DERIVE, ecdh_params(P256_PEER)), hb, out + [(K.CKA_VALUE_LEN, 32)])
        if mech == "enc":
            m = {"aes": K.CKM_AES_ECB_ENCRYPT_DATA, "des3": K.CKM_DES3_ECB_ENCRYPT_DATA}.get(self.cls)
            if m is not None and hb:
                # a base key that was itself derived is a generic secret, whatever the class under test
                rvk, kt = p.get_attr(self.s, hb, K.CKA_KEY_TYPE)
                want = {"aes": K.CKK_AES, "des3": K.CKK_DES3}[self.cls]
                if rvk == 0 and kt is not None and int.from_bytes(kt, "little") != want:
                    m = None
            if m is None:     # generic secrets have no ENCRYPT_DATA mechanism: use the concatenation with data
                return None
            return p.derive_key(self.s, Mech(m, keyderiv_string(self.rnd(16))), hb, out + [(K.CKA_VALUE_LEN, 16)])
        if mech == "catd":
            m = self.rng.choice([K.CKM_CONCATENATE_BASE_AND_DATA, K.CKM_CONCATENATE_DATA_AND_BASE])
            return p.derive_key(self.s, Mech(m, keyderiv_string(self.rnd(8))), hb, out)
        if mech == "catk":
            import ctypes
            hv = ctypes.c_ulong(hb2)
            return p.derive_key(self.s, Mech(K.CKM_CONCATENATE_BASE_AND_KEY, hv), hb, out)
        raise ValueError(mech)

    # ---- projection: every policy attribute of every live object
    def read_obj(self, oid, g):
        names = ["S", "E", "W", "M", "C", "D", "P", "L", "AS", "NE"]
        rv, d = self.p.get_attrs(self.s, g, [ATTR[n] for n in names])
        rec = {"id": oid, "ok": rv == 0}
        for n in names:
            v = d.get(ATTR[n])
            rec[n] = (v == b"\x01") if v is not None else False
            if v is None:
                rec["ok"] = False
        rv, v = self.p.get_attr(self.s, g, K.CKA_TRUSTED)
        rec["T"] = (v == b"\x01") if (rv == 0 and v is not None) else False
        rv, v = self.p.get_attr(self.s, g, K.CKA_KEY_GEN_MECHANISM)
        if rv == 0 and v is not None and len(v) == 8:
            n = int.from_bytes(v, "little")
            rec["G"] = "gen" if n == self.genmech else ("none" if n == UNAVAIL else "other")
        else:
            rec["G"] = "?"
        return rec

    def project(self):
        return [self.read_obj(i, g) for i, g in sorted(self.h.items())]

    # ---- reading secret attributes in every way; leak scan
    def leaks(self, oid, data):
        """For every 8-byte window of known secret material that occurs in `data`: the set of objects (ids) whose
        secret material contains that window.  Returns the distinct holder sets; the specification decides whether
        at least one holder of each is unprotected at this moment (then the bytes are legitimately readable)."""
        chunks = [c for c in (data if isinstance(data, list) else [data]) if c]
        if not chunks:
            return []
        wins = {}
        for i2, secs in self.secrets.items():
            for sec in secs:
                for i in range(0, len(sec) - 7):
                    wins.setdefault(sec[i:i + 8], set()).add(i2)
        groups = set()
        for w, holders in wins.items():
            if any(w in c for c in chunks):
                groups.add(tuple(sorted(holders)))
        return [list(g) for g in sorted(groups)]

    def get_secret(self, oid):
        p, g = self.p, self.h.get(oid, 0)
        results = []
        allbytes = []          # the bytes each call reported as returned (buffers are scanned one by one;
        first = None           # bytes written without being reported are caught by the canary comparison)
        for a in self.secret_attrs:
            rv0, q = p.get_attrs_raw(self.s, g, [a], [None])
            ln = q[0][0]
            size = 64 if ln == UNAVAIL or ln > 4096 else ln
            for bufsize in (None, max(size - 1, 0), size, size + 9):
                for mixed in (False, True):
                    types = [K.CKA_LABEL, a, K.CKA_CLASS] if mixed else [a]
                    bufs = [32, bufsize, 8] if mixed else [bufsize]
                    if mixed and bufsize is None:
                        bufs = [None, None, None]
                    rv, out = p.get_attrs_raw(self.s, g, types, bufs)
                    ent = out[1] if mixed else out[0]
                    raw = ent[1] or b""
                    untouched = (ent[1] is None) or (raw == bytes([0xA5]) * len(raw))
                    for o in out:
                        if o[1] is not None and o[0] != UNAVAIL and o[0] <= len(o[1]):
                            allbytes.append(o[1][:o[0]])
                    cls = "SENS" if rv == K.CKR_ATTRIBUTE_SENSITIVE else \
                          ("OK" if rv == 0 else ("SMALL" if rv == K.CKR_BUFFER_TOO_SMALL else "ERR_" + rvname(rv)))
                    if cls == "SMALL" and bufsize is not None and bufsize < size:
                        cls = "OK"          # an honest too-small answer belongs to the readable case
                    results.append(dict(attr="%x" % a, buf=bufsize if bufsize is not None else -1, mixed=mixed, cls=cls,
                                        unavail=(ent[0] == UNAVAIL), untouched=untouched, guard=ent[2]))
                    if first is None and bufsize == size and not mixed:
                        first = rv
        classes = set(r["cls"] for r in results)
        sens = [r for r in results if r["cls"] == "SENS"]
        return dict(rv=rvname(first if first is not None else K.CKR_GENERAL_ERROR),
                    allsame=(len(classes) == 1),
                    unavail=all(r["unavail"] for r in sens), clean=all(r["untouched"] and r["guard"] for r in sens),
                    guards=all(r["guard"] for r in results), leaks=self.leaks(oid, allbytes), classes=sorted(classes))

    # ---- actions
    def step(self, label):
        if isinstance(label, (list, tuple)):
            name, a = label[0], list(label[1:])
        else:
            name, a = parse_call(label)
        p = self.p
        ev = {"e": name}
        rv = 0
        if name in ("MGen", "MImport", "MDerive", "MCopy"):
            oid = self.made + 1
            sec = []
            t = [list(x) for x in a[-1]] if name != "MImport" else [list(x) for x in a[0]]
            if name == "MGen":
                rv, g = self.generate(t)
            elif name == "MImport":
                if a[1] == "CREATE":
                    rv, g, sec = self.create(t)
                else:
                    rv, g, sec = self.unwrap(t)
                ev["op"] = a[1]
            elif name == "MDerive":
                r = self.derive(a[0], a[1], a[2], t)
                if r is None:
                    r = self.derive(a[0], a[1], "catd", t)
                    ev["subst"] = "catd"
                rv, g = r
                ev.update(b=a[0], b2=a[1], m=ev.get("subst", a[2]))
            else:
                rv, g = p.copy_object(self.s, self.h.get(a[0], 0), self.tmpl(t))
                sec = list(self.secrets.get(a[0], []))
                ev["src"] = a[0]
            ev.update(id=oid, t=t)
            if rv == 0:
                self.made += 1
                self.h[oid] = g
                if not sec:
                    # learn the value of generated / derived keys where the library reveals it legitimately
                    rvv, d = p.get_attrs(self.s, g, self.secret_attrs)
                    sec = [v for v in d.values() if v]
                self.secrets[oid] = sec
        elif name == "MSet":
            t = [list(x) for x in a[1]]
            rv = p.set_attrs(self.s, self.h.get(a[0], 0), self.tmpl(t))
            ev.update(id=a[0], t=t)
        elif name == "MDestroy":
            rv = p.destroy_object(self.s, self.h.get(a[0], 0))
            if rv == 0:
                self.h.pop(a[0], None)
            ev.update(id=a[0])
        elif name == "MGet":
            r = self.get_secret(a[0])
            ev.update(id=a[0], **r)
            ev["rv"] = r["rv"]
        elif name == "MWrap":
            mech = K.CKM_AES_KEY_WRAP if self.cls in ("aes", "generic", "des3") else K.CKM_AES_KEY_WRAP_PAD
            wk = self.wk_trusted if a[1] else self.wk_plain
            self.nwrap += 1
            mm = Mech(mech)
            if self.cls in ("aes", "generic", "des3") and self.nwrap % 3:
                # secret keys: every wrapping mechanism family in turn (the rules do not depend on it)
                from . import p11 as _p11
                wk = self.rk_trusted if a[1] else self.rk_plain
                mm = Mech(K.CKM_RSA_PKCS) if self.nwrap % 3 == 1 else Mech(K.CKM_RSA_PKCS_OAEP, _p11.oaep_params())
            rv, blob, n = p.wrap_key(self.s, mm, wk, self.h.get(a[0], 0), bufsize=4096)
            ev.update(id=a[0], tr=a[1], leaks=self.leaks(a[0], blob or b""), yields=bool(blob))
        elif name == "MRelogin":
            p.logout(self.s)
            rv = p.login(self.s, K.CKU_SO if a[0] == "so" else K.CKU_USER, self.pin("P1" if a[0] == "so" else "P2"))
            ev.update(u=a[0])
        else:
            raise ValueError("unknown action " + str(label))
        if "rv" not in ev:
            ev["rv"] = rvname(rv)
        ev["objs"] = self.project()
        return ev


def main():
    lib, bfile, out, workdir, seed, cls = sys.argv[1:7]
    behaviours = json.load(open(bfile))
    d = PolicyDriver(lib, workdir, int(seed), cls)
    em = Emitter(out)
    for i, beh in enumerate(behaviours):
        d.begin()
        em.emit({"e": "Reset", "b": i})
        for label in beh:
            em.emit(d.step(label))
        em.flush()
    d.shutdown()
    em.close()


if __name__ == "__main__":
    from .harness import run_main
    run_main(main)
