// throwaway prototype: cooperative scheduler through CK_C_INITIALIZE_ARGS mutex callbacks
#include <cstdio>
#include <cstring>
#include <cstdlib>
#include <pthread.h>
#include <unistd.h>
#include <dlfcn.h>
#include <vector>
#include <string>
#include "cryptoki.h"
static CK_FUNCTION_LIST_PTR p; static CK_SLOT_ID slot;
// ---- scheduler state
static pthread_mutex_t G=PTHREAD_MUTEX_INITIALIZER; static pthread_cond_t CV=PTHREAD_COND_INITIALIZER;
static const int MAXT=4; static int nthreads=0; static __thread int me=-1;   // -1 = main/uncontrolled
static int cur=-1; static bool active=false; static bool alive[MAXT]; static int waiting_for[MAXT]; // mutex id or -1
struct Mx{ int owner; int id; }; static std::vector<Mx*> all; static unsigned rngs; static std::string trace; static long points=0; static int STICK=40;
static unsigned rnd(){ rngs=rngs*1103515245u+12345u; return (rngs>>16)&0x7fff; }
static bool runnable(int t){ if(!alive[t]) return false; if(waiting_for[t]<0) return true; return all[waiting_for[t]]->owner==-1; }
static void pick(){ // choose next runnable thread (called with G held)
  int c[MAXT],n=0; for(int t=0;t<nthreads;t++) if(runnable(t)) c[n++]=t;
  if(n==0){ bool any=false; for(int t=0;t<nthreads;t++) any|=alive[t]; if(any){ fprintf(stderr,"DEADLOCK detected by scheduler\n"); _exit(3);} cur=-1; }
  else { bool curOK=false; for(int i=0;i<n;i++) if(c[i]==cur) curOK=true; if(!(curOK && (rnd()%STICK)!=0)) cur=c[rnd()%n]; }
  pthread_cond_broadcast(&CV); }
static void yield_point(){ // called with G held by thread me
  points++; pick(); while(cur!=me) pthread_cond_wait(&CV,&G); }
static CK_RV cbCreate(CK_VOID_PTR_PTR pp){ pthread_mutex_lock(&G); Mx* m=new Mx{-1,(int)all.size()}; all.push_back(m); *pp=m; pthread_mutex_unlock(&G); return CKR_OK; }
static CK_RV cbDestroy(CK_VOID_PTR){ return CKR_OK; }
static CK_RV cbLock(CK_VOID_PTR v){ Mx* m=(Mx*)v; pthread_mutex_lock(&G);
  if(!active||me<0){ m->owner=99; pthread_mutex_unlock(&G); return CKR_OK; }
  waiting_for[me]=m->id; yield_point();            // scheduling point before acquiring
  while(m->owner!=-1){ yield_point(); }
  m->owner=me; waiting_for[me]=-1; char b[32]; snprintf(b,32,"%d+%d ",me,m->id); trace+=b; pthread_mutex_unlock(&G); return CKR_OK; }
static CK_RV cbUnlock(CK_VOID_PTR v){ Mx* m=(Mx*)v; pthread_mutex_lock(&G); m->owner=-1;
  if(active&&me>=0){ char b[32]; snprintf(b,32,"%d-%d ",me,m->id); trace+=b; yield_point(); }
  pthread_mutex_unlock(&G); return CKR_OK; }
static void thread_begin(int id){ pthread_mutex_lock(&G); me=id; while(cur!=me) pthread_cond_wait(&CV,&G); pthread_mutex_unlock(&G); }
static void thread_end(){ pthread_mutex_lock(&G); alive[me]=false; pick(); pthread_mutex_unlock(&G); }
// ---- scenario
static CK_SESSION_HANDLE S[MAXT]; static int found_after[MAXT]; static CK_RV rvs[MAXT][4];
static int findByLabel(CK_SESSION_HANDLE s,const char* lab){ CK_ATTRIBUTE ft[]={{CKA_LABEL,(void*)lab,strlen(lab)}}; CK_RV rv=p->C_FindObjectsInit(s,ft,1); if(rv) return -(int)rv; CK_OBJECT_HANDLE h[8]; CK_ULONG n=0; p->C_FindObjects(s,h,8,&n); p->C_FindObjectsFinal(s); return (int)n; }
static void* worker(void* a){ int id=(int)(long)a; thread_begin(id);
  CK_OBJECT_CLASS cls=CKO_DATA; CK_BBOOL t=CK_TRUE,f=CK_FALSE; char lab[16]; snprintf(lab,16,"obj%d",id);
  CK_ATTRIBUTE tp[]={{CKA_CLASS,&cls,sizeof cls},{CKA_TOKEN,&t,1},{CKA_PRIVATE,&f,1},{CKA_LABEL,lab,strlen(lab)},{CKA_VALUE,lab,strlen(lab)}};
  CK_OBJECT_HANDLE o=0; rvs[id][0]=p->C_CreateObject(S[id],tp,5,&o);
  found_after[id]=findByLabel(S[id],lab);
  thread_end(); return NULL; }
int main(int argc,char**argv){ unsigned seed=atoi(argv[1]); nthreads=atoi(argv[2]); if(getenv("STICK")) STICK=atoi(getenv("STICK"));
  void* h=dlopen(getenv("P11LIB"),RTLD_NOW); CK_C_GetFunctionList gfl=(CK_C_GetFunctionList)dlsym(h,"C_GetFunctionList"); gfl(&p);
  CK_C_INITIALIZE_ARGS ia; memset(&ia,0,sizeof ia); ia.CreateMutex=cbCreate; ia.DestroyMutex=cbDestroy; ia.LockMutex=cbLock; ia.UnlockMutex=cbUnlock;
  if(p->C_Initialize(&ia)) return 9;
  CK_SLOT_ID slots[8]; CK_ULONG n=8; p->C_GetSlotList(CK_FALSE,NULL,&n); n=8; p->C_GetSlotList(CK_FALSE,slots,&n); slot=slots[n-1];
  CK_UTF8CHAR label[32]; memset(label,' ',32); p->C_InitToken(slot,(CK_UTF8CHAR_PTR)"sopin123",8,label); CK_SESSION_HANDLE s; p->C_OpenSession(slot,CKF_SERIAL_SESSION|CKF_RW_SESSION,NULL,NULL,&s);
  p->C_Login(s,CKU_SO,(CK_UTF8CHAR_PTR)"sopin123",8); p->C_InitPIN(s,(CK_UTF8CHAR_PTR)"1234",4); p->C_Logout(s); p->C_Login(s,CKU_USER,(CK_UTF8CHAR_PTR)"1234",4);
  for(int i=0;i<nthreads;i++){ p->C_OpenSession(slot,CKF_SERIAL_SESSION|CKF_RW_SESSION,NULL,NULL,&S[i]); alive[i]=true; waiting_for[i]=-1; }
  rngs=seed; pthread_mutex_lock(&G); active=true; pick(); pthread_mutex_unlock(&G);
  pthread_t th[MAXT]; for(long i=0;i<nthreads;i++) pthread_create(&th[i],NULL,worker,(void*)i); for(int i=0;i<nthreads;i++) pthread_join(th[i],NULL);
  pthread_mutex_lock(&G); active=false; pthread_mutex_unlock(&G);
  int bad=0; for(int i=0;i<nthreads;i++) if(found_after[i]!=1||rvs[i][0]) bad=1;
  printf("seed=%u mutexes=%zu sched_points=%ld", seed, all.size(), points); for(int i=0;i<nthreads;i++) printf(" t%d:create=0x%lx found=%d",i,rvs[i][0],found_after[i]); printf(" %s\n", bad?"ANOMALY":"ok");
  if(argc>3) printf("schedule: %s\n", trace.c_str());
  p->C_Finalize(NULL); return bad; }
