#include <cstdio>
#include <cstring>
#include <cstdlib>
#include <dlfcn.h>
#include <vector>
#include <string>
#include "cryptoki.h"
static CK_FUNCTION_LIST_PTR p;
#define CHK(x) do{CK_RV _r=(x); printf("%-60s -> 0x%lx\n", #x, _r);}while(0)
static int countAll(CK_SESSION_HANDLE s){ p->C_FindObjectsInit(s,NULL,0); CK_OBJECT_HANDLE h[64]; CK_ULONG n=0; p->C_FindObjects(s,h,64,&n); p->C_FindObjectsFinal(s); return (int)n;}
int main(){
  void* h=dlopen(getenv("P11LIB"),RTLD_NOW); if(!h){puts(dlerror());return 1;}
  CK_C_GetFunctionList gfl=(CK_C_GetFunctionList)dlsym(h,"C_GetFunctionList"); gfl(&p);
  CHK(p->C_Initialize(NULL));
  CK_SLOT_ID slots[8]; CK_ULONG n=8; p->C_GetSlotList(CK_FALSE,NULL,&n); n=8; p->C_GetSlotList(CK_FALSE,slots,&n);
  CK_UTF8CHAR label[32]; memset(label,' ',32); memcpy(label,"probe",5);
  CHK(p->C_InitToken(slots[n-1],(CK_UTF8CHAR_PTR)"sopin123",8,label));
  CK_SESSION_HANDLE s; CHK(p->C_OpenSession(slots[n-1],CKF_SERIAL_SESSION|CKF_RW_SESSION,NULL,NULL,&s));
  CHK(p->C_Login(s,CKU_SO,(CK_UTF8CHAR_PTR)"sopin123",8));
  CHK(p->C_InitPIN(s,(CK_UTF8CHAR_PTR)"1234",4));
  CHK(p->C_Logout(s));
  CHK(p->C_Login(s,CKU_USER,(CK_UTF8CHAR_PTR)"1234",4));
  printf("objects before: %d\n", countAll(s));
  // 1. failed C_CreateObject of token object: bad attribute last
  CK_OBJECT_CLASS cls=CKO_DATA; CK_BBOOL t=CK_TRUE,f=CK_FALSE; CK_ULONG bogus=5;
  CK_ATTRIBUTE bad[]={{CKA_CLASS,&cls,sizeof cls},{CKA_TOKEN,&t,1},{CKA_PRIVATE,&f,1},{CKA_LABEL,(void*)"x",1},{CKA_MODULUS_BITS,&bogus,sizeof bogus}};
  CK_OBJECT_HANDLE o=0; CHK(p->C_CreateObject(s,bad,5,&o));
  printf("objects after failed token create: %d\n", countAll(s));
  system("ls -la /tmp/probe/tokens/*/");
  bad[1].pValue=&f; CHK(p->C_CreateObject(s,bad,5,&o));
  printf("objects after failed session create: %d\n", countAll(s));
  // 2. session object rollback
  CK_ATTRIBUTE good[]={{CKA_CLASS,&cls,sizeof cls},{CKA_TOKEN,&f,1},{CKA_PRIVATE,&f,1},{CKA_LABEL,(void*)"old",3},{CKA_VALUE,(void*)"val",3}};
  CHK(p->C_CreateObject(s,good,5,&o));
  CK_ATTRIBUTE set[]={{CKA_LABEL,(void*)"new",3},{CKA_VALUE,(void*)"zzz",3}};
  CHK(p->C_SetAttributeValue(s,o,set,2));
  char buf[16]={0}; CK_ATTRIBUTE get[]={{CKA_LABEL,buf,16}}; CHK(p->C_GetAttributeValue(s,o,get,1)); printf("session obj label now: %.*s\n",(int)get[0].ulValueLen,buf);
  good[1].pValue=&t; CHK(p->C_CreateObject(s,good,5,&o));
  CHK(p->C_SetAttributeValue(s,o,set,2));
  memset(buf,0,16); get[0].ulValueLen=16; CHK(p->C_GetAttributeValue(s,o,get,1)); printf("token obj label now: %.*s\n",(int)get[0].ulValueLen,buf);
  // 3. private cert w/ start date
  CK_OBJECT_CLASS kc=CKO_SECRET_KEY; CK_KEY_TYPE kt=CKK_AES; CK_DATE d; memcpy(&d,"20250101",8); unsigned char key[16]={1,2,3};
  CK_ATTRIBUTE k[]={{CKA_CLASS,&kc,sizeof kc},{CKA_KEY_TYPE,&kt,sizeof kt},{CKA_TOKEN,&t,1},{CKA_PRIVATE,&t,1},{CKA_VALUE,key,16},{CKA_START_DATE,&d,8}};
  CHK(p->C_CreateObject(s,k,6,&o));
  CK_DATE d2; CK_ATTRIBUTE gd[]={{CKA_START_DATE,&d2,8}}; CHK(p->C_GetAttributeValue(s,o,gd,1)); printf("len=%ld\n",(long)gd[0].ulValueLen);
  CHK(p->C_Finalize(NULL));
}
