SPECIFICATION Spec
CONSTANTS Procs = {1, 2}
Attrs = {1, 2}
NCalls = 2
RefreshUnderTxLock = FALSE
INVARIANT CrashOldOrNew
CHECK_DEADLOCK FALSE
