---------------------------- MODULE SessH ----------------------------
EXTENDS Sess, Json
VARIABLE hist
HInit == Init /\ hist = <<>>
Rec(a, args) == [a |-> a, args |-> args, rv |-> lastRv', login |-> login']
HNext == \/ \E t \in Tokens, rw \in BOOLEAN : Open(t, rw) /\ hist' = Append(hist, Rec("Open", <<ToString(t), rw>>))
         \/ \E s \in sessions : Close(s) /\ hist' = Append(hist, Rec("Close", <<s.h>>))
         \/ \E s \in sessions : Logout(s) /\ hist' = Append(hist, Rec("Logout", <<s.h>>))
         \/ \E s \in sessions, u \in {"user","so"}, ok \in BOOLEAN : Login(s,u,ok) /\ hist' = Append(hist, Rec("Login", <<s.h, u, ok>>))
         \/ \E t \in Tokens : CloseAll(t) /\ hist' = Append(hist, Rec("CloseAll", <<ToString(t)>>))
HSpec == HInit /\ [][HNext]_<<vars, hist>>
Emit == (Len(hist) = 8) => PrintT(<<"TRACE", ToJson(hist)>>)
Bound == Len(hist) <= 8
=============================================================================
