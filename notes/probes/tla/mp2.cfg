SPECIFICATION Spec
CONSTANTS Procs = {1, 2}
Attrs = {1, 2}
NCalls = 2
RefreshUnderTxLock = TRUE
INVARIANT NoLostCommittedUpdate
CHECK_DEADLOCK FALSE
