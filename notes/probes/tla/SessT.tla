---------------------------- MODULE SessT ----------------------------
EXTENDS Sess, Json, IOUtils
VARIABLE l
T == ndJsonDeserialize(IOEnv.TRACE)
Tok(s) == CHOOSE t \in Tokens : ToString(t) = s
Sof(h) == CHOOSE s \in sessions : s.h = h
IsEv(a) == l <= Len(T) /\ T[l].a = a /\ l' = l + 1
Post == lastRv' = T[l].rv /\ \A t \in Tokens : login'[t] = T[l].login[ToString(t)]
TOpen == IsEv("Open") /\ Open(Tok(T[l].args[1]), T[l].args[2]) /\ Post
TClose == IsEv("Close") /\ (\E s \in sessions : s.h = T[l].args[1] /\ Close(s)) /\ Post
TLogout == IsEv("Logout") /\ (\E s \in sessions : s.h = T[l].args[1] /\ Logout(s)) /\ Post
TLogin == IsEv("Login") /\ (\E s \in sessions : s.h = T[l].args[1] /\ Login(s, T[l].args[2], T[l].args[3])) /\ Post
TCloseAll == IsEv("CloseAll") /\ CloseAll(Tok(T[l].args[1])) /\ Post
TReset == IsEv("Reset") /\ sessions' = {} /\ login' = [t \in Tokens |-> "none"] /\ next' = 1 /\ lastRv' = "OK"
TInit == Init /\ l = 1
TNext == TOpen \/ TClose \/ TLogout \/ TLogin \/ TCloseAll \/ TReset
TSpec == TInit /\ [][TNext]_<<vars, l>>
NotAccepted == l <= Len(T)
=============================================================================
