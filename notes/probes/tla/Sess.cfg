SPECIFICATION Spec
CONSTANTS Tokens = {t1, t2}
MaxH = 6
INVARIANTS NoROwithSO PublicIfNoSession
CHECK_DEADLOCK FALSE
