---------------------------- MODULE Sess ----------------------------
EXTENDS Naturals, FiniteSets, Sequences, TLC
CONSTANTS Tokens, MaxH
VARIABLES sessions, login, next, lastRv
vars == <<sessions, login, next, lastRv>>
\* sessions: set of records [h, tok, rw]; login: [Tokens -> {"none","user","so"}]
Init == sessions = {} /\ login = [t \in Tokens |-> "none"] /\ next = 1 /\ lastRv = "OK"
Open(t, rw) ==
  IF ~rw /\ login[t] = "so" THEN lastRv' = "RW_SO_EXISTS" /\ UNCHANGED <<sessions, login, next>>
  ELSE /\ next <= MaxH
       /\ sessions' = sessions \cup {[h |-> next, tok |-> t, rw |-> rw]}
       /\ next' = next + 1 /\ lastRv' = "OK" /\ UNCHANGED login
Close(s) == /\ sessions' = sessions \ {s}
            /\ login' = IF \E o \in sessions \ {s} : o.tok = s.tok THEN login ELSE [login EXCEPT ![s.tok] = "none"]
            /\ lastRv' = "OK" /\ UNCHANGED next
CloseAll(t) == /\ sessions' = {s \in sessions : s.tok # t} /\ login' = [login EXCEPT ![t] = "none"] /\ lastRv' = "OK" /\ UNCHANGED next
Login(s, u, ok) ==
  LET t == s.tok IN
  IF u = "so" /\ \E o \in sessions : o.tok = t /\ ~o.rw THEN lastRv' = "RO_EXISTS" /\ UNCHANGED <<sessions, login, next>>
  ELSE IF login[t] = u THEN lastRv' = "ALREADY" /\ UNCHANGED <<sessions, login, next>>
  ELSE IF login[t] # "none" THEN lastRv' = "ANOTHER" /\ UNCHANGED <<sessions, login, next>>
  ELSE IF ~ok THEN lastRv' = "PIN_INCORRECT" /\ UNCHANGED <<sessions, login, next>>
  ELSE login' = [login EXCEPT ![t] = u] /\ lastRv' = "OK" /\ UNCHANGED <<sessions, next>>
Logout(s) == login' = [login EXCEPT ![s.tok] = "none"] /\ lastRv' = "OK" /\ UNCHANGED <<sessions, next>>
Next == \/ \E t \in Tokens, rw \in BOOLEAN : Open(t, rw)
        \/ \E s \in sessions : Close(s) \/ Logout(s) \/ \E u \in {"user","so"}, ok \in BOOLEAN : Login(s,u,ok)
        \/ \E t \in Tokens : CloseAll(t)
Spec == Init /\ [][Next]_vars
NoROwithSO == \A s \in sessions : login[s.tok] = "so" => s.rw
PublicIfNoSession == \A t \in Tokens : (~\E s \in sessions : s.tok = t) => login[t] = "none"
=============================================================================
