SPECIFICATION TSpec
CONSTANTS Tokens = {t1, t2}
MaxH = 100
INVARIANT NotAccepted
CHECK_DEADLOCK FALSE
