SPECIFICATION HSpec
CONSTANTS Tokens = {t1, t2}
MaxH = 6
INVARIANTS NoROwithSO PublicIfNoSession
CONSTRAINT Emit
CHECK_DEADLOCK FALSE
