---------------------------- MODULE StoreMP ----------------------------
EXTENDS Naturals, FiniteSets, Sequences, TLC
CONSTANTS Procs, Attrs, NCalls, RefreshUnderTxLock
\* One shared object file X. disk.e or record [gen, attrs]. fcntl locks: objLock (writer or readers), txLock (exclusive on X.lock)
VARIABLES disk, objW, txLock, cache, pc, todo, done, committed, crashed
vars == <<disk, objW, txLock, cache, pc, todo, done, committed, crashed>>
Rec(g, a) == [gen |-> g, attrs |-> a, e |-> FALSE]
EmptyF == [gen |-> 0, attrs |-> [a \in Attrs |-> 0], e |-> TRUE]
Init == /\ disk = Rec(1, [a \in Attrs |-> 0])
        /\ objW = 0 /\ txLock = 0
        /\ cache = [p \in Procs |-> Rec(1, [a \in Attrs |-> 0])]
        /\ pc = [p \in Procs |-> "idle"]
        /\ todo = [p \in Procs |-> NCalls]
        /\ done = [p \in Procs |-> 0]
        /\ committed = [a \in Attrs |-> 0]     \* ghost: last value whose call returned OK
        /\ crashed = FALSE
\* each process p sets "its" attribute: a = p (Procs \subseteq Attrs) to done[p]+1
Mine(p) == p
Begin(p) == pc[p] = "idle" /\ todo[p] > 0 /\ pc' = [pc EXCEPT ![p] = "refresh"] /\ UNCHANGED <<disk, objW, txLock, cache, todo, done, committed, crashed>>
\* refresh = wasUpdated + reload under read lock (blocked while a writer of another process holds objW)
Refresh(p, next) ==
  /\ objW = 0
  /\ cache' = (IF disk.e THEN cache ELSE IF disk.gen # cache[p].gen THEN [cache EXCEPT ![p] = disk] ELSE cache)
  /\ pc' = [pc EXCEPT ![p] = next]
  /\ UNCHANGED <<disk, objW, txLock, todo, done, committed, crashed>>
DoRefresh(p) == pc[p] = "refresh" /\ Refresh(p, "txlock")
TxLock(p) == pc[p] = "txlock" /\ txLock = 0 /\ txLock' = p
             /\ pc' = [pc EXCEPT ![p] = IF RefreshUnderTxLock THEN "refresh2" ELSE "mem"]
             /\ UNCHANGED <<disk, objW, cache, todo, done, committed, crashed>>
DoRefresh2(p) == pc[p] = "refresh2" /\ Refresh(p, "mem")
Mem(p) == pc[p] = "mem" /\ cache' = [cache EXCEPT ![p].attrs[Mine(p)] = done[p] + 1]
          /\ pc' = [pc EXCEPT ![p] = "wlock"] /\ UNCHANGED <<disk, objW, txLock, todo, done, committed, crashed>>
WLock(p) == pc[p] = "wlock" /\ objW = 0 /\ objW' = p
            /\ cache' = [cache EXCEPT ![p].gen = IF disk.e THEN 0 ELSE disk.gen]   \* gen->sync
            /\ pc' = [pc EXCEPT ![p] = "trunc"] /\ UNCHANGED <<disk, txLock, todo, done, committed, crashed>>
Trunc(p) == pc[p] = "trunc" /\ disk' = EmptyF /\ pc' = [pc EXCEPT ![p] = "flush"]
            /\ UNCHANGED <<objW, txLock, cache, todo, done, committed, crashed>>
Flush(p) == pc[p] = "flush" /\ disk' = Rec(cache[p].gen + 1, cache[p].attrs)
            /\ cache' = [cache EXCEPT ![p].gen = cache[p].gen + 1]
            /\ objW' = 0 /\ pc' = [pc EXCEPT ![p] = "txunlock"]
            /\ UNCHANGED <<txLock, todo, done, committed, crashed>>
TxUnlock(p) == pc[p] = "txunlock" /\ txLock' = 0 /\ pc' = [pc EXCEPT ![p] = "idle"]
               /\ todo' = [todo EXCEPT ![p] = @ - 1] /\ done' = [done EXCEPT ![p] = @ + 1]
               /\ committed' = [committed EXCEPT ![Mine(p)] = done[p] + 1]
               /\ UNCHANGED <<disk, objW, cache, crashed>>
Step(p) == Begin(p) \/ DoRefresh(p) \/ TxLock(p) \/ DoRefresh2(p) \/ Mem(p) \/ WLock(p) \/ Trunc(p) \/ Flush(p) \/ TxUnlock(p)
Crash == ~crashed /\ crashed' = TRUE /\ pc' = [p \in Procs |-> "dead"] /\ objW' = 0 /\ txLock' = 0
         /\ UNCHANGED <<disk, cache, todo, done, committed>>
Next == (~crashed /\ \E p \in Procs : Step(p)) \/ Crash
Spec == Init /\ [][Next]_vars
Quiescent == \A p \in Procs : pc[p] = "idle"
NoLostCommittedUpdate == Quiescent => (~disk.e /\ \A a \in Procs : disk.attrs[a] = committed[a])
\* crash: after crash the file must be old-or-new, never empty
CrashOldOrNew == crashed => ~disk.e
=============================================================================
