#include <cstdio>
#include <cstring>
#include <cstdlib>
#include <dlfcn.h>
#include "cryptoki.h"
static CK_FUNCTION_LIST_PTR p;
#define CHK(x) do{CK_RV _r=(x); printf("%-70s -> 0x%lx\n", #x, _r);}while(0)
int main(){
  void* h=dlopen(getenv("P11LIB"),RTLD_NOW); 
  CK_C_GetFunctionList gfl=(CK_C_GetFunctionList)dlsym(h,"C_GetFunctionList"); gfl(&p);
  p->C_Initialize(NULL);
  CK_SLOT_ID slots[8]; CK_ULONG n=8; p->C_GetSlotList(CK_FALSE,NULL,&n); n=8; p->C_GetSlotList(CK_FALSE,slots,&n);
  CK_UTF8CHAR label[32]; memset(label,' ',32);
  p->C_InitToken(slots[n-1],(CK_UTF8CHAR_PTR)"sopin123",8,label);
  CK_SESSION_HANDLE s; p->C_OpenSession(slots[n-1],CKF_SERIAL_SESSION|CKF_RW_SESSION,NULL,NULL,&s);
  p->C_Login(s,CKU_SO,(CK_UTF8CHAR_PTR)"sopin123",8); p->C_InitPIN(s,(CK_UTF8CHAR_PTR)"1234",4); p->C_Logout(s);
  p->C_Login(s,CKU_USER,(CK_UTF8CHAR_PTR)"1234",4);
  CK_OBJECT_CLASS kc=CKO_SECRET_KEY; CK_KEY_TYPE kt=CKK_AES; CK_BBOOL t=CK_TRUE,f=CK_FALSE; unsigned char key[16]={1,2,3};
  CK_ATTRIBUTE k[]={{CKA_CLASS,&kc,sizeof kc},{CKA_KEY_TYPE,&kt,sizeof kt},{CKA_TOKEN,&f,1},{CKA_PRIVATE,&f,1},{CKA_VALUE,key,16},{CKA_ENCRYPT,&t,1},{CKA_DECRYPT,&t,1}};
  CK_OBJECT_HANDLE o; CHK(p->C_CreateObject(s,k,7,&o));
  unsigned char iv[16]={0}; CK_MECHANISM m={CKM_AES_CBC_PAD,iv,16};
  CHK(p->C_DecryptInit(s,&m,o));
  CK_ULONG len=0; CHK(p->C_DecryptFinal(s,NULL,&len)); printf("len=%lu (0x%lx)\n",len,len);
  unsigned char out[64]; len=64; CHK(p->C_DecryptFinal(s,out,&len)); printf("len=%lu (0x%lx)\n",len,len);
  CHK(p->C_DecryptInit(s,&m,o));
  p->C_Finalize(NULL);
}
