#include <cstdio>
#include <cstring>
#include <cstdlib>
#include <unistd.h>
#include <sys/wait.h>
#include <dlfcn.h>
#include "cryptoki.h"
static CK_FUNCTION_LIST_PTR p;
static void load(){ void* h=dlopen(getenv("P11LIB"),RTLD_NOW); CK_C_GetFunctionList gfl=(CK_C_GetFunctionList)dlsym(h,"C_GetFunctionList"); gfl(&p); }
static CK_SLOT_ID slot0(){ CK_SLOT_ID slots[8]; CK_ULONG n=8; p->C_GetSlotList(CK_FALSE,NULL,&n); n=8; p->C_GetSlotList(CK_FALSE,slots,&n); return slots[0]; }
int worker(int who,int iters){
  load(); p->C_Initialize(NULL); CK_SESSION_HANDLE s; p->C_OpenSession(slot0(),CKF_SERIAL_SESSION|CKF_RW_SESSION,NULL,NULL,&s);
  p->C_Login(s,CKU_USER,(CK_UTF8CHAR_PTR)"1234",4);
  CK_OBJECT_CLASS cls=CKO_SECRET_KEY; CK_ATTRIBUTE ft[]={{CKA_CLASS,&cls,sizeof cls}}; p->C_FindObjectsInit(s,ft,1); CK_OBJECT_HANDLE o=0; CK_ULONG n=0; p->C_FindObjects(s,&o,1,&n); p->C_FindObjectsFinal(s);
  if(!n){ printf("worker %d: no object\n",who); return 2; }
  CK_ATTRIBUTE_TYPE mine = who? CKA_LABEL : CKA_ID; int lost=0, fails=0;
  for(int i=1;i<=iters;i++){ char v[16]; int l=snprintf(v,16,"%d",i); CK_ATTRIBUTE st[]={{mine,v,(CK_ULONG)l}};
    CK_RV rv=p->C_SetAttributeValue(s,o,st,1); if(rv!=CKR_OK){fails++; continue;}
    char b[16]={0}; CK_ATTRIBUTE gt[]={{mine,b,16}}; rv=p->C_GetAttributeValue(s,o,gt,1);
    if(rv==CKR_OK && ((int)gt[0].ulValueLen!=l || memcmp(b,v,l))) { lost++; if(lost<=3) printf("worker %d: after OK set of %s, read back '%.*s'\n",who,v,(int)gt[0].ulValueLen,b);} }
  printf("worker %d: iterations=%d failed_sets=%d lost_updates_observed=%d\n",who,iters,fails,lost);
  p->C_Finalize(NULL); return 0;
}
int main(int argc,char**argv){
  if(argc>1) return worker(atoi(argv[1]),atoi(argv[2]));
  load(); p->C_Initialize(NULL);
  CK_SLOT_ID sl=slot0(); CK_UTF8CHAR label[32]; memset(label,' ',32);
  p->C_InitToken(sl,(CK_UTF8CHAR_PTR)"sopin123",8,label);
  CK_SESSION_HANDLE s; p->C_OpenSession(sl,CKF_SERIAL_SESSION|CKF_RW_SESSION,NULL,NULL,&s);
  p->C_Login(s,CKU_SO,(CK_UTF8CHAR_PTR)"sopin123",8); p->C_InitPIN(s,(CK_UTF8CHAR_PTR)"1234",4); p->C_Logout(s);
  p->C_Login(s,CKU_USER,(CK_UTF8CHAR_PTR)"1234",4);
  CK_OBJECT_CLASS cls=CKO_SECRET_KEY; CK_KEY_TYPE kt=CKK_GENERIC_SECRET; CK_BBOOL t=CK_TRUE,f=CK_FALSE; CK_ATTRIBUTE good[]={{CKA_CLASS,&cls,sizeof cls},{CKA_KEY_TYPE,&kt,sizeof kt},{CKA_TOKEN,&t,1},{CKA_PRIVATE,&f,1},{CKA_LABEL,(void*)"0",1},{CKA_ID,(void*)"0",1},{CKA_VALUE,(void*)"0123456789abcdef",16}};
  CK_OBJECT_HANDLE o; printf("create rv=%lx\n",p->C_CreateObject(s,good,7,&o)); p->C_Finalize(NULL); return 0;
}
