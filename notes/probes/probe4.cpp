#include <cstdio>
#include <cstring>
#include <cstdlib>
#include <string>
#include <dlfcn.h>
#include "cryptoki.h"
static CK_FUNCTION_LIST_PTR p;
#define CHK(x) do{CK_RV _r=(x); printf("%-78s -> 0x%lx\n", #x, _r);}while(0)
static int countAll(CK_SESSION_HANDLE s, CK_OBJECT_HANDLE* first=NULL){ p->C_FindObjectsInit(s,NULL,0); CK_OBJECT_HANDLE h[64]; CK_ULONG n=0; p->C_FindObjects(s,h,64,&n); p->C_FindObjectsFinal(s); if(first&&n) *first=h[0]; return (int)n;}
int main(int argc,char**argv){
  void* h=dlopen(getenv("P11LIB"),RTLD_NOW); 
  CK_C_GetFunctionList gfl=(CK_C_GetFunctionList)dlsym(h,"C_GetFunctionList"); gfl(&p);
  p->C_Initialize(NULL);
  CK_SLOT_ID slots[8]; CK_ULONG n=8; p->C_GetSlotList(CK_FALSE,NULL,&n); n=8; p->C_GetSlotList(CK_FALSE,slots,&n);
  CK_BBOOL t=CK_TRUE,f=CK_FALSE;
  if(argc>1 && !strcmp(argv[1],"phase2")){
    CK_SESSION_HANDLE s; CHK(p->C_OpenSession(slots[0],CKF_SERIAL_SESSION|CKF_RW_SESSION,NULL,NULL,&s));
    CHK(p->C_Login(s,CKU_USER,(CK_UTF8CHAR_PTR)"1234",4));
    CK_OBJECT_HANDLE o=0; int c=countAll(s,&o); printf("objects visible after truncation: %d\n",c);
    if(c){ CK_OBJECT_CLASS cl=77; CK_ATTRIBUTE g[]={{CKA_CLASS,&cl,sizeof cl}}; CHK(p->C_GetAttributeValue(s,o,g,1)); printf("class=%lu\n",cl);}    
    p->C_Finalize(NULL); return 0;
  }
  CK_UTF8CHAR label[32]; memset(label,' ',32);
  p->C_InitToken(slots[n-1],(CK_UTF8CHAR_PTR)"sopin123",8,label);
  CK_SESSION_HANDLE s; p->C_OpenSession(slots[n-1],CKF_SERIAL_SESSION|CKF_RW_SESSION,NULL,NULL,&s);
  p->C_Login(s,CKU_SO,(CK_UTF8CHAR_PTR)"sopin123",8); p->C_InitPIN(s,(CK_UTF8CHAR_PTR)"1234",4); p->C_Logout(s);
  p->C_Login(s,CKU_USER,(CK_UTF8CHAR_PTR)"1234",4);
  // #8: concat base-and-key with generated sensitive unextractable keys
  CK_MECHANISM mg={CKM_GENERIC_SECRET_KEY_GEN,NULL,0}; CK_ULONG vl=16;
  CK_ATTRIBUTE gt[]={{CKA_VALUE_LEN,&vl,sizeof vl},{CKA_TOKEN,&f,1},{CKA_DERIVE,&t,1},{CKA_EXTRACTABLE,&f,1},{CKA_SENSITIVE,&f,1}};
  CK_OBJECT_HANDLE k1=0,k2=0; CHK(p->C_GenerateKey(s,&mg,gt,5,&k1)); CHK(p->C_GenerateKey(s,&mg,gt,5,&k2));
  CK_BBOOL as=9,ne=9,se=9,ex=9; CK_ATTRIBUTE gb[]={{CKA_ALWAYS_SENSITIVE,&as,1},{CKA_NEVER_EXTRACTABLE,&ne,1},{CKA_SENSITIVE,&se,1},{CKA_EXTRACTABLE,&ex,1}}; p->C_GetAttributeValue(s,k1,gb,4); printf("base:    always_sens=%d never_extr=%d sens=%d extr=%d\n",as,ne,se,ex);
  CK_MECHANISM mc={CKM_CONCATENATE_BASE_AND_KEY,&k2,sizeof k2}; CK_OBJECT_CLASS kc=CKO_SECRET_KEY; CK_KEY_TYPE kt=CKK_GENERIC_SECRET;
  CK_ATTRIBUTE dt[]={{CKA_CLASS,&kc,sizeof kc},{CKA_KEY_TYPE,&kt,sizeof kt},{CKA_TOKEN,&f,1}};
  CK_OBJECT_HANDLE dk=0; CHK(p->C_DeriveKey(s,&mc,k1,dt,3,&dk));
  as=ne=se=ex=9; CHK(p->C_GetAttributeValue(s,dk,gb,4)); printf("derived: always_sens=%d never_extr=%d sens=%d extr=%d   (PKCS#11: never_extr = both bases never_extr = 1; always_sens = both = 0)\n",as,ne,se,ex);
  // KCV of derived AES key via AES_ECB_ENCRYPT_DATA vs ECB(0)
  CK_MECHANISM ma={CKM_AES_KEY_GEN,NULL,0}; CK_ATTRIBUTE at[]={{CKA_VALUE_LEN,&vl,sizeof vl},{CKA_TOKEN,&f,1},{CKA_DERIVE,&t,1},{CKA_ENCRYPT,&t,1}};
  CK_OBJECT_HANDLE ak=0; CHK(p->C_GenerateKey(s,&ma,at,4,&ak));
  unsigned char data[16]={5,5,5}; CK_KEY_DERIVATION_STRING_DATA sd={data,16}; CK_MECHANISM med={CKM_AES_ECB_ENCRYPT_DATA,&sd,sizeof sd}; CK_KEY_TYPE ka=CKK_AES; unsigned char kcvbuf[3]={0};
  CK_ATTRIBUTE dta[]={{CKA_CLASS,&kc,sizeof kc},{CKA_KEY_TYPE,&ka,sizeof ka},{CKA_TOKEN,&f,1},{CKA_ENCRYPT,&t,1},{CKA_VALUE_LEN,&vl,sizeof vl},{CKA_CHECK_VALUE,kcvbuf,0}};
  CK_OBJECT_HANDLE da=0; CHK(p->C_DeriveKey(s,&med,ak,dta,5,&da));
  unsigned char kcv[8]={0}; CK_ATTRIBUTE gk[]={{CKA_CHECK_VALUE,kcv,8}}; CHK(p->C_GetAttributeValue(s,da,gk,1)); printf("derived AES kcv len=%lu %02x%02x%02x\n",gk[0].ulValueLen,kcv[0],kcv[1],kcv[2]);
  CK_MECHANISM me={CKM_AES_ECB,NULL,0}; CHK(p->C_EncryptInit(s,&me,da)); unsigned char z[16]={0},o[16]; CK_ULONG ol=16; CHK(p->C_Encrypt(s,z,16,o,&ol)); printf("ECB(0)[0:3]      =      %02x%02x%02x\n",o[0],o[1],o[2]);
  // token object for phase 2 and copy test
  CK_OBJECT_CLASS cls=CKO_DATA; CK_ATTRIBUTE good[]={{CKA_CLASS,&cls,sizeof cls},{CKA_TOKEN,&t,1},{CKA_PRIVATE,&t,1},{CKA_LABEL,(void*)"lbl",3},{CKA_VALUE,(void*)"val",3}};
  CK_OBJECT_HANDLE ob=0,cp=0; CHK(p->C_CreateObject(s,good,5,&ob));
  CK_ATTRIBUTE none[]={{CKA_LABEL,(void*)"cpy",3}}; CHK(p->C_CopyObject(s,ob,none,1,&cp));
  char b1[8]={0},b2[8]={0}; CK_ATTRIBUTE gc[]={{CKA_LABEL,b1,8},{CKA_VALUE,b2,8}}; CHK(p->C_GetAttributeValue(s,cp,gc,2)); printf("copy: label=%.*s value=%.*s (len %ld)\n",(int)gc[0].ulValueLen,b1,(int)gc[1].ulValueLen>0?(int)gc[1].ulValueLen:0,b2,(long)gc[1].ulValueLen);
  p->C_Finalize(NULL);
}
