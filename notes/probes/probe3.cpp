#include <cstdio>
#include <cstring>
#include <cstdlib>
#include <dlfcn.h>
#include "cryptoki.h"
static CK_FUNCTION_LIST_PTR p;
#define CHK(x) do{CK_RV _r=(x); printf("%-78s -> 0x%lx\n", #x, _r);}while(0)
int main(){
  void* h=dlopen(getenv("P11LIB"),RTLD_NOW); 
  CK_C_GetFunctionList gfl=(CK_C_GetFunctionList)dlsym(h,"C_GetFunctionList"); gfl(&p);
  p->C_Initialize(NULL);
  CK_SLOT_ID slots[8]; CK_ULONG n=8; p->C_GetSlotList(CK_FALSE,NULL,&n); n=8; p->C_GetSlotList(CK_FALSE,slots,&n);
  CK_UTF8CHAR label[32]; memset(label,' ',32);
  p->C_InitToken(slots[n-1],(CK_UTF8CHAR_PTR)"sopin123",8,label);
  CK_SESSION_HANDLE s; p->C_OpenSession(slots[n-1],CKF_SERIAL_SESSION|CKF_RW_SESSION,NULL,NULL,&s);
  p->C_Login(s,CKU_SO,(CK_UTF8CHAR_PTR)"sopin123",8); p->C_InitPIN(s,(CK_UTF8CHAR_PTR)"1234",4); p->C_Logout(s);
  p->C_Login(s,CKU_USER,(CK_UTF8CHAR_PTR)"1234",4);
  CK_BBOOL t=CK_TRUE,f=CK_FALSE;
  // config-removed mechanisms
  CK_MECHANISM md={CKM_SHA256,NULL,0}; CHK(p->C_DigestInit(s,&md)); unsigned char dg[32]; CK_ULONG dl=32; p->C_Digest(s,(CK_BYTE_PTR)"a",1,dg,&dl);
  CK_MECHANISM mg={CKM_AES_KEY_GEN,NULL,0}; CK_ULONG vl=16; CK_ATTRIBUTE gt[]={{CKA_VALUE_LEN,&vl,sizeof vl},{CKA_TOKEN,&f,1},{CKA_ENCRYPT,&t,1},{CKA_DECRYPT,&t,1},{CKA_DERIVE,&t,1},{CKA_EXTRACTABLE,&t,1},{CKA_SENSITIVE,&f,1},{CKA_WRAP,&t,1}};
  CK_OBJECT_HANDLE k1=0,k2=0; CHK(p->C_GenerateKey(s,&mg,gt,8,&k1)); CHK(p->C_GenerateKey(s,&mg,gt,8,&k2));
  CK_MECHANISM me={CKM_AES_ECB,NULL,0}; CHK(p->C_EncryptInit(s,&me,k1));
  // RSA keypair with allowed mechanisms excluding RSA_PKCS
  CK_MECHANISM mr={CKM_RSA_PKCS_KEY_PAIR_GEN,NULL,0}; CK_ULONG bits=1024; unsigned char e[]={1,0,1}; CK_MECHANISM_TYPE am[]={CKM_SHA256_RSA_PKCS};
  CK_ATTRIBUTE pub[]={{CKA_MODULUS_BITS,&bits,sizeof bits},{CKA_PUBLIC_EXPONENT,e,3},{CKA_ENCRYPT,&t,1},{CKA_VERIFY,&t,1},{CKA_TOKEN,&f,1},{CKA_ALLOWED_MECHANISMS,am,sizeof am}};
  CK_ATTRIBUTE prv[]={{CKA_DECRYPT,&t,1},{CKA_SIGN,&t,1},{CKA_TOKEN,&f,1},{CKA_ALLOWED_MECHANISMS,am,sizeof am}};
  CK_OBJECT_HANDLE hp=0,hs=0; CHK(p->C_GenerateKeyPair(s,&mr,pub,6,prv,4,&hp,&hs));
  CK_MECHANISM mrp={CKM_RSA_PKCS,NULL,0};
  CHK(p->C_EncryptInit(s,&mrp,hp));  // expected MECHANISM_INVALID (0x70) per C07
  unsigned char ct[128]; CK_ULONG cl=128; CHK(p->C_Encrypt(s,(CK_BYTE_PTR)"hello",5,ct,&cl));
  CHK(p->C_DecryptInit(s,&mrp,hs));  // expected 0x70
  CHK(p->C_SignInit(s,&mrp,hs));     // expected 0x70
  // concat base and key
  CK_MECHANISM mc={CKM_CONCATENATE_BASE_AND_KEY,&k2,sizeof k2}; CK_OBJECT_CLASS kc=CKO_SECRET_KEY; CK_KEY_TYPE kt=CKK_AES; CK_ULONG l32=32;
  CK_ATTRIBUTE dt[]={{CKA_CLASS,&kc,sizeof kc},{CKA_KEY_TYPE,&kt,sizeof kt},{CKA_VALUE_LEN,&l32,sizeof l32},{CKA_TOKEN,&f,1},{CKA_EXTRACTABLE,&t,1},{CKA_SENSITIVE,&f,1},{CKA_ENCRYPT,&t,1}};
  CK_OBJECT_HANDLE dk=0; CHK(p->C_DeriveKey(s,&mc,k1,dt,7,&dk));
  CK_BBOOL as=9,ne=9,se=9,ex=9; unsigned char kcv[8]; CK_ATTRIBUTE ga[]={{CKA_ALWAYS_SENSITIVE,&as,1},{CKA_NEVER_EXTRACTABLE,&ne,1},{CKA_SENSITIVE,&se,1},{CKA_EXTRACTABLE,&ex,1},{CKA_CHECK_VALUE,kcv,8}};
  CHK(p->C_GetAttributeValue(s,dk,ga,5)); printf("derived: always_sens=%d never_extr=%d sens=%d extr=%d kcvlen=%lu kcv=%02x%02x%02x\n",as,ne,se,ex,ga[4].ulValueLen,kcv[0],kcv[1],kcv[2]);
  CK_ATTRIBUTE gb[]={{CKA_ALWAYS_SENSITIVE,&as,1},{CKA_NEVER_EXTRACTABLE,&ne,1}}; p->C_GetAttributeValue(s,k1,gb,2); printf("base: always_sens=%d never_extr=%d\n",as,ne);
  // KCV law: first 3 bytes of ECB(zero block) under derived key
  CHK(p->C_EncryptInit(s,&me,dk)); unsigned char z[16]={0},o[16]; CK_ULONG ol=16; CHK(p->C_Encrypt(s,z,16,o,&ol)); printf("ECB(0)[0:3]=%02x%02x%02x\n",o[0],o[1],o[2]);
  // wrap with CKM_AES_CBC two different IVs
  unsigned char iv1[16]={0},iv2[16]={1,2,3}; CK_MECHANISM w1={CKM_AES_CBC,iv1,16},w2={CKM_AES_CBC,iv2,16}; unsigned char b1[64],b2[64]; CK_ULONG l1=64,l2=64;
  CHK(p->C_WrapKey(s,&w1,k1,k2,b1,&l1)); CHK(p->C_WrapKey(s,&w2,k1,k2,b2,&l2)); printf("AES_CBC wrap: same output for different IVs: %s\n", (l1==l2&&!memcmp(b1,b2,l1))?"YES":"no");
  p->C_Finalize(NULL);
}
