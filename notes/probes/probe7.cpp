#include <cstdio>
#include <cstring>
#include <cstdlib>
#include <dlfcn.h>
#include "cryptoki.h"
static CK_FUNCTION_LIST_PTR p;
#define CHK(x) do{CK_RV _r=(x); fprintf(stderr,"%-70s -> 0x%lx\n", #x, _r);}while(0)
int main(int argc,char**argv){
  void* h=dlopen(getenv("P11LIB"),RTLD_NOW); CK_C_GetFunctionList gfl=(CK_C_GetFunctionList)dlsym(h,"C_GetFunctionList"); gfl(&p);
  CHK(p->C_Initialize(NULL));
  CK_SLOT_ID slots[8]; CK_ULONG n=8; p->C_GetSlotList(CK_FALSE,NULL,&n); n=8; p->C_GetSlotList(CK_FALSE,slots,&n);
  CK_SESSION_HANDLE s; CK_TOKEN_INFO ti;
  if(argc>1 && !strcmp(argv[1],"wronglogin")){ p->C_OpenSession(slots[0],CKF_SERIAL_SESSION|CKF_RW_SESSION,NULL,NULL,&s); CHK(p->C_Login(s,CKU_USER,(CK_UTF8CHAR_PTR)"9999",4)); p->C_Finalize(NULL); return 0; }
  if(argc>1 && !strcmp(argv[1],"check")){ fprintf(stderr,"slots=%lu\n",n); CK_RV r=p->C_GetTokenInfo(slots[0],&ti); fprintf(stderr,"tokeninfo rv=0x%lx flags=0x%lx (TOKEN_INITIALIZED=%d USER_PIN_INITIALIZED=%d)\n",r,ti.flags,!!(ti.flags&CKF_TOKEN_INITIALIZED),!!(ti.flags&CKF_USER_PIN_INITIALIZED));
    CHK(p->C_OpenSession(slots[0],CKF_SERIAL_SESSION|CKF_RW_SESSION,NULL,NULL,&s)); CHK(p->C_Login(s,CKU_USER,(CK_UTF8CHAR_PTR)"1234",4)); p->C_Finalize(NULL); return 0; }
  CK_UTF8CHAR label[32]; memset(label,' ',32);
  p->C_InitToken(slots[n-1],(CK_UTF8CHAR_PTR)"sopin123",8,label);
  p->C_OpenSession(slots[n-1],CKF_SERIAL_SESSION|CKF_RW_SESSION,NULL,NULL,&s);
  p->C_Login(s,CKU_SO,(CK_UTF8CHAR_PTR)"sopin123",8); p->C_InitPIN(s,(CK_UTF8CHAR_PTR)"1234",4); p->C_Logout(s);
  p->C_Finalize(NULL);
}
