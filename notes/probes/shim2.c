#define _GNU_SOURCE
#include <dlfcn.h>
#include <stdio.h>
#include <unistd.h>
#include <string.h>
#include <stdlib.h>
#include <sys/stat.h>
/* crash (process death) immediately before the n-th fflush of a file whose path contains CRASH_PATH, once armed by env */
static int cnt=0;
static const char* fdpath(int fd){ static char p[256],l[64]; snprintf(l,sizeof l,"/proc/self/fd/%d",fd); ssize_t r=readlink(l,p,255); if(r<0) return "?"; p[r]=0; return p; }
int fflush(FILE*f){
  const char* pat=getenv("CRASH_PATH"); const char* n=getenv("CRASH_AT");
  if(f && pat && n && f!=stdout && f!=stderr && strstr(fdpath(fileno(f)),pat)){
    long pos=ftell(f);
    struct stat st; fstat(fileno(f),&st); if(pos>0 && st.st_size==0 && ++cnt==atoi(n)) { fprintf(stderr,"[shim] dying before fflush #%d of %s (buffered %ld bytes lost)\n",cnt,fdpath(fileno(f)),pos); _exit(137); }
  }
  return ((int(*)(FILE*))dlsym(RTLD_NEXT,"fflush"))(f);
}
