#include <cstdio>
#include <cstring>
#include <cstdlib>
#include <signal.h>
#include <sys/resource.h>
#include <dlfcn.h>
#include "cryptoki.h"
static CK_FUNCTION_LIST_PTR p;
#define CHK(x) do{CK_RV _r=(x); printf("%-70s -> 0x%lx\n", #x, _r);}while(0)
int main(int argc,char**argv){
  void* h=dlopen(getenv("P11LIB"),RTLD_NOW); CK_C_GetFunctionList gfl=(CK_C_GetFunctionList)dlsym(h,"C_GetFunctionList"); gfl(&p);
  p->C_Initialize(NULL);
  CK_SLOT_ID slots[8]; CK_ULONG n=8; p->C_GetSlotList(CK_FALSE,NULL,&n); n=8; p->C_GetSlotList(CK_FALSE,slots,&n);
  CK_SESSION_HANDLE s; 
  if(argc>1){ p->C_OpenSession(slots[0],CKF_SERIAL_SESSION|CKF_RW_SESSION,NULL,NULL,&s); CHK(p->C_Login(s,CKU_USER,(CK_UTF8CHAR_PTR)"1234",4));
    CK_OBJECT_CLASS cls=CKO_SECRET_KEY; CK_ATTRIBUTE ft[]={{CKA_CLASS,&cls,sizeof cls}}; p->C_FindObjectsInit(s,ft,1); CK_OBJECT_HANDLE o=0; CK_ULONG k=0; p->C_FindObjects(s,&o,1,&k); p->C_FindObjectsFinal(s);
    printf("phase2: found %lu key objects\n",k); if(k){ char b[16]={0}; CK_ATTRIBUTE gt[]={{CKA_LABEL,b,16}}; CHK(p->C_GetAttributeValue(s,o,gt,1)); printf("label after restart: '%.*s'\n",(int)gt[0].ulValueLen,b);} p->C_Finalize(NULL); return 0; }
  CK_UTF8CHAR label[32]; memset(label,' ',32);
  p->C_InitToken(slots[n-1],(CK_UTF8CHAR_PTR)"sopin123",8,label);
  p->C_OpenSession(slots[n-1],CKF_SERIAL_SESSION|CKF_RW_SESSION,NULL,NULL,&s);
  p->C_Login(s,CKU_SO,(CK_UTF8CHAR_PTR)"sopin123",8); p->C_InitPIN(s,(CK_UTF8CHAR_PTR)"1234",4); p->C_Logout(s);
  p->C_Login(s,CKU_USER,(CK_UTF8CHAR_PTR)"1234",4);
  CK_OBJECT_CLASS cls=CKO_SECRET_KEY; CK_KEY_TYPE kt=CKK_GENERIC_SECRET; CK_BBOOL t=CK_TRUE,f=CK_FALSE; CK_ATTRIBUTE good[]={{CKA_CLASS,&cls,sizeof cls},{CKA_KEY_TYPE,&kt,sizeof kt},{CKA_TOKEN,&t,1},{CKA_PRIVATE,&f,1},{CKA_LABEL,(void*)"old",3},{CKA_VALUE,(void*)"0123456789abcdef",16}};
  CK_OBJECT_HANDLE o; CHK(p->C_CreateObject(s,good,6,&o));
  signal(SIGXFSZ,SIG_IGN); struct rlimit rl0; getrlimit(RLIMIT_FSIZE,&rl0); struct rlimit rl={64,rl0.rlim_max}; setrlimit(RLIMIT_FSIZE,&rl); CK_RV r1,r2,r3; char b[16]={0}; CK_ATTRIBUTE st[]={{CKA_LABEL,(void*)"new",3}}; CK_ATTRIBUTE gt[]={{CKA_LABEL,b,16}}; CK_OBJECT_HANDLE o2=0; r1=p->C_SetAttributeValue(s,o,st,1); r2=p->C_GetAttributeValue(s,o,gt,1); good[4].pValue=(void*)"two"; r3=p->C_CreateObject(s,good,6,&o2); setrlimit(RLIMIT_FSIZE,&rl0); printf("under 64-byte file size limit: C_SetAttributeValue -> 0x%lx, readback rv 0x%lx label %.*s, C_CreateObject -> 0x%lx\n",r1,r2,(int)gt[0].ulValueLen,b,r3); p->C_Finalize(NULL); return 0;
}
