#define _GNU_SOURCE
#include <dlfcn.h>
#include <stdio.h>
#include <stdarg.h>
#include <fcntl.h>
#include <unistd.h>
#include <string.h>
#include <stdlib.h>
static int n=0;
static void logev(const char*op,const char*p){ char b[512]; int k=snprintf(b,sizeof b,"%d %s %s\n",++n,op,p?p:""); const char* f=getenv("SHIMLOG"); if(!f) return; int fd=((int(*)(const char*,int,...))dlsym(RTLD_NEXT,"open"))(f,O_WRONLY|O_APPEND|O_CREAT,0600); if(fd>=0){ if(write(fd,b,k)){} close(fd);} }
static const char* fdpath(int fd){ static char p[256],l[64]; snprintf(l,sizeof l,"/proc/self/fd/%d",fd); ssize_t r=readlink(l,p,255); if(r<0) return "?"; p[r]=0; return p; }
int open(const char*path,int flags,...){ va_list a; va_start(a,flags); mode_t m=va_arg(a,int); va_end(a); int(*r)(const char*,int,...)=dlsym(RTLD_NEXT,"open"); if(strstr(path,"/tokens")) { char b[64]; snprintf(b,64,"open(%s%s)",(flags&O_TRUNC)?"T":"",(flags&O_CREAT)?"C":""); logev(b,path);} return r(path,flags,m); }
int ftruncate(int fd, off_t len){ logev("ftruncate",fdpath(fd)); return ((int(*)(int,off_t))dlsym(RTLD_NEXT,"ftruncate"))(fd,len); }
int fflush(FILE*f){ if(f && f!=stdout && f!=stderr) logev("fflush",fdpath(fileno(f))); return ((int(*)(FILE*))dlsym(RTLD_NEXT,"fflush"))(f); }
int fclose(FILE*f){ logev("fclose",fdpath(fileno(f))); return ((int(*)(FILE*))dlsym(RTLD_NEXT,"fclose"))(f); }
int remove(const char*p){ logev("remove",p); return ((int(*)(const char*))dlsym(RTLD_NEXT,"remove"))(p); }
int mkdir(const char*p, mode_t m){ logev("mkdir",p); return ((int(*)(const char*,mode_t))dlsym(RTLD_NEXT,"mkdir"))(p,m); }
int rmdir(const char*p){ logev("rmdir",p); return ((int(*)(const char*))dlsym(RTLD_NEXT,"rmdir"))(p); }
int fcntl(int fd,int cmd,...){ va_list a; va_start(a,cmd); void* arg=va_arg(a,void*); va_end(a); if(cmd==F_SETLK||cmd==F_SETLKW){ struct flock* fl=arg; logev(fl->l_type==F_UNLCK?"unlock":(fl->l_type==F_WRLCK?"wrlock":"rdlock"),fdpath(fd)); } return ((int(*)(int,int,...))dlsym(RTLD_NEXT,"fcntl"))(fd,cmd,arg); }
