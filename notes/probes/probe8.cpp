#include <cstdio>
#include <cstring>
#include <cstdlib>
#include <pthread.h>
#include <dlfcn.h>
#include <atomic>
#include "cryptoki.h"
static CK_FUNCTION_LIST_PTR p; static CK_SLOT_ID slot; static std::atomic<long> errs(0), dup(0); static int ITERS=300; static int TOKENOBJ=0;
static std::atomic<unsigned long> seen[1<<20];
void* worker(void* a){ long id=(long)a; 
  for(int i=0;i<ITERS;i++){
    CK_SESSION_HANDLE s; CK_RV rv=p->C_OpenSession(slot,CKF_SERIAL_SESSION|CKF_RW_SESSION,NULL,NULL,&s); if(rv){errs++; continue;}
    if(s<(1<<20)){ if(seen[s].fetch_add(1)) dup++; }
    rv=p->C_Login(s,CKU_USER,(CK_UTF8CHAR_PTR)"1234",4); // may be ALREADY_LOGGED_IN
    CK_OBJECT_CLASS cls=CKO_DATA; CK_BBOOL t=TOKENOBJ?CK_TRUE:CK_FALSE,f=CK_FALSE; char lab[32]; int l=snprintf(lab,32,"t%ld-%d",id,i);
    CK_ATTRIBUTE tp[]={{CKA_CLASS,&cls,sizeof cls},{CKA_TOKEN,&t,1},{CKA_PRIVATE,&f,1},{CKA_LABEL,lab,(CK_ULONG)l},{CKA_VALUE,lab,(CK_ULONG)l}};
    CK_OBJECT_HANDLE o=0; rv=p->C_CreateObject(s,tp,5,&o); if(rv){errs++; fprintf(stderr,"create rv=%lx\n",rv);} else { if(o<(1<<20)){ if(seen[o].fetch_add(1)) dup++; }
      CK_ATTRIBUTE ft[]={{CKA_LABEL,lab,(CK_ULONG)l}}; rv=p->C_FindObjectsInit(s,ft,1); CK_OBJECT_HANDLE h[4]; CK_ULONG n=0; if(!rv){ p->C_FindObjects(s,h,4,&n); p->C_FindObjectsFinal(s);} if(rv||n!=1||h[0]!=o){errs++; fprintf(stderr,"find rv=%lx n=%lu\n",rv,n);} 
      char b[32]; CK_ATTRIBUTE gt[]={{CKA_VALUE,b,32}}; rv=p->C_GetAttributeValue(s,o,gt,1); if(rv||gt[0].ulValueLen!=(CK_ULONG)l||memcmp(b,lab,l)){errs++; fprintf(stderr,"get rv=%lx\n",rv);} 
      rv=p->C_DestroyObject(s,o); if(rv){errs++; fprintf(stderr,"destroy rv=%lx\n",rv);} }
    rv=p->C_CloseSession(s); if(rv){errs++; fprintf(stderr,"close rv=%lx\n",rv);} }
  return NULL; }
int main(int argc,char**argv){ int T=atoi(argv[1]); ITERS=atoi(argv[2]); TOKENOBJ=atoi(argv[3]);
  void* h=dlopen(getenv("P11LIB"),RTLD_NOW); CK_C_GetFunctionList gfl=(CK_C_GetFunctionList)dlsym(h,"C_GetFunctionList"); gfl(&p);
  CK_C_INITIALIZE_ARGS ia; memset(&ia,0,sizeof ia); ia.flags=CKF_OS_LOCKING_OK; printf("init rv=%lx\n",p->C_Initialize(&ia));
  CK_SLOT_ID slots[8]; CK_ULONG n=8; p->C_GetSlotList(CK_FALSE,NULL,&n); n=8; p->C_GetSlotList(CK_FALSE,slots,&n);
  CK_UTF8CHAR label[32]; memset(label,' ',32); slot=slots[n-1];
  p->C_InitToken(slot,(CK_UTF8CHAR_PTR)"sopin123",8,label); CK_SESSION_HANDLE s; p->C_OpenSession(slot,CKF_SERIAL_SESSION|CKF_RW_SESSION,NULL,NULL,&s);
  p->C_Login(s,CKU_SO,(CK_UTF8CHAR_PTR)"sopin123",8); p->C_InitPIN(s,(CK_UTF8CHAR_PTR)"1234",4); p->C_Logout(s); p->C_CloseSession(s);
  pthread_t th[64]; for(long i=0;i<T;i++) pthread_create(&th[i],NULL,worker,(void*)i); for(int i=0;i<T;i++) pthread_join(th[i],NULL);
  printf("threads=%d iters=%d tokenobj=%d errors=%ld duplicate_handles=%ld\n",T,ITERS,TOKENOBJ,errs.load(),dup.load()); p->C_Finalize(NULL); }
