"""C12: one active operation per session and the output-length protocol (P11Ops)."""
import random

from vf import build, pipeline

ALLM = '{"ecb", "cbc", "cbcpad", "ctr", "gcm16", "gcm4", "des3pad", "des3ecb", "sha256", "sha1", "hmac", "cmac", ' \
       '"rsasig", "rsaraw", "rsapss", "ecdsa", "eddsa", "rsaenc", "rsaoaep", "find"}'
INV = ["TypeOK"]
PROPS = ["QueryKeepsOp"]


def c12(ctx):
    lib = build.libpath(build.build("ossl"))
    quick = ctx.tier == "quick"
    tc = {"Sessions": '{"s1", "s2"}'}
    graphs = [
        dict(name="c12-sym", constants=dict(Sessions='{"s1"}', ModeNames='{"cbcpad", "gcm4", "sha256", "rsasig"}',
                                            Lens="{0, 1, 16, 17}", Depth="4", Foreign="FALSE"),
             trace_constants=tc, driver_args=[lib], maxlen=10),
        dict(name="c12-mix", constants=dict(Sessions='{"s1"}', ModeNames='{"ecb", "ctr", "gcm16", "hmac", "rsaenc", "find"}',
                                            Lens="{0, 15, 16, 33}", Depth="3" if quick else "4", Foreign="TRUE"),
             trace_constants=tc, driver_args=[lib], maxlen=10),
    ]
    if not quick:
        graphs.append(dict(name="c12-two", constants=dict(Sessions='{"s1", "s2"}', ModeNames='{"cbcpad", "sha256"}',
                                                          Lens="{0, 16, 17}", Depth="4", Foreign="FALSE"),
                           trace_constants=tc, driver_args=[lib], maxlen=10))
        graphs.append(dict(name="c12-des", constants=dict(Sessions='{"s1"}', ModeNames='{"des3pad", "gcm4", "gcm16", "cmac", "ecdsa"}',
                                                          Lens="{0, 7, 8, 9, 16}", Depth="4", Foreign="FALSE"),
                           trace_constants=tc, driver_args=[lib], maxlen=10))
    r = pipeline.graphs_replay(ctx, "MC_Ops", "Trace_Ops", "vf.drv_ops", graphs, INV, PROPS, maxlen=10, jobs=15)
    simc = dict(Sessions='{"s1", "s2"}', ModeNames=ALLM, Lens="{0, 1, 7, 8, 15, 16, 17, 31, 32, 33, 100}", Foreign="TRUE")
    behs = pipeline.simulate(ctx, "MC_Ops", "c12-sim", simc, 2000 if quick else 40000, 10 if quick else 14,
                             invariants=INV, spec="Spec", workers=8)
    st = pipeline.replay_validate(ctx, "c12-sim", "vf.drv_ops", [lib], behs, "Trace_Ops", tc, invariants=INV, jobs=15)
    pipeline.report_rejections(ctx, "c12-sim", st, "vf.drv_ops", [lib])
    ok = dict(r["okcount"])
    for k, v in st.okcount.items():
        c = ok.setdefault(k, [0, 0])
        c[0] += v[0]
        c[1] += v[1]
    ctx.coverage.update(dict(
        states=r["states"], transitions=r["transitions"],
        traces_validated_against_impl=r["accepted"] + st.accepted, executions=r["executions"] + st.executions,
        events_validated=r["events"] + st.events, simulated_behaviours=len(behs),
        model_transitions_replayed=r["edges_replayed"], model_transitions_in_replayed_graphs=r["edges_total"],
        exhaustive=(r["edges_replayed"] == r["edges_total"]), calls_ok_failed_by_action=ok,
        samples=[s[:8] for s in r["samples"][:1]],
        rule="all interleavings of Init / single-part / Update / Final / length query / too-small buffer calls of every "
             "operation kind up to the depth bound (exhaustively for 4-5 modes in one session, by simulation for all 20 "
             "modes in two sessions, calls of other kinds included); every library call is one event with announced "
             "size, return value, reported length, bytes written and canary check; TLC keeps exact byte bookkeeping "
             "and accepts an outcome only if it obeys the protocol (bounded and sufficient lengths, query keeps the "
             "operation, failure ends it, no overrun)."))
    ctx.assumptions += ["input lengths from the listed classes around block boundaries",
                        "decryptions are fed valid ciphertext made through a scaffolding session, then random bytes"]
