"""C15: processes sharing a token directory (P11MP at call grain, StoreMP at file-operation grain)."""
import json
import os

from vf import build, pipeline, tlc
from vf.check import Broken, ROOT, active_known

SHIM = os.path.join(ROOT, "build", "fsshim.so")
DEVIATIONS = {"StaleCommit": ("Reload", "FALSE"), "Resurrect": ("Recreate", "TRUE")}
REQUIRED = {"Reload": "TRUE", "Recreate": "FALSE"}
ALLK = '{"set", "destroy", "get", "find"}'


def choice_sets(devs):
    c = {k: {v} for k, v in REQUIRED.items()}
    for d in devs:
        k, v = DEVIATIONS[d]
        c[k].add(v)
    return {k: "{" + ", ".join(sorted(v)) + "}" for k, v in c.items()}


def c15(ctx):
    lib = build.libpath(build.build("ossl"))
    quick = ctx.tier == "quick"
    if not os.path.exists(SHIM):
        raise Broken("build/fsshim.so is missing: run bin/setup.sh")
    known = {e["deviation"]: e for e in active_known(ctx.known) if e.get("deviation") in DEVIATIONS}
    cov = ctx.coverage

    # ---- 1. call grain: every interleaving of the calls of 2 (3) processes, replayed on real processes
    K5 = '{"create", "set", "get", "destroy", "find"}'
    graphs = [dict(name="c15-calls2", constants=dict(Procs="{1, 2}", MaxO="2", Vals="{0, 1}", NCalls="0", Logged="{1}", Kinds=K5),
                   trace_constants=dict(Procs="{1, 2, 3}", MaxO="6", Vals="{0, 1, 2}", NCalls="0", Logged="{1}", Kinds=K5),
                   driver_args=[lib, "2", "1"], maxlen=30, maxwalks=None)]
    # the same behaviours, but while one process is inside C_CreateObject the other one searches (results not looked at):
    # the calls that follow must still see exactly the committed state
    graphs.append(dict(graphs[0], name="c15-ovl", driver_args=[lib, "2", "1", "file", "overlap"],
                       maxwalks=1000 if quick else None))
    # a REFUSED C_SetAttributeValue in between must not change what a process sees of the others' later changes
    KB = '{"create", "badset", "get", "destroy", "find"}'
    graphs.append(dict(name="c15-badset", constants=dict(Procs="{1, 2}", MaxO="2", Vals="{0, 1}", NCalls="0", Logged="{1}", Kinds=KB),
                       trace_constants=dict(Procs="{1, 2, 3}", MaxO="6", Vals="{0, 1, 2}", NCalls="0", Logged="{1}", Kinds=KB),
                       driver_args=[lib, "2", "1"], maxlen=30, maxwalks=1200 if quick else None))
    if not quick:
        graphs.append(dict(name="c15-calls3", constants=dict(Procs="{1, 2, 3}", MaxO="2", Vals="{0, 1}", NCalls="0", Logged="{1, 3}",
                                                             Kinds=K5),
                           trace_constants=dict(Procs="{1, 2, 3}", MaxO="6", Vals="{0, 1, 2}", NCalls="0", Logged="{1, 3}", Kinds=K5),
                           driver_args=[lib, "3", "1,3"], maxlen=30, maxwalks=6000))
        graphs.append(dict(name="c15-calls2x3", constants=dict(Procs="{1, 2}", MaxO="3", Vals="{0, 1}", NCalls="0", Logged="{1, 2}",
                                                               Kinds=K5),
                           trace_constants=dict(Procs="{1, 2, 3}", MaxO="6", Vals="{0, 1, 2}", NCalls="0", Logged="{1, 2}", Kinds=K5),
                           driver_args=[lib, "2", "1,2"], maxlen=30, maxwalks=6000))
    r1 = pipeline.graphs_replay(ctx, "P11MP", "Trace_MP", "vf.drv_mp", graphs, ["TypeOK", "HandlesLegit"], ["DeadIsFinal"],
                                maxlen=30, jobs=15)

    # ---- 2. file-operation grain, design level: the required protocol keeps the properties (with crashes)
    req = dict(Procs="{1, 2}", NCalls="2", Kinds=ALLK, Atomic="TRUE", **{k: "{%s}" % v for k, v in REQUIRED.items()})
    res, _ = pipeline.model_check(ctx, "StoreMP", "storemp-required", req, spec="CrashSpec",
                                  invariants=["TypeOK", "NoLostCommittedUpdate", "DestroyedStaysDestroyed", "WriterExcludes",
                                              "CrashOldOrNew"])
    design = dict(states=res.distinct, transitions=res.generated)
    if not quick:
        req3 = dict(req, Procs="{1, 2, 3}", NCalls="1")
        res3, _ = pipeline.model_check(ctx, "StoreMP", "storemp-required3", req3, spec="CrashSpec",
                                       invariants=["TypeOK", "NoLostCommittedUpdate", "DestroyedStaysDestroyed", "WriterExcludes",
                                                   "CrashOldOrNew"])
        design["states"] += res3.distinct
        design["transitions"] += res3.generated

    # ---- 3. file-operation grain on real processes: schedules of the model with every choice open, gated by the shim;
    #         the trace must be a behaviour of the required protocol, or use only deviations listed as known findings
    allowed = choice_sets(known)
    every = dict(Reload="{TRUE, FALSE}", Recreate="{TRUE, FALSE}")
    fg = [dict(name="c15-fileops2", constants=dict(Procs="{1, 2}", NCalls="2", Kinds=ALLK, Atomic="FALSE", **every),
               trace_constants=dict(Procs="{1, 2, 3}", NCalls="99", Kinds=ALLK, Atomic="FALSE", **allowed),
               driver_args=[lib, SHIM, "2"], maxlen=60, maxwalks=None,
               variants=[("", [])] if quick else [("", []), ("-private", ["private"], 100)])]
    if not quick:
        fg.append(dict(name="c15-fileops3", constants=dict(Procs="{1, 2, 3}", NCalls="1", Kinds='{"set", "destroy", "get"}',
                                                           Atomic="FALSE", **every),
                       trace_constants=dict(Procs="{1, 2, 3}", NCalls="99", Kinds=ALLK, Atomic="FALSE", **allowed),
                       driver_args=[lib, SHIM, "3"], maxlen=60, maxwalks=4000))
    r2 = pipeline.graphs_replay(ctx, "StoreMP", "Trace_MPF", "vf.drv_mpf", fg, ["TypeOK", "WriterExcludes"], [], maxlen=60,
                                jobs=15)
    # every deviation the accepting validations used: confirm on one example that the required protocol rejects it
    used = {}
    for d in r2["devlog"]:
        used.setdefault(d["name"], []).append(d)
    confirmed = {}
    rcfg_consts = dict(Procs="{1, 2, 3}", NCalls="99", Kinds=ALLK, Atomic="FALSE", **{k: "{%s}" % v for k, v in REQUIRED.items()})
    for name, lst in sorted(used.items()):
        for i, cand in enumerate(lst[:8]):          # candidates: confirm on one that the required protocol rejects it
            wd = ctx.sub("dev-%s-%d" % (name, i))
            tr = os.path.join(wd, "trace.ndjson")
            with open(tr, "w") as f:
                f.write("\n".join(cand["trace"]) + "\n")
            cfg = os.path.join(wd, "req.cfg")
            tlc.write_cfg(cfg, spec="TSpec", constants=rcfg_consts, constraint="TrackMax", postcondition="TraceAccepted")
            try:
                v = tlc.validate_trace("Trace_MPF", cfg, tr, wd, len(cand["trace"]))
            except tlc.TLCBroken as e:
                raise Broken(str(e))
            if v.accepted:
                continue
            confirmed[name] = dict(candidate_executions=len(lst), example=cand["trace"], rejected_by_required_at=v.matched)
            e = known[name]
            ctx.known_finding(e["id"], "%s [up to %d of %d gated executions; e.g. the required protocol rejects event %d: %s]"
                              % (e["scope"], len(lst), r2["executions"], v.matched, cand["trace"][v.matched][:160]))
            break
    cov.update(dict(
        states=r1["states"] + r2["states"] + design["states"],
        transitions=r1["transitions"] + r2["transitions"] + design["transitions"],
        traces_validated_against_impl=r1["accepted"] + r2["accepted"],
        executions=r1["executions"] + r2["executions"], events_validated=r1["events"] + r2["events"],
        call_grain=dict(executions=r1["executions"], accepted=r1["accepted"], model_transitions=r1["edges_total"],
                        replayed=r1["edges_replayed"], calls=r1["okcount"]),
        file_operation_grain=dict(executions=r2["executions"], accepted=r2["accepted"], model_transitions=r2["edges_total"],
                                  replayed=r2["edges_replayed"], steps=r2["okcount"],
                                  deviations_used={k: len(v) for k, v in used.items()}, deviations_confirmed=confirmed),
        design_model_required=design,
        exhaustive=(r1["edges_replayed"] == r1["edges_total"] and r2["edges_replayed"] == r2["edges_total"]),
        samples=[s[:8] for s in (r1["samples"][:1] + r2["samples"][:1])],
        rule="(1) call grain: every transition of P11MP (2-3 processes x create/set/get/destroy/find x token, session, "
             "private objects; per-process directory snapshot and stale sets split the states by what each process has "
             "cached) is replayed on REAL processes sharing one token directory; TLC demands of every result: found "
             "exactly the visible objects with their committed values, each once; a handle of a destroyed object is "
             "invalid; a process started afterwards sees exactly the committed state. (2) file-operation grain: the "
             "required protocol (StoreMP, with crashes) keeps NoLostCommittedUpdate / DestroyedStaysDestroyed. (3) "
             "every transition of StoreMP with all choices open is a schedule: the LD_PRELOAD shim in gate mode makes "
             "2-3 real processes perform their file operations group by group in that order; TLC validates what every "
             "step returned and every value read against the required protocol, plus only the deviations listed as known."))
    ctx.assumptions += ["file backend; POSIX fcntl locks on a local file system",
                        "at file-operation grain one object and C_SetAttributeValue / C_DestroyObject / "
                        "C_GetAttributeValue / C_FindObjects; creation is covered at call grain",
                        "quick tier: capped number of walks (see model_transitions vs replayed)"]
