"""Checks decided by Store: C05 (persistence, fidelity, stable format), C06 (encryption at rest), C09 (a failed
call has no effect)."""
import json
import os
import shutil
import subprocess
import sys

from vf import build, pipeline
from vf.check import ROOT, Broken
from vf.tlc import tla_set

INV = ["TypeOK", "Durable", "NeverReappear", "PrivateBytesEncrypted"]
PROPS = ["FailedNoEffect", "RestartRestores"]


def C(acts, maxobj, level):
    return dict(MaxObj=str(maxobj), Acts=acts, Level='"%s"' % level)


def run(ctx, wide, graphs, obs, rule, extra=None):
    lib = build.libpath(build.build("ossl"))
    res, _ = pipeline.model_check(ctx, "MC_Store", ctx.prop.lower() + "-wide", wide, invariants=INV, properties=PROPS,
                                  timeout=3000)
    gl = []
    for g in graphs:
        gl.append(dict(name=g["name"], constants=g["c"], trace_constants={"Obs": tla_set(obs)}, driver_args=[lib],
                       variants=g["variants"], maxwalks=g.get("maxwalks"), maxlen=g.get("maxlen", 30),
                       pairs=200 if ctx.tier == "quick" else 10000))
    r = pipeline.graphs_replay(ctx, "MC_Store", "Trace_Store", "vf.drv_store", gl, INV, PROPS, maxlen=30)
    ctx.coverage.update(dict(
        states=res.distinct + r["states"], transitions=res.generated + r["transitions"],
        traces_validated_against_impl=r["accepted"], executions=r["executions"], events_validated=r["events"],
        model_transitions_replayed=r["edges_replayed"], model_transitions_in_replayed_graphs=r["edges_total"],
        exhaustive=(r["edges_replayed"] == r["edges_total"]), calls_ok_failed_by_action=r["okcount"],
        observations=obs, samples=[s[:3] for s in r["samples"][:1]], rule=rule,
        transition_pairs=dict(replayed=r.get("pairs_replayed", 0), in_graphs=r.get("pairs_total", 0))))
    if extra:
        ctx.coverage.update(extra)
    return lib


def c09(ctx):
    quick = ctx.tier == "quick"
    acts = '{"create", "make", "set", "copy"}'
    wide = C('{"create", "make", "set", "copy", "destroy", "restart"}', 2, "full")
    graphs = [dict(name="c09-one", c=C(acts, 1, "full"), variants=[("-file", ["file", "0", "0077"])], maxlen=20)]
    if quick:
        graphs.append(dict(name="c09-two", c=C('{"create", "set", "copy"}', 2, "small"),
                           variants=[("-file", ["file", "0", "0077"])], maxwalks=600))
    else:
        graphs[0]["variants"].append(("-db", ["db", "0", "0077"]))
        graphs.append(dict(name="c09-two", c=C(acts, 2, "full"), variants=[("-file", ["file", "0", "0077"])]))
        graphs.append(dict(name="c09-two-db", c=C(acts, 2, "small"), variants=[("-db", ["db", "0", "0077"])]))
    run(ctx, wide, graphs, ["api", "disk"],
        "every failing position (first / middle / last) of a bad entry - unknown, read-only, wrongly sized, inconsistent "
        "attribute, bad mechanism parameter, garbage or truncated wrapped blob - in the templates of C_CreateObject, "
        "C_GenerateKey, C_UnwrapKey, C_DeriveKey, C_SetAttributeValue and C_CopyObject, for token/session x "
        "private/public objects, in every reachable object population within the bounds; after every call the complete "
        "object set with all attribute values (API) and the decoded token directory (independent decoder, no junk "
        "files allowed) must equal the specification, which leaves both unchanged on failure.")
    # under threads (ConcTok): a C_SetAttributeValue whose template is refused at its last entry, while another thread changes
    # the same token key: after both calls, and after a restart, nothing of the refused template may be there.  (What other
    # threads see WHILE the call runs, and a second change that is refused as "busy", are known findings of C18.)
    if not ctx.violations:
        import random
        from checks import conc
        lib = build.libpath(build.build("ossl"))
        tot = conc.new_tot()
        tcs = dict(Threads=conc.THREADS, PinSyms='{"P0", "P1", "P2", "PX", "A", "B"}', InitPin='"P0"',
                   Dev='{"TransactionBusy", "DirtyRead", "TornWrite"}')
        for combo in ([("Lt2,Lw2", 2, 2000, False, True)] if quick else [("Lt2,Lw2", 2, 30000, False, True), ("Lt2,Lw2", 1, 20000, True, True)]):
            if not ctx.violations:
                conc.run_combo(ctx, lib, combo, None, tcs, random.Random(ctx.seed), tot, tagp="c09-")
        from vf.check import active_known
        kn = {e["deviation"]: e for e in active_known(ctx.known) if e.get("deviation") in ("TornWrite", "DirtyRead")}
        conf = conc.confirm_devs(ctx, tot, kn, tcs)
        ctx.coverage["refused_change_under_threads"] = dict(schedules=tot["schedules"], executions=tot["executions"],
                                                            accepted=tot["accepted"], deviation_confirmed=sorted(conf))
        ctx.coverage["traces_validated_against_impl"] += tot["accepted"]
    # the fault clause: a call that fails because a file operation of the store failed has changed nothing
    if not ctx.violations:
        from checks import crash
        ctx.coverage["failing_file_operations"] = crash.fault_part(ctx, "err")
    ctx.assumptions += ["fault clause: every file operation of the listed writing calls fails once (LD_PRELOAD shim; a failed "
                        "flush loses the buffered data); file backend"]


def edge_sweep(ctx, lib):
    """Lengths next to the powers of two up to 1 MiB (the value, and its encrypted form, crossing a length field, a buffer
    or a limit of the store): for each, a private token object made by C_CreateObject and by a privacy-raising
    C_CopyObject must persist - judged like everything else by Trace_Store (acting library, new process, decoder)."""
    from vf.drv_store import StoreDriver
    n = len(StoreDriver.EDGES)
    y, big = ["lab", "y"], ["val", "big"]
    behs = []
    for size in StoreDriver.EDGES:
        behs.append([["MEdge", size], ["MCreate", True, True, [["lab", "x"], big]], ["MRestart"], ["MSet", 1, [y]], ["MRestart"]])
        behs.append([["MEdge", size], ["MCreate", True, False, [big]], ["MCopy", 1, True, True, []], ["MRestart"],
                     ["MDestroy", 1], ["MRestart"]])
    st = pipeline.replay_validate(ctx, "c05-edges", "vf.drv_store", [lib, "file", "1", "0077"],
                                  behs, "Trace_Store", {"Obs": tla_set(["api", "fresh", "disk"])}, invariants=INV, jobs=15)
    pipeline.report_rejections(ctx, "c05-edges", st, "vf.drv_store", [lib, "file", "1", "0077"])
    ctx.coverage["value_length_edges"] = dict(lengths=StoreDriver.EDGES, executions=st.executions, accepted=st.accepted)
    ctx.coverage["traces_validated_against_impl"] += st.accepted


def c05(ctx):
    quick = ctx.tier == "quick"
    acts = '{"create", "set", "copy", "destroy", "restart"}'
    wide = C('{"create", "make", "set", "copy", "destroy", "restart"}', 2, "full")
    big = "5000" if quick else "300000"
    graphs = [dict(name="c05-hist", c=C(acts, 2, "small" if quick else "full"),
                   variants=[("-file", ["file", "1", "0077", big]), ("-db", ["db", "1", "0077", big])],
                   maxwalks=500 if quick else 20000)]
    graphs.append(dict(name="c05-kinds", c=C('{"create", "restart", "destroy"}', 1, "full"),
                       variants=[("-file", ["file", "1", "0077", big]), ("-db", ["db", "1", "0077", big])], maxlen=12))
    lib = run(ctx, wide, graphs, ["api", "fresh", "disk"],
              "histories of create / copy / set / destroy interleaved with C_Finalize/C_Initialize over token and "
              "session objects (boolean, byte strings incl. empty and large, mechanism set, nested wrap template, "
              "date); after EVERY call the acting library, a NEW PROCESS and the independent decoder of the token "
              "directory must all show exactly the specification's state (destroyed objects gone, session objects "
              "only in their library instance); plus the golden fixtures written by the pinned version.")
    fixtures(ctx, lib)
    if not ctx.violations:
        edge_sweep(ctx, lib)
    # "session objects never outlive their session": the session semantics live in P11Core
    from checks import core
    cc = core.consts(Tokens='{"t1"}', Acts='{"sess", "obj", "copy", "find", "rightpin"}', MaxH="4", MaxO="2",
                     LoginPins='{"P1", "P2"}')
    r2 = core.run_graphs(ctx, lib, [("c05-sessobj", cc)], ["rv", "oo", "id"], ["secret"], core.INV_OBJ, jobs=14)
    ctx.coverage["session_object_graph"] = dict(transitions=r2["transitions"], executions=r2["executions"],
                                                accepted=r2["accepted"])
    ctx.coverage["traces_validated_against_impl"] += r2["accepted"]
    # the fault clause: a call that could not persist its effect must not return CKR_OK
    if not ctx.violations:
        from checks import crash
        ctx.coverage["failing_file_operations"] = crash.fault_part(ctx, "ok")
        ctx.assumptions.append("fault clause: every file operation of the listed writing calls fails once (LD_PRELOAD shim; a "
                               "failed flush loses the buffered data); file backend")


def c06(ctx):
    quick = ctx.tier == "quick"
    acts = '{"create", "make", "set", "copy"}'
    wide = C('{"create", "make", "set", "copy", "destroy", "restart"}', 2, "full")
    um = [("-u077", ["file", "0", "0077"])]
    if not quick:
        um += [("-u027", ["file", "0", "0027"]), ("-u022", ["file", "0", "0022"]), ("-u007", ["file", "0", "0007"]),
               ("-db", ["db", "0", "0077"])]
    if quick:
        um.append(("-db", ["db", "0", "0027"]))
        graphs = [dict(name="c06-paths", c=C('{"create", "set", "copy"}', 2, "small"), variants=um, maxwalks=500),
                  dict(name="c06-make", c=C('{"make", "set"}', 1, "full"), variants=um[:1], maxlen=15),
                  dict(name="c06-cert", c=C('{"create", "set", "copy"}', 2, "bytes"),
                       variants=[("-cert", ["file", "0", "0077", "5000", "cert"])], maxwalks=300)]
    else:
        graphs = [dict(name="c06-paths", c=C(acts, 2, "full"), variants=um, maxwalks=20000),
                  dict(name="c06-cert", c=C('{"create", "set", "copy", "destroy", "restart"}', 2, "bytes"),
                       variants=[("-cert", ["file", "0", "0077", "5000", "cert"]),
                                 ("-cert-db", ["db", "0", "0077", "5000", "cert"])])]
    run(ctx, wide, graphs, ["disk", "enc"],
        "every path that stores a byte-string attribute of a private object (C_CreateObject, C_GenerateKey, "
        "C_UnwrapKey, C_DeriveKey, C_CopyObject incl. public-to-private, C_SetAttributeValue) in the reachable "
        "populations; after every call the independent decoder reads the token directory with the user PIN: the "
        "storage form of every slot must be the specification's (encrypted exactly for non-empty byte strings of "
        "private objects) and decrypt to the API value; no IV is reused for different values, the master key and the "
        "values held only by private objects occur nowhere in clear, no path has a mode bit outside objectstore.umask.")
    ctx.assumptions += ["entries nested in CKA_WRAP_TEMPLATE are policy data stored as given (exempt by the property)"]
    # "ever": also when the user is logged out by another thread while the key material of a private token key is on its way
    # to the store (the encryption then fails): ConcTok's final state carries a scan of the token directory for the
    # value in clear (the other effects of that race are the subject of C18 and its known finding)
    if not ctx.violations:
        import random
        from checks import conc
        lib = build.libpath(build.build("ossl"))
        tot = conc.new_tot()
        tcs = dict(Threads=conc.THREADS, PinSyms='{"P0", "P1", "P2", "PX"}', InitPin='"P0"', Dev='{"LogoutSplit"}')
        for combo in ([("Lu,Ll", 2, 2500, False, True)] if quick else
                      [("Lu,Ll", 2, 20000, False, True), ("Lu,Lo", 2, 20000, False, True), ("Lu,Lc", 2, 20000, False, True)]):
            if not ctx.violations:
                conc.run_combo(ctx, lib, combo, None, tcs, random.Random(ctx.seed), tot, tagp="c06-")
        ctx.coverage["logout_during_unwrap"] = dict(
            schedules=tot["schedules"], executions=tot["executions"], accepted=tot["accepted"],
            rule="a thread unwraps a key into a private token object while another thread logs the user out (scheduler at the "
                 "mutex callbacks, all two-preemption schedules); after each execution the token directory is scanned for "
                 "the key value in clear")
        ctx.coverage["traces_validated_against_impl"] += tot["accepted"]


# ---------------------------------------------------------------------------------------------------------------
def fixtures(ctx, lib):
    """Golden fixtures: token directories written ONCE by the pinned version (fixtures/<name>/tokens) with
    expected.json.  The current library opens a scratch copy; the observed state and the expected state go into one
    trace event and TLC (Trace_Fixture) demands equality."""
    fdir = os.path.join(ROOT, "fixtures")
    names = sorted(n for n in os.listdir(fdir) if os.path.isdir(os.path.join(fdir, n))) if os.path.isdir(fdir) else []
    n_ok = 0
    for n in names:
        wd = ctx.sub("fix-" + n)
        shutil.copytree(os.path.join(fdir, n, "tokens"), os.path.join(wd, "tokens"))
        exp = json.load(open(os.path.join(fdir, n, "expected.json")))
        out = os.path.join(wd, "trace.ndjson")
        env = dict(os.environ, PYTHONPATH=ROOT)
        r = subprocess.run([sys.executable, "-m", "vf.fixture", "read", lib, wd, exp["backend"], out,
                            os.path.join(fdir, n, "expected.json")], cwd=ROOT, env=env, stdout=subprocess.PIPE,
                           stderr=subprocess.PIPE, timeout=600)
        if r.returncode == 3 or not os.path.exists(out):
            raise Broken("fixture reader failed: " + r.stderr.decode()[-800:])
        if r.returncode != 0:
            with open(out, "a") as f:
                f.write('{"e":"ProcessDied"}\n')
        from vf import tlc
        cfg = os.path.join(wd, "trace.cfg")
        tlc.write_cfg(cfg, spec="TSpec", constants={}, constraint="TrackMax", postcondition="TraceAccepted")
        os.makedirs(os.path.join(wd, "v"))
        nev = sum(1 for _ in open(out))
        res = tlc.validate_trace("Trace_Fixture", cfg, out, os.path.join(wd, "v"), nev)
        if res.accepted:
            n_ok += 1
        else:
            d = ctx.new_replay_dir("fixture-" + n)
            shutil.copy(out, os.path.join(d, "trace.ndjson"))
            with open(os.path.join(d, "info.json"), "w") as f:
                json.dump(dict(property=ctx.prop, fixture=n, kind="fixture"), f)
            ctx.violation("golden fixture %s: the current library does not return the recorded state" % n, d)
    ctx.coverage["golden_fixtures"] = names
    ctx.coverage["golden_fixtures_accepted"] = n_ok
