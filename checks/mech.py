"""C07: usage flags, key type, allowed mechanisms, slots.mechanisms, always-authenticate (P11Mech)."""
from vf import build, pipeline
from vf.tlc import tla_set

ALL_MECHS = ["AES_CBC", "AES_CBC_ENCRYPT_DATA", "AES_CBC_PAD", "AES_CMAC", "AES_CTR", "AES_ECB", "AES_ECB_ENCRYPT_DATA",
             "AES_GCM", "AES_KEY_GEN", "AES_KEY_WRAP", "AES_KEY_WRAP_PAD", "CONCATENATE_BASE_AND_DATA",
             "CONCATENATE_BASE_AND_KEY", "CONCATENATE_DATA_AND_BASE", "DES2_KEY_GEN", "DES3_CBC", "DES3_CBC_ENCRYPT_DATA",
             "DES3_CBC_PAD", "DES3_CMAC", "DES3_ECB", "DES3_ECB_ENCRYPT_DATA", "DES3_KEY_GEN", "DES_CBC",
             "DES_CBC_ENCRYPT_DATA", "DES_CBC_PAD", "DES_ECB", "DES_ECB_ENCRYPT_DATA", "DES_KEY_GEN", "DH_PKCS_DERIVE",
             "DH_PKCS_KEY_PAIR_GEN", "DH_PKCS_PARAMETER_GEN", "DSA", "DSA_KEY_PAIR_GEN", "DSA_PARAMETER_GEN", "DSA_SHA1",
             "DSA_SHA224", "DSA_SHA256", "DSA_SHA384", "DSA_SHA512", "ECDH1_DERIVE", "ECDSA", "EC_EDWARDS_KEY_PAIR_GEN",
             "EC_KEY_PAIR_GEN", "EDDSA", "GENERIC_SECRET_KEY_GEN", "MD5", "MD5_HMAC", "MD5_RSA_PKCS", "RSA_PKCS",
             "RSA_PKCS_KEY_PAIR_GEN", "RSA_PKCS_OAEP", "RSA_PKCS_PSS", "RSA_X_509", "SHA1_RSA_PKCS", "SHA1_RSA_PKCS_PSS",
             "SHA224", "SHA224_HMAC", "SHA224_RSA_PKCS", "SHA224_RSA_PKCS_PSS", "SHA256", "SHA256_HMAC", "SHA256_RSA_PKCS",
             "SHA256_RSA_PKCS_PSS", "SHA384", "SHA384_HMAC", "SHA384_RSA_PKCS", "SHA384_RSA_PKCS_PSS", "SHA512",
             "SHA512_HMAC", "SHA512_RSA_PKCS", "SHA512_RSA_PKCS_PSS", "SHA_1", "SHA_1_HMAC"]
QUICK_MECHS = ["AES_CBC_PAD", "AES_GCM", "AES_CMAC", "AES_KEY_WRAP", "AES_ECB_ENCRYPT_DATA", "DES3_CBC", "SHA256_HMAC",
               "RSA_PKCS", "RSA_PKCS_OAEP", "SHA256_RSA_PKCS_PSS", "DSA_SHA256", "ECDSA", "EDDSA", "ECDH1_DERIVE",
               "DH_PKCS_DERIVE", "CONCATENATE_BASE_AND_KEY", "SHA256", "MD5", "AES_KEY_GEN", "EC_KEY_PAIR_GEN",
               "DES3_KEY_GEN"]
ALL_KC = ["AES", "DES", "DES2", "DES3", "GENERIC", "RSA_PUB", "RSA_PRIV", "DSA_PUB", "DSA_PRIV", "DH_PUB", "DH_PRIV",
          "EC_PUB", "EC_PRIV", "ED_PUB", "ED_PRIV"]


def c07(ctx):
    lib = build.libpath(build.build("ossl"))
    quick = ctx.tier == "quick"
    mechs = QUICK_MECHS if quick else ALL_MECHS
    c = dict(Mechs=tla_set(mechs),
             Kinds='{"ALL", "pos_out", "neg_in"}' if quick else '{"ALL", "pos_in", "pos_out", "neg_in", "neg_out"}',
             KCs=tla_set(ALL_KC),
             Uses='{"all", "except"}' if quick else '{"all", "none", "only", "except"}',
             Als='{"empty", "has", "hasnt"}',
             AAMechs='{"RSA_PKCS", "ECDSA", "SHA256_RSA_PKCS_PSS", "EDDSA", "SHA256_RSA_PKCS"}')
    graphs = [dict(name="c07-table", constants=c, trace_constants={"Mechs": '{"x"}'}, driver_args=[lib], maxlen=400,
                   repeat=("MAAUse", 12 if quick else 60))]
    r = pipeline.graphs_replay(ctx, "MC_Mech", "Trace_Mech", "vf.drv_mech", graphs, ["TypeOK"], [], maxlen=400, jobs=15)
    mech_info(ctx)
    ok = r["okcount"]
    ctx.coverage.update(dict(
        states=r["states"], transitions=r["transitions"], traces_validated_against_impl=r["accepted"],
        executions=r["executions"], events_validated=r["events"],
        cells_executed=sum(sum(v) for k, v in ok.items() if k.startswith("MStart")),
        cells_started_ok=sum(v[0] for k, v in ok.items() if k.startswith("MStart")),
        model_transitions_replayed=r["edges_replayed"], model_transitions_in_replayed_graphs=r["edges_total"],
        exhaustive=(r["edges_replayed"] == r["edges_total"]), calls_ok_failed_by_action=ok,
        mechanisms=mechs, key_kinds=ALL_KC, samples=[s[:6] for s in r["samples"][:1]],
        rule="the finite table operation (7 keyed kinds + C_DigestInit, C_GenerateKey, C_GenerateKeyPair) x key "
             "class/type (15) x usage attribute pattern x mechanism x CKA_ALLOWED_MECHANISMS (empty / containing / not "
             "containing) x slots.mechanisms (ALL / positive / negative list, with / without the mechanism) is "
             "enumerated by TLC as the edges of MC_Mech; every cell is executed (library re-initialised per "
             "configuration) and TLC checks: started OK => permitted by P11Mech (Fits is written from the PKCS#11 "
             "mechanism definitions); plus the always-authenticate machine (no output before context login)."))
    ctx.assumptions += ["a permitted start may fail for other reasons (single DES is unavailable in this sandbox)",
                        "quick tier: 21 representative mechanisms, 3 configuration kinds; thorough: all 73 x 5"]


def mech_info(ctx):
    """Beyond the listed properties (MechInfo.tla): the capability flags of C_GetMechanismInfo against what the entry points
    did in the executions of this check.  The trace is a projection of the recorded executions: per mechanism its flags and
    the operation kinds that started successfully (configuration ALL, every usage attribute true).  Rejections go to the
    evidence notes."""
    import glob
    import json
    import os
    from vf import tlc
    flags, started = {}, {}
    for path in glob.glob(os.path.join(ctx.scratch, "rp-c07-table*", "c*", "trace.ndjson")):
        m0 = kind = None
        allon = False
        for line in open(path):
            try:
                e = json.loads(line)
            except ValueError:
                continue
            n = e.get("e")
            if n == "MConfigure":
                m0, kind = e.get("m0"), e.get("kind")
                if kind == "ALL" and e.get("fl") is not None:
                    flags[m0] = e["fl"]
            elif n in ("MUnconfigure", "Reset"):
                m0 = kind = None
            elif n == "MMakeKey":
                allon = e.get("use", [""])[0] == "all" and e.get("al") in ("empty", "has")
            elif n == "MStart" and kind == "ALL" and allon and e.get("rv") == "OK":
                started.setdefault(m0, set()).add(e["op"])
            elif n == "MStartKeyless" and kind == "ALL" and e.get("rv") == "OK":
                started.setdefault(m0, set()).add(e["ep"])
    if not flags:
        return
    wd = ctx.sub("mechinfo")
    tr = os.path.join(wd, "trace.ndjson")
    with open(tr, "w") as f:
        for m in sorted(flags):
            f.write(json.dumps(dict(e="Info", m=m, fl=flags[m])) + "\n")
            for op in sorted(started.get(m, ())):
                f.write(json.dumps(dict(e="Started", m=m, op=op)) + "\n")
            f.write(json.dumps(dict(e="End", m=m)) + "\n")
    lines = open(tr).readlines()
    bad = []
    cur = tr
    for rounds in range(len(flags) + 1):
        cfg = os.path.join(wd, "mi%d.cfg" % rounds)
        tlc.write_cfg(cfg, spec="TSpec", constants={}, constraint="TrackMax", postcondition="TraceAccepted")
        vd = os.path.join(wd, "v%d" % rounds)
        os.makedirs(vd)
        n = sum(1 for _ in open(cur))
        try:
            v = tlc.validate_trace("MechInfo", cfg, cur, vd, n)
        except tlc.TLCBroken as e:
            ctx.notes.append("MechInfo (beyond the listed properties): validation failed: %s" % str(e)[:200])
            return
        if v.accepted:
            break
        cl = open(cur).readlines()
        e = json.loads(cl[v.matched])
        m = e.get("m")
        bad.append(m)
        nxt = os.path.join(wd, "rest%d.ndjson" % rounds)
        with open(nxt, "w") as f:            # drop that mechanism's block, go on with the others
            f.writelines(x for x in cl if json.loads(x).get("m") != m)
        cur = nxt
    for m in bad:
        st = sorted({"Encrypt": "ENCRYPT", "Decrypt": "DECRYPT", "Sign": "SIGN", "Verify": "VERIFY", "Wrap": "WRAP",
                     "Unwrap": "UNWRAP", "Derive": "DERIVE", "DigestInit": "DIGEST", "GenerateKey": "GENERATE",
                     "GenerateKeyPair": "GENERATE_KEY_PAIR"}[o] for o in started.get(m, ()))
        ctx.notes.append("MechInfo (beyond the listed properties): CKM_%s advertises %s but the operations that started are %s"
                         % (m, ",".join(flags[m]) or "-", ",".join(st) or "-"))
    ctx.coverage["beyond_listed_properties"] = dict(
        module="MechInfo", mechanisms=len(flags), inconsistent=sorted(bad),
        what="capability flags of C_GetMechanismInfo = the operation kinds that start with the mechanism (both directions)")
