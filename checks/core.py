"""Checks decided by P11Core (C03 sessions/login, C11 handles, C01 access, C19 search)."""
import random

from vf import build, pipeline
from vf.check import Broken
from vf.tlc import tla_set

BASE = {
    "Tokens": '{"t1", "t2"}',
    "Pins": '{"P1", "P2", "P3", "short"}',
    "InitSoPin": '"P1"',
    "InitUserPin": '"P2"',
    "Labels": '{"a"}',
    "LoginPins": '{"P1", "P2", "P3"}',
    "Templates": '{{}, {"a"}}',
}
INV_SESS = ["TypeOK", "NoROwithSO", "PublicIfNoSession", "HandlesDisjoint", "HandlesIssued"]
INV_OBJ = INV_SESS + ["PrivateHandleNeedsUser", "PrivateSessionObjNeedsUser", "OneHandlePerObject",
                      "SessionObjHasOwner", "HandleImpliesSession", "DeadStayDead"]
PROPS = ["NeverReissued", "StableDenotation", "FailedCallChangesNothing", "LoginOnlyFromPublicWithRightPin",
         "IssuedMonotone"]


def consts(**kw):
    c = dict(BASE)
    for k, v in kw.items():
        c[k] = v
    return c


def trace_consts(c, obs):
    t = {k: c[k] for k in ("Tokens", "Pins", "InitSoPin", "InitUserPin", "Labels")}
    t["Obs"] = tla_set(obs)
    return t


def run_graphs(ctx, lib, graphs, obs, classes, invariants, maxlen=60, jobs=8):
    """graphs: [(name, constants)].  Exhaustive TLC + dump, edge-covering walks, replay per class, validation."""
    tot_states = tot_trans = 0
    edges_total = edges_cov = 0
    accepted = executions = events = 0
    samples = []
    okc = {}
    import os
    only = [x for x in os.environ.get("VERIF_ONLY", "").split(",") if x]        # development runs
    allclasses = classes
    pairs_cov = [0, 0]
    for gr in graphs:
        name, c = gr[0], gr[1]
        classes = gr[2] if len(gr) > 2 and gr[2] else allclasses          # (a graph may name its own object classes)
        if only and name not in only:
            continue
        res, g = pipeline.model_check(ctx, "MC_Core", name, c, invariants=invariants, properties=PROPS, dump=True)
        tot_states += res.distinct
        tot_trans += res.generated
        rng = random.Random(ctx.seed)
        mode = gr[3] if len(gr) > 3 else "edges"
        if mode == "pairs":
            # every PAIR of consecutive transitions (the model's state does not remember how it was reached)
            walks, cov, tot = pipeline.walker.edge_cover(pipeline.walker.line_graph(g), maxlen=maxlen, rng=rng)
        else:
            walks, cov, tot = g and pipeline.walker.edge_cover(g, maxlen=maxlen, rng=rng)
            if isinstance(mode, tuple) and mode[0] == "edges+pairs":
                # all edges, and in addition walks that cover pairs of consecutive transitions (all of them: cap None)
                w2, c2, t2 = pipeline.walker.edge_cover(pipeline.walker.line_graph(g), maxlen=maxlen, rng=rng, maxwalks=mode[1])
                walks = walks + w2
                pairs_cov[0] += c2
                pairs_cov[1] += t2
        edges_total += tot
        edges_cov += cov
        for cls in classes:
            if ctx.violations:
                ctx.notes.append("replay of %s/%s skipped after a violation was found" % (name, cls))
                continue
            # every walk for the first object class (full edge coverage); a quarter of them, drawn at random, for each
            # further class when the graph is large (keeps the thorough tier within about half an hour)
            wk = walks
            if cls != classes[0] and len(walks) > 40000:
                wk = random.Random(ctx.seed + len(cls)).sample(walks, len(walks) // 4)
            st = pipeline.replay_validate(ctx, "%s-%s" % (name, cls), "vf.drv_core", [lib, cls], wk, "Trace_Core",
                                          trace_consts(c, obs), invariants=invariants, jobs=jobs)
            pipeline.report_rejections(ctx, "%s-%s" % (name, cls), st, "vf.drv_core", [lib, cls])
            accepted += st.accepted
            executions += st.executions
            events += st.events
            for k2, v2 in st.okcount.items():
                c2 = okc.setdefault(k2, [0, 0])
                c2[0] += v2[0]
                c2[1] += v2[1]
            if st.samples and len(samples) < 3:
                samples.append(st.samples[0])
    ctx.coverage["calls_ok_failed_by_action"] = okc
    if pairs_cov[1]:
        ctx.coverage["transition_pairs"] = dict(replayed=pairs_cov[0], in_graphs=pairs_cov[1])
    never_ok = sorted(k2 for k2, v2 in okc.items() if v2[0] == 0 and k2 not in ("Reset",))
    if never_ok:
        ctx.notes.append("actions that never succeeded on the implementation in this run: " + ", ".join(never_ok))
    return dict(states=tot_states, transitions=tot_trans, edges_total=edges_total, edges_replayed=edges_cov,
                accepted=accepted, executions=executions, events=events, samples=samples)


def run_sim(ctx, lib, name, c, num, depth, obs, classes, invariants, jobs=8):
    behs = pipeline.simulate(ctx, "MC_Core_H", name, c, num, depth, invariants=invariants)
    acc = ex = evs = 0
    for cls in classes:
        st = pipeline.replay_validate(ctx, "%s-%s" % (name, cls), "vf.drv_core", [lib, cls], behs, "Trace_Core",
                                      trace_consts(c, obs), invariants=invariants, jobs=jobs)
        pipeline.report_rejections(ctx, "%s-%s" % (name, cls), st, "vf.drv_core", [lib, cls])
        acc += st.accepted
        ex += st.executions
        evs += st.events
    return dict(accepted=acc, executions=ex, events=evs, behaviours=len(behs))


def life_cycle(ctx, lib):
    """Beyond the listed properties: the library life cycle (P11Life).  A rejection here is written to the evidence notes,
    it is not a violation of a listed property."""
    from vf import drv_life as L, walker
    c = dict(Fns=tla_set(sorted(L.ARGC)), Unsupported=tla_set(L.UNSUPPORTED), NotParallel=tla_set(L.NOTPARALLEL))
    res, g = pipeline.model_check(ctx, "P11Life", "life", c, invariants=["TypeOK"], dump=True)
    walks, cov, tot = walker.edge_cover(g, maxlen=40, rng=random.Random(ctx.seed))
    st = pipeline.replay_validate(ctx, "life", "vf.drv_life", [lib], walks, "Trace_Life", c, jobs=8)
    for rj in st.rejected:
        ctx.notes.append("P11Life (beyond the listed properties): trace rejected at %s" % rj["event"][:300])
    ctx.coverage["beyond_listed_properties"] = dict(
        module="P11Life", transitions=res.generated, replayed=cov, executions=st.executions, accepted=st.accepted,
        what="C_Initialize argument rules, double initialise / finalise, all 65 entry points before C_Initialize and with a "
             "missing session handle, the unsupported entry points; the C_GetSlotList protocol (count, too small buffer, "
             "initialised tokens first and the uninitialised one last, nothing written behind the count); "
             "C_GenerateRandom / C_SeedRandom (session handle, exactly n bytes written)")


def c03(ctx):
    lib = build.libpath(build.build("ossl"))
    quick = ctx.tier == "quick"
    # 1. the widest exhaustive model (invariants and action properties only)
    big = consts(Acts='{"sess", "pin", "stale"}', MaxH="3" if quick else "4", MaxO="0")
    res, _ = pipeline.model_check(ctx, "MC_Core", "c03-wide", big, invariants=INV_SESS, properties=PROPS,
                                  timeout=3000)
    # 2. graphs that are replayed edge by edge
    graphs = [
        ("c03-sess", consts(Acts='{"sess", "stale", "info", "utypes"}', MaxH="3" if quick else "4", MaxO="0")),
        ("c03-pin", consts(Tokens='{"t1"}' if quick else '{"t1", "t2"}', Acts='{"sess", "pin"}', MaxH="2", MaxO="0",
                           LoginPins='{"P1", "P2", "P3", "short"}')),
        # a call that FAILS leaves sessions and login state unchanged - also when it fails because the token's files have
        # been removed behind the library's back (another process deleted the token)
        ("c03-vanish", consts(Tokens='{"t1"}' if quick else '{"t1", "t2"}', Acts='{"sess", "vanish", "rightpin"}', MaxH="2",
                              MaxO="0", LoginPins='{"P1", "P2"}')),
    ]
    r = run_graphs(ctx, lib, graphs, ["rv", "ss"], ["secret"], INV_SESS, jobs=8 if quick else 14)
    # 3. beyond the bounds: simulation with up to 8 handles, depth 60
    s = run_sim(ctx, lib, "c03-sim", consts(Acts='{"sess", "pin", "info", "stale", "utypes"}', MaxH="8", MaxO="0"),
                200 if quick else 3000, 60, ["rv", "ss"], ["secret"], INV_SESS)
    ctx.coverage.update(dict(
        states=res.distinct + r["states"], transitions=res.generated + r["transitions"],
        traces_validated_against_impl=r["accepted"] + s["accepted"],
        executions=r["executions"] + s["executions"], events_validated=r["events"] + s["events"],
        model_transitions_replayed=r["edges_replayed"], model_transitions_in_replayed_graphs=r["edges_total"],
        exhaustive=(r["edges_replayed"] == r["edges_total"]),
        simulated_behaviours=s["behaviours"],
        samples=r["samples"][:2],
        rule="every transition (action instance x source state) of the bounded MC_Core graphs is executed on the "
             "library at least once, failing calls included; after every call C_GetSessionInfo of every session "
             "handle ever issued is compared with the specification's state by TLC (Trace_Core).",
    ))
    ctx.assumptions += ["TLC explores the bounded model completely (2 tokens, handles <= MaxH)",
                        "PIN symbols are concretised as random byte strings per seed",
                        "token flags (PIN count low) are not observed by this check (they are by C04 / C14 / C20)"]
    # the two guards of the SO / read-only exclusion under threads (ConcTok): C_Login(CKU_SO) racing C_OpenSession(read-only)
    if not ctx.violations:
        import random
        from checks import conc
        tot = conc.new_tot()
        tcs = dict(Threads=conc.THREADS, PinSyms='{"P0", "P1", "P2", "PX", "SO"}', InitPin='"P0"', Dev="{}")
        for combo in ([("Lz,Ly", 2, 2500, False, True)] if quick else
                      [("Lz,Ly", 2, 20000, False, True), ("Lz,Ly", 1, 10000, True, True), ("Lz,Lo", 2, 20000, False, True)]):
            if not ctx.violations:
                conc.run_combo(ctx, lib, combo, None, tcs, random.Random(ctx.seed), tot, tagp="c03-")
        ctx.coverage["so_login_vs_readonly_session"] = dict(
            schedules=tot["schedules"], executions=tot["executions"], accepted=tot["accepted"], calls=tot["calls"],
            rule="one thread logs the SO in while another opens a read-only session (scheduler at the mutex callbacks, all "
                 "two-preemption schedules); ConcTok: exactly one of the two may succeed first, and then the other is refused")
        ctx.coverage["traces_validated_against_impl"] += tot["accepted"]
    if not ctx.violations:
        life_cycle(ctx, lib)


ALL_CLASSES = ["secret", "data", "cert", "pubkey", "privkey"]


def c11(ctx):
    lib = build.libpath(build.build("ossl"))
    quick = ctx.tier == "quick"
    wide = consts(Acts='{"sess", "obj", "find", "stale"}', MaxH="4" if quick else "5", MaxO="2",
                  LoginPins='{"P1", "P2"}')
    res, _ = pipeline.model_check(ctx, "MC_Core", "c11-wide", wide, invariants=INV_OBJ, properties=PROPS, timeout=3000)
    if quick:
        graphs = [
            ("c11-stale", consts(Acts='{"sess", "obj", "find", "stale"}', MaxH="3", MaxO="2", LoginPins='{"P1", "P2"}')),
            ("c11-one", consts(Tokens='{"t1"}', Acts='{"sess", "obj", "find"}', MaxH="4", MaxO="2",
                               LoginPins='{"P1", "P2"}'), None, ("edges+pairs", 1200)),
            # copies that change kind (token / session, public -> private) and what logout / close do to their handles
            # (the identity tag of a data object cannot be carried over by C_CopyObject: secret keys only)
            ("c11-copy", consts(Tokens='{"t1"}', Acts='{"sess", "obj", "copy"}', MaxH="3", MaxO="2", LoginPins='{"P2"}'),
             ["secret"], "pairs"),
        ]
        classes = ["secret", "data"]
    else:
        graphs = [
            ("c11-stale", consts(Acts='{"sess", "obj", "find", "stale"}', MaxH="4", MaxO="2", LoginPins='{"P1", "P2"}')),
            ("c11-copy", consts(Tokens='{"t1"}', Acts='{"sess", "obj", "copy", "find"}', MaxH="4", MaxO="3",
                                LoginPins='{"P1", "P2"}')),
            ("c11-copy-pairs", consts(Tokens='{"t1"}', Acts='{"sess", "obj", "copy"}', MaxH="4", MaxO="2", LoginPins='{"P2"}'),
             ["secret"], "pairs"),
            ("c11-one", consts(Tokens='{"t1"}', Acts='{"sess", "obj", "find"}', MaxH="4", MaxO="2",
                               LoginPins='{"P1", "P2"}'), ["secret"], ("edges+pairs", 30000)),
        ]
        classes = ["secret", "cert"]
    obs = ["rv", "ss", "oo", "id"]
    r = run_graphs(ctx, lib, graphs, obs, classes, INV_OBJ, jobs=14)
    s = run_sim(ctx, lib, "c11-sim", consts(Acts='{"sess", "obj", "copy", "find", "stale"}', MaxH="10", MaxO="5",
                                            LoginPins='{"P1", "P2"}'),
                300 if quick else 4000, 50 if quick else 80, obs, ["secret"] if quick else ALL_CLASSES[:1] + ["privkey"],
                INV_OBJ, jobs=14)
    ctx.coverage.update(dict(
        states=res.distinct + r["states"], transitions=res.generated + r["transitions"],
        traces_validated_against_impl=r["accepted"] + s["accepted"],
        executions=r["executions"] + s["executions"], events_validated=r["events"] + s["events"],
        model_transitions_replayed=r["edges_replayed"], model_transitions_in_replayed_graphs=r["edges_total"],
        exhaustive=(r["edges_replayed"] == r["edges_total"]),
        simulated_behaviours=s["behaviours"], object_classes=classes,
        samples=r["samples"][:2],
        rule="every transition of the bounded MC_Core graphs (sessions, login, object creation/destruction, search; "
             "stale and foreign handles as arguments) is executed on the library; after every call every session "
             "handle and every object handle ever issued is probed (C_GetSessionInfo, C_GetObjectSize, identity "
             "attribute) and TLC checks validity, denotation and freshness against the specification.",
    ))
    ctx.assumptions += ["object identity is read back through CKA_ID / CKA_APPLICATION tags written by the driver",
                        "object handles of a token without any open session are probed through a session of the other "
                        "token; if no session is open at all they are not probed (the specification says they are dead)"]


PROPS_C01 = PROPS + ["DeniedYieldsNothing", "TokenWriteNeedsRW", "NoPrivateCreateOutsideUser"]


def c01(ctx):
    lib = build.libpath(build.build("ossl"))
    quick = ctx.tier == "quick"
    fam = '{"sess", "obj", "copy", "attr", "find", "use", "make"}'
    wide = consts(Acts=fam, MaxH="4", MaxO="2" if quick else "3", LoginPins='{"P1", "P2"}')
    res, _ = pipeline.model_check(ctx, "MC_Core", "c01-wide", wide, invariants=INV_OBJ, properties=PROPS_C01,
                                  timeout=3000)
    global PROPS
    saved = PROPS
    PROPS = PROPS_C01
    try:
        if quick:
            graphs = [("c01-one", consts(Tokens='{"t1"}', Acts=fam, MaxH="4", MaxO="2", LoginPins='{"P1", "P2"}')),
                      ("c01-two", consts(Acts='{"sess", "obj", "find", "attr", "rightpin"}', MaxH="4", MaxO="1",
                                         LoginPins='{"P1", "P2"}')),
                      # key-making calls that fail late (template refused while the object is built) next to bystanders
                      ("c01-fail", consts(Tokens='{"t1"}', Acts='{"sess", "obj", "makefail", "rightpin"}', MaxH="3", MaxO="2",
                                          LoginPins='{"P1", "P2"}')),
                      # the classes whose CKA_PRIVATE defaults to false (an explicit CKA_PRIVATE = true counts, wherever it stands)
                      ("c01-pubcls", consts(Tokens='{"t1"}', Acts='{"sess", "obj", "attr", "rightpin"}', MaxH="3", MaxO="1",
                                            LoginPins='{"P1", "P2"}'), ["cert", "pubkey"])]
            classes = ["aes"]
        else:
            graphs = [("c01-one", consts(Tokens='{"t1"}', Acts=fam, MaxH="4", MaxO="2", LoginPins='{"P1", "P2"}')),
                      ("c01-two", consts(Acts=fam[:-1] + ', "rightpin"}', MaxH="4", MaxO="2", LoginPins='{"P1", "P2"}')),
                      ("c01-fail", consts(Tokens='{"t1"}', Acts='{"sess", "obj", "makefail", "rightpin"}', MaxH="4", MaxO="2",
                                          LoginPins='{"P1", "P2"}'))]
            classes = ["aes", "rsapriv", "rsapub", "secret", "cert"]
        obs = ["rv", "ss", "oo", "id"]
        r = run_graphs(ctx, lib, graphs, obs, classes, INV_OBJ, jobs=14)
        s = run_sim(ctx, lib, "c01-sim", consts(Acts=fam[:-1] + ', "stale"}', MaxH="9", MaxO="5", LoginPins='{"P1", "P2"}'),
                    300 if quick else 3000, 50 if quick else 80, obs, ["aes", "rsapriv"] if quick else classes,
                    INV_OBJ, jobs=14)
    finally:
        PROPS = saved
    ctx.coverage.update(dict(
        states=res.distinct + r["states"], transitions=res.generated + r["transitions"],
        traces_validated_against_impl=r["accepted"] + s["accepted"],
        executions=r["executions"] + s["executions"], events_validated=r["events"] + s["events"],
        model_transitions_replayed=r["edges_replayed"], model_transitions_in_replayed_graphs=r["edges_total"],
        exhaustive=(r["edges_replayed"] == r["edges_total"]),
        simulated_behaviours=s["behaviours"], object_classes=classes,
        entry_points=["C_CreateObject", "C_CopyObject", "C_DestroyObject", "C_GetAttributeValue", "C_SetAttributeValue",
                      "C_GetObjectSize", "C_FindObjects*", "C_EncryptInit", "C_DecryptInit", "C_SignInit", "C_VerifyInit",
                      "C_DigestKey", "C_WrapKey (wrapping key)", "C_WrapKey (wrapped key)", "C_UnwrapKey (unwrapping key)",
                      "C_DeriveKey (base key)", "C_GenerateKey", "C_GenerateKeyPair", "C_UnwrapKey (creator)",
                      "C_DeriveKey (creator)"],
        samples=r["samples"][:2],
        rule="every transition of the bounded MC_Core graph (all login interleavings x object kinds x entry points, "
             "handles kept across logout/login/close) is executed on the library per concrete key class; TLC "
             "validates return value class, outputs (canary-filled buffers intact on refusal, no handle), search "
             "results and the validity of every handle after every call.",
    ))
    ctx.assumptions += ["cross-token use of object handles is not generated (outside the property as stated)",
                        "a permitted use may fail for unrelated reasons; only refusals are demanded, successes are counted"]


def c19(ctx):
    lib = build.libpath(build.build("ossl"))
    quick = ctx.tier == "quick"
    T8 = '{{}, {"a"}, {"e"}, {"a", "tok"}, {"priv"}, {"absent"}, {"a", "wrongsize"}, {"pub", "sess"}}'
    common = dict(LoginPins='{"P1", "P2"}')
    wide = consts(Acts='{"sess", "obj", "find"}', MaxH="4", MaxO="2" if quick else "3", Labels='{"a", "e"}',
                  Templates=T8, **common)
    res, _ = pipeline.model_check(ctx, "MC_Core", "c19-wide", wide, invariants=INV_OBJ, properties=PROPS, timeout=3000)
    graphs = [
        ("c19-all1", consts(Tokens='{"t1"}', Acts='{"sess", "obj", "find"}', MaxH="3" if quick else "5", MaxO="2",
                            Labels='{"a", "e"}', Templates=T8, **common), None, ("edges+pairs", 1200 if quick else 30000)),
        ("c19-all2", consts(Acts='{"sess", "obj", "find"}', MaxH="3" if quick else "4", MaxO="2", Labels='{"a", "e"}',
                            Templates='{{}, {"a"}, {"e"}, {"priv"}}', **common)),
        ("c19-batch", consts(Tokens='{"t1"}', Acts='{"sess", "obj", "findop"}', MaxH="3" if quick else "4",
                             MaxO="2" if quick else "3", Templates='{{}, {"a"}}', **common)),
    ]
    classes = ["secret"] if quick else ["secret", "cert", "data", "pubkey"]
    obs = ["rv", "oo", "id"]
    r = run_graphs(ctx, lib, graphs, obs, classes, INV_OBJ, jobs=14)
    s = run_sim(ctx, lib, "c19-sim", consts(Acts='{"sess", "obj", "copy", "find", "findop", "make"}', MaxH="10", MaxO="6",
                                            Labels='{"a", "b", "e"}',
                                            Templates='{{}, {"a"}, {"b"}, {"e"}, {"a", "tok"}, {"b", "priv"}, {"priv"}, '
                                                      '{"absent"}, {"a", "wrongsize"}, {"pub", "sess"}, {"pub", "tok", "b"}}',
                                            **common),
                300 if quick else 4000, 60 if quick else 100, obs, ["secret"] if quick else ["secret", "cert"],
                INV_OBJ, jobs=14)
    ctx.coverage.update(dict(
        states=res.distinct + r["states"], transitions=res.generated + r["transitions"],
        traces_validated_against_impl=r["accepted"] + s["accepted"],
        executions=r["executions"] + s["executions"], events_validated=r["events"] + s["events"],
        model_transitions_replayed=r["edges_replayed"], model_transitions_in_replayed_graphs=r["edges_total"],
        exhaustive=(r["edges_replayed"] == r["edges_total"]),
        simulated_behaviours=s["behaviours"], object_classes=classes,
        samples=r["samples"][:2],
        rule="populations of token/session x private/public objects with labels (one of them the empty string) on one "
             "and two tokens, every login state, templates of 0..3 entries (label, CKA_TOKEN, CKA_PRIVATE, an attribute "
             "the object lacks, wrong-sized values, the empty value), batch sizes 0,1,2 (and 1,2,3,7 for drained "
             "searches): every transition of the bounded graphs is executed; TLC checks that the handles returned are "
             "exactly the visible matching objects, each once, identified through their identity attribute.",
    ))
    # "objects of the session's token": also the token objects ANOTHER PROCESS has created or destroyed in the meantime - a
    # sample of the behaviours of P11MP (two processes, call grain; the subject of C15) with the searches judged as here
    if not ctx.violations:
        K5 = '{"create", "set", "get", "destroy", "find"}'
        mg = [dict(name="c19-procs", constants=dict(Procs="{1, 2}", MaxO="2", Vals="{0, 1}", NCalls="0", Logged="{1}", Kinds=K5),
                   trace_constants=dict(Procs="{1, 2, 3}", MaxO="6", Vals="{0, 1, 2}", NCalls="0", Logged="{1}", Kinds=K5),
                   driver_args=[lib, "2", "1"], maxlen=30, maxwalks=600 if quick else 6000)]
        r3 = pipeline.graphs_replay(ctx, "P11MP", "Trace_MP", "vf.drv_mp", mg, ["TypeOK", "HandlesLegit"], ["DeadIsFinal"],
                                    maxlen=30, jobs=15)
        ctx.coverage["two_processes"] = dict(executions=r3["executions"], accepted=r3["accepted"],
                                             model_transitions=r3["edges_total"], replayed=r3["edges_replayed"])
        ctx.coverage["traces_validated_against_impl"] += r3["accepted"]
    ctx.assumptions += ["a search is a snapshot taken by C_FindObjectsInit: handles of objects destroyed or hidden "
                        "afterwards may still be returned (they are invalid and open nothing)"]
