"""C13 (wrap / unwrap / derive values), C10 (cryptographic results), C20 (configurations agree): P11Val."""
import os
import subprocess
import sys

from vf import build, pipeline
from vf.check import Broken, ROOT
from vf.tlc import tla_set

INV = ["TypeOK", "UnwrapIsInverse", "WrapTemplateHonoured", "UnwrapTemplateHonoured"]
ALLTMPLS = ["none", "empty", "encT", "encF", "ktAes", "ktAesEncF", "ktDes3"]
ALLMODES = ["aes-ecb", "aes-cbc", "aes-cbcpad", "aes-ctr", "aes-gcm", "aes-cmac", "des3-cbcpad", "des3-cmac", "des3-ecb",
            "hmac-sha256", "hmac-sha1", "hmac-sha512", "rsa-pkcs", "sha256-rsa-pkcs", "rsa-x509", "eddsa", "aes-gcm2", "aes-ctr64"]
ALLR = ["sha256-rsa-pss", "rsa-oaep", "rsa-pkcs-enc", "ecdsa", "dsa-sha256"]
ALLKINDS = ["aes16", "aes32", "des3", "gen16", "gen20", "gen24", "gen32", "gen64", "rsa", "dh", "ec", "ed", "dsa"]
# model name -> the PKCS#11 mechanisms it needs (for the restriction to what both crypto backends advertise)
NEEDS = {"KW": ["AES_KEY_WRAP"], "KWP": ["AES_KEY_WRAP_PAD"], "CBC": ["AES_CBC"], "CBCPAD": ["AES_CBC_PAD"], "RSA": ["RSA_PKCS"],
         "OAEP": ["RSA_PKCS_OAEP"], "ECB": ["AES_ECB_ENCRYPT_DATA", "DES3_ECB_ENCRYPT_DATA"],
         "CBCD": ["AES_CBC_ENCRYPT_DATA", "DES3_CBC_ENCRYPT_DATA"], "CATBD": ["CONCATENATE_BASE_AND_DATA"],
         "CATDB": ["CONCATENATE_DATA_AND_BASE"], "DH": ["DH_PKCS_DERIVE"], "ECDH": ["ECDH1_DERIVE"], "aes-ecb": ["AES_ECB"], "aes-cbc": ["AES_CBC"], "aes-cbcpad": ["AES_CBC_PAD"],
         "aes-ctr": ["AES_CTR"], "aes-gcm": ["AES_GCM"], "aes-cmac": ["AES_CMAC"], "des3-cbcpad": ["DES3_CBC_PAD"],
         "des3-cmac": ["DES3_CMAC"], "des3-ecb": ["DES3_ECB"], "hmac-sha256": ["SHA256_HMAC"], "hmac-sha1": ["SHA_1_HMAC"],
         "hmac-sha512": ["SHA512_HMAC"], "rsa-pkcs": ["RSA_PKCS"], "sha256-rsa-pkcs": ["SHA256_RSA_PKCS"],
         "sha256-rsa-pss": ["SHA256_RSA_PKCS_PSS"], "rsa-oaep": ["RSA_PKCS_OAEP"], "rsa-pkcs-enc": ["RSA_PKCS"], "ecdsa": ["ECDSA"], "rsa-x509": ["RSA_X_509"],
         "eddsa": ["EDDSA"], "aes-gcm2": ["AES_GCM"], "aes-ctr64": ["AES_CTR"], "dsa-sha256": ["DSA_SHA256"]}
TC = dict(MaxK="8", MaxB="4", Kinds=tla_set(ALLKINDS), WrapMechs='{"KW", "KWP", "CBC", "CBCPAD", "RSA", "OAEP"}',
          DerMechs='{"ECB", "CBCD", "CATBD", "CATDB", "DH", "ECDH"}', Datas="{0, 1, 2, 3, 4}", Modes=tla_set(ALLMODES),
          RModes=tla_set(ALLR), Chunks="{0, 1, 2, 3, 4, 5}", ImpIdx="{1, 2}", WTmpls=tla_set(ALLTMPLS), UTmpls=tla_set(ALLTMPLS),
          Acts='{"imp", "impt", "gen", "wrap", "damage", "unwrap", "unwrapt", "unwrapas", "derive", "value", "valuer", "crypt", "digest", "rcrypt"}',
          Dev="{}")


def C(kinds, acts, maxk=3, maxb=1, wrap=(), der=(), datas=(2,), modes=(), rmodes=(), chunks=(0,), imp=(1,), wt=("none",), ut=("none",)):
    return dict(MaxK=str(maxk), MaxB=str(maxb), Kinds=tla_set(kinds), WrapMechs=tla_set(wrap), DerMechs=tla_set(der),
                Datas=tla_set(datas), Modes=tla_set(modes), RModes=tla_set(rmodes), Chunks=tla_set(chunks), ImpIdx=tla_set(imp),
                WTmpls=tla_set(wt), UTmpls=tla_set(ut), Acts=tla_set(acts))


def advertised(lib):
    code = ("import sys,os,tempfile; sys.path.insert(0,%r)\n"
            "from vf.p11 import P11\nfrom vf import p11const as K\n"
            "d=tempfile.mkdtemp(); os.makedirs(d+'/t'); open(d+'/c','w').write('directories.tokendir = '+d+'/t\\nobjectstore.backend = file\\n')\n"
            "os.environ['SOFTHSM2_CONF']=d+'/c'\np=P11(%r); p.initialize(); rv,sl=p.slot_list(True); rv,ms=p.mechanism_list(sl[0])\n"
            "names={getattr(K,n):n[4:] for n in dir(K) if n.startswith('CKM_')}\nprint(' '.join(sorted(names.get(m,'?') for m in ms)))\n"
            % (ROOT, lib))
    r = subprocess.run([sys.executable, "-c", code], stdout=subprocess.PIPE, stderr=subprocess.PIPE, timeout=120)
    if r.returncode:
        raise Broken("cannot list mechanisms of %s: %s" % (lib, r.stderr.decode()[-500:]))
    return set(r.stdout.decode().split())


def wrap_graphs(quick, lib, extra, common=None):
    def ok(names):
        return [n for n in names if common is None or all(m in common for m in NEEDS[n])]
    w = 500 if quick else 6000
    A = ["imp", "wrap", "damage", "unwrap", "unwrapas", "value", "valuer"]
    gs = [dict(name="kw", constants=C(["aes16", "gen20", "aes32"], A, wrap=ok(["KW", "KWP"])), maxwalks=w),
          dict(name="kw2", constants=C(["aes32", "des3", "gen16"], A + ["gen"], wrap=ok(["KW", "KWP"])), maxwalks=w // 2),
          dict(name="cbc", constants=C(["aes16", "gen20", "des3"], A, wrap=ok(["CBC", "CBCPAD"])), maxwalks=w),
          dict(name="rsawrap", constants=C(["rsa", "aes16", "gen20"], A, wrap=ok(["RSA", "OAEP"])), maxwalks=w // 2),
          dict(name="mixwrap", constants=C(["aes16", "aes32"], A, wrap=ok(["KW", "CBCPAD", "KWP"]), imp=(1, 2)), maxwalks=w // 2),
          dict(name="privwrap", constants=C(["aes16", "rsa", "gen16"], A, wrap=ok(["KWP", "CBCPAD"])), maxwalks=w // 2),
          # CKA_WRAP_TEMPLATE / CKA_UNWRAP_TEMPLATE of the wrapping key (AES, and the RSA pair)
          dict(name="wtmpl", constants=C(["aes16", "des3"], ["impt", "two", "wrap", "unwrapt", "value", "valuer"], wrap=ok(["KWP"]),
                                         wt=ALLTMPLS), maxwalks=w),
          dict(name="utmpl", constants=C(["aes16", "des3"], ["impt", "two", "wrap", "unwrapt", "value", "valuer"], wrap=ok(["KWP"]),
                                         ut=ALLTMPLS), maxwalks=w),
          dict(name="tmpl-rsa", constants=C(["rsa", "aes16"], ["impt", "two", "wrap", "unwrapt"], wrap=ok(["OAEP", "KWP"]),
                                            wt=["none", "encF", "ktAes"], ut=["none", "encF", "ktAes"]), maxwalks=w // 2),
          dict(name="derive", constants=C(["aes16", "aes32", "des3", "gen20"], ["imp", "derive", "value", "valuer"],
                                          der=ok(["ECB", "CBCD", "CATBD", "CATDB"]), datas=(1, 2, 3)), maxwalks=w),
          dict(name="pkderive", constants=C(["dh", "ec", "gen20", "aes16", "gen64"], ["imp", "derive", "value"], maxk=2,
                                            der=ok(["DH", "ECDH"]), datas=(1, 2, 3)), maxwalks=w)]
    for g in gs:
        g.update(trace_constants=TC, driver_args=[lib] + extra, maxlen=12)
    return gs


def crypt_graphs(quick, lib, extra, common=None):
    def ok(names):
        return [n for n in names if common is None or all(m in common for m in NEEDS[n])]
    ch = (0, 1, 2, 3, 4, 5)
    gs = [dict(name="aes", constants=C(["aes16", "aes32"], ["imp", "crypt"], maxk=1, modes=ok(ALLMODES[:6] + ALLMODES[16:]),
                                       datas=(0, 1, 2, 3, 4), chunks=ch)),
          dict(name="des-mac", constants=C(["des3", "gen20", "gen32", "gen64"], ["imp", "gen", "crypt"], maxk=1, modes=ok(ALLMODES[6:12]),
                                           datas=(0, 1, 3, 4), chunks=ch)),
          dict(name="rsa", constants=C(["rsa", "ec", "ed", "dsa"], ["imp", "crypt", "rcrypt", "digest"], maxk=1, modes=ok(ALLMODES[12:16]),
                                       rmodes=ok(ALLR), datas=(0, 1, 2, 4), chunks=ch))]
    for g in gs:
        g.update(trace_constants=TC, driver_args=[lib] + extra, maxlen=14, maxwalks=None if not quick else 400)
    return gs


def finish(ctx, r, what, configs):
    ctx.coverage.update(dict(
        states=r["states"], transitions=r["transitions"], traces_validated_against_impl=r["accepted"], executions=r["executions"],
        events_validated=r["events"], model_transitions_replayed=r["edges_replayed"],
        model_transitions_in_replayed_graphs=r["edges_total"], exhaustive=(r["edges_replayed"] == r["edges_total"]),
        calls_ok_failed_by_action=r["okcount"], configurations=configs, samples=[s[:8] for s in r["samples"][:1]], rule=what))
    ctx.assumptions += ["the single-block cipher primitives of the reference come from libcrypto (EVP, one block at a time); every "
                        "mode, padding, key wrap, CMAC, RSA and ECDSA computation above them is written out in vf/refcrypto.py",
                        "fixed RSA-1024 key pair; quick tier: capped number of walks"]


def c13(ctx):
    lib = build.libpath(build.build("ossl"))
    quick = ctx.tier == "quick"
    r = pipeline.graphs_replay(ctx, "MC_Val", "Trace_Val", "vf.drv_val", wrap_graphs(quick, lib, ["ossl-file"]), INV, [],
                               maxlen=12, jobs=15)
    finish(ctx, r, "TLC enumerates sequences of import / generate / wrap (6 mechanisms x wrapping key x wrapped key kind and "
           "length x IV) / damage (bit flip, truncation) / unwrap (right and wrong key, right and wrong mechanism) / derive (4 "
           "mechanisms x base x data length x requested type) / read-back; for every call the trace carries the bytes the "
           "library produced and the bytes the independent reference computes from the same inputs; TLC demands: blob = "
           "standard encoding (RFC 3394/5649, PKCS#7-padded CBC under the caller's IV; RSA blobs open under the reference), "
           "Unwrap(Wrap(k)) = k (zero-padded for AES_KEY_WRAP), unwrapped keys not local / never-extractable / "
           "always-sensitive with the template honoured, damaged or foreign blobs rejected without creating an object, "
           "derived value = the mechanism's definition cut to length (DES parity), CKA_CHECK_VALUE = the standard value.",
           ["ossl-file"])


def c10(ctx):
    lib = build.libpath(build.build("ossl"))
    quick = ctx.tier == "quick"
    gs = crypt_graphs(quick, lib, ["ossl-file"])
    # derived secrets (DH, ECDH, encrypt-data, concatenation) are results as well
    gs += [g for g in wrap_graphs(quick, lib, ["ossl-file"]) if g["name"] in ("derive", "pkderive")]
    r = pipeline.graphs_replay(ctx, "MC_Val", "Trace_Val", "vf.drv_val", gs, INV, [], maxlen=14, jobs=15)
    finish(ctx, r, "every deterministic mode x key size x message length (0, whole blocks, a length across block boundaries) x "
           "way of cutting the message into parts is a transition of P11Val whose result TERM does not contain the cutting: "
           "TLC demands one byte string per term (multi-part = single-part), equal to the independent reference; the "
           "library's inverse operation restores / verifies it, and every altered variant (data, MAC, signature, GCM tag, IV, "
           "AAD, truncation) is rejected; randomised schemes (PSS, OAEP, PKCS#1 v1.5 encryption): the reference accepts the "
           "library's output and the library accepts the reference's.", ["ossl-file"])
    ctx.assumptions.append("DSA, ECDSA, EdDSA, DH/ECDH value checks and key sizes beyond RSA-1024 / AES-128/256 / 3DES are not "
                           "part of this model yet (see DESIGN.md)")


def probes(ctx, lib, cfg):
    """runs the driver on an empty behaviour under cfg and returns its Probe events"""
    import json
    wd = ctx.sub("probe-" + cfg)
    bf = os.path.join(wd, "b.json")
    json.dump([[]], open(bf, "w"))
    out = os.path.join(wd, "o.ndjson")
    r = subprocess.run([sys.executable, "-m", "vf.drv_val", "--one", lib, bf, out, os.path.join(wd, "w"), "0", cfg], cwd=ROOT,
                       env=dict(os.environ, PYTHONPATH=ROOT), stdout=subprocess.PIPE, stderr=subprocess.PIPE, timeout=300)
    if r.returncode:
        raise Broken("probe run failed (%s): %s" % (cfg, r.stderr.decode()[-600:]))
    return [json.loads(l) for l in open(out) if '"Probe"' in l]


def c20(ctx):
    from vf.check import active_known
    lib = build.libpath(build.build("ossl"))
    bot = build.libpath(build.build("botan"))
    quick = ctx.tier == "quick"
    known = {e["deviation"]: e for e in active_known(ctx.known) if e.get("deviation") in ("AdvertisedButUnusable", "BotanEmptyCbc")}
    common = advertised(lib) & advertised(bot)
    # what is advertised by both but does not work somewhere is taken out of the comparison (and reported by the Probe
    # events of every execution: a violation unless it is a listed finding)
    unusable = {}
    for cfg, l in (("ossl-file", lib), ("botan-file", bot)):
        for ev in probes(ctx, l, cfg):
            if ev["advertised"] and not ev["works"]:
                unusable.setdefault(ev["mech"], []).append(cfg)
    usable = common - set(unusable)
    cfgs = "ossl-file,ossl-db,botan-file,botan-db"
    gs = wrap_graphs(quick, lib, [cfgs, bot], usable) + crypt_graphs(quick, lib, [cfgs, bot], usable)
    tc = dict(TC, Dev=tla_set(sorted(known)))
    for g in gs:
        g["name"] = "x-" + g["name"]
        g["trace_constants"] = tc
        if quick:
            g["maxwalks"] = min(g.get("maxwalks") or 250, 250)
    r = pipeline.graphs_replay(ctx, "MC_Val", "Trace_Val", "vf.drv_val", gs, INV, [], maxlen=12, jobs=15)
    # the token life cycle (initialisation, re-initialisation, PINs and their status flags, objects, restart) under both
    # storage backends: the same P11Tok behaviours, each judged by the same specification
    from checks import tok as TOK
    bdir = build.build("ossl", ("softhsm2", "softhsm2-util"))
    util = build.utilpath(bdir)
    obs = ["live", "fresh", "pins", "objs"]
    c1 = TOK.C(MaxTok="1", Acts='{"init", "restart", "sess", "pin", "obj"}', MaxH="1", MaxObj="1", PinSyms='{"A", "B"}',
               NewPins='{"A", "B"}', Labs='{"L1"}')
    tg = [dict(name="x-tok-" + be, constants=c1, trace_constants=TOK.T(c1, obs), driver_args=[lib, util, be, "A,B"],
               maxwalks=600 if quick else None) for be in ("file", "db")]
    r3 = pipeline.graphs_replay(ctx, "MC_Tok", "Trace_Tok", "vf.drv_tok", tg, TOK.INV, TOK.PROPS, maxlen=40)
    for k in ("states", "transitions", "accepted", "executions", "events", "edges_replayed", "edges_total"):
        r[k] += r3[k]
    used = set(d["name"] for d in r["devlog"])
    if "AdvertisedButUnusable" in used and "AdvertisedButUnusable" in known:
        e = known["AdvertisedButUnusable"]
        ctx.known_finding(e["id"], "%s [now: %s]" % (e["scope"], "; ".join("%s under %s" % (m, ",".join(c)) for m, c in
                                                                         sorted(unusable.items()))))
    if "BotanEmptyCbc" in used and "BotanEmptyCbc" in known:
        e = known["BotanEmptyCbc"]
        n = sum(1 for d in r["devlog"] if d["name"] == "BotanEmptyCbc")
        ctx.known_finding(e["id"], "%s [%d executions]" % (e["scope"], n))
    finish(ctx, r, "the behaviours of P11Val (keys as TOKEN objects, so that every value goes through the storage backend) are "
           "replayed under file/OpenSSL, db/OpenSSL, file/Botan and db/Botan, restricted to the mechanisms both crypto backends "
           "advertise and can perform; one trace specification run sees all four executions of a behaviour: each must satisfy "
           "P11Val (same return-code classes, same attributes), and the bytes bound to every deterministic term (key values, "
           "check values, wrapped blobs, ciphertexts, MACs, digests, deterministic signatures, derived secrets) must be "
           "identical in all four; randomised outputs of every configuration are accepted by the independent reference and "
           "vice versa; every execution probes that the ECB family it advertises works.", cfgs.split(","))
    ctx.coverage["common_mechanisms"] = len(common)
    ctx.coverage["advertised_but_unusable"] = unusable
