"""C18: thread safety with locking enabled (Conc: schedules at the mutex callbacks; ConcLin: what threads may observe)."""
import json
import os
import random
import subprocess
import sys

from vf import build, pipeline, tlc, walker
from vf.check import Broken, ROOT, active_known

IDS = "{" + ", ".join(str(t * 10 + k) for t in range(1, 17) for k in (1, 2)) + "}"
THREADS = "{" + ", ".join(str(t) for t in range(1, 17)) + "}"


def calibrate(ctx, lib, progs, full=False):
    wd = ctx.sub("cal-" + progs.replace(",", "") + ("f" if full else ""))
    out = os.path.join(wd, "cal.ndjson")
    bf = os.path.join(wd, "none.json")
    json.dump([], open(bf, "w"))
    r = subprocess.run([sys.executable, "-m", "vf.drv_conc", lib, bf, out, wd, "0", "calibrate-full" if full else "calibrate", progs], cwd=ROOT,
                       env=dict(os.environ, PYTHONPATH=ROOT), stdout=subprocess.PIPE, stderr=subprocess.PIPE, timeout=300)
    pj = os.path.join(wd, "points.json")
    if r.returncode != 0 or not os.path.exists(pj):
        raise Broken("calibration run failed (%s): %s" % (progs, r.stderr.decode()[-800:]))
    prog = json.load(open(pj))
    return pj, [len(p) for p in prog], out


def run_combo(ctx, lib, combo, tc, tc_shared, rng, tot, tagp="c18-"):
    """one combination of thread programs: calibration, deadlock freedom of the lock programs, schedules, replay"""
    progs, maxpre, cap, full = combo[:4]
    tmod, tcc = ("Trace_ConcTok", tc_shared) if len(combo) > 4 else ("Trace_Conc", tc)
    n = progs.count(",") + 1
    pj, lens, calout = calibrate(ctx, lib, progs, full)
    tot["lock_points"][progs + ("/full" if full else "")] = lens
    cmode = "controlled-full" if full else "controlled"
    tag = progs.replace(",", "") + ("f%d" % maxpre if full else "") + ("p%d" % maxpre if len(combo) > 4 and not full else "")
    env = {"PROG": pj}
    # (a) no interleaving of the recorded lock programs deadlocks (unbounded preemption)
    res, _ = pipeline.model_check(ctx, "Conc", "dl-" + tag, dict(NThreads=str(n), MaxPre="9999"),
                                  invariants=["TypeOK", "MutualExclusion", "NoDeadlock"], view="View", env=env,
                                  timeout=1500)
    tot["states"] += res.distinct
    tot["transitions"] += res.generated
    # (b) every schedule with at most maxpre preemptions (all of them, or `cap` drawn uniformly)
    res, g = pipeline.model_check(ctx, "Conc", "sch-" + tag, dict(NThreads=str(n), MaxPre=str(maxpre)),
                                  invariants=["TypeOK", "MutualExclusion"], view=None, dump=True, env=env, timeout=1500)
    tot["states"] += res.distinct
    tot["transitions"] += res.generated
    ps, total = walker.paths(g, cap, rng)
    tot["schedules"] += len(ps)
    tot["paths_total"] += total
    if len(combo) > 4 and n == 2:
        # The calls of these programs take different paths through the library depending on what the other thread
        # has done (a login that finds the user logged in returns early), so a schedule counted in points of the
        # CALIBRATED programs drifts.  In addition, every two-preemption schedule counted in points of the execution
        # itself: a runs i points, b runs j points, a runs on, b runs on - for all i, j and both orders.
        direct = [["Run(%d)" % a] * i + ["Run(%d)" % b] * j + ["RunOn(%d)" % a, "RunOn(%d)" % b] * 2
                  for a, b in ((1, 2), (2, 1)) for i in range(1, lens[a - 1] + 4) for j in range(1, lens[b - 1] + 4)]
        if len(direct) > cap:
            direct = rng.sample(direct, cap)
        tot["paths_total"] += (lens[0] + 3) * (lens[1] + 3) * 2
        tot["schedules"] += len(direct)
        ps = ps + direct
    st = pipeline.replay_validate(ctx, tagp + tag, "vf.drv_conc", [lib, cmode, progs], ps,
                                  tmod, tcc, jobs=15, max_rej_per_chunk=1, max_confirm=3)
    pipeline.report_rejections(ctx, tagp + tag, st, "vf.drv_conc", [lib, cmode, progs])
    for k in ("executions", "accepted", "events"):
        tot[k] += getattr(st, k)
    for d in st.devlog:
        d["tmod"], d["tc"] = tmod, tcc
    tot["devlog"] += st.devlog
    if st.samples and len(tot.setdefault("samples", [])) < 2:
        tot["samples"].append(st.samples[0][:8])
    for k2, v2 in st.okcount.items():
        c2 = tot["calls"].setdefault(k2, [0, 0])
        c2[0] += v2[0]
        c2[1] += v2[1]


def confirm_devs(ctx, tot, known, tc):
    """known findings: for every deviation an accepting validation used, confirm on an example that the model WITHOUT it
    rejects the trace; only then the KNOWN-FINDING line is printed.  known: deviation name -> entry of known_findings.json
    (entries of other properties without also_affects are not in it: their deviation is tolerated silently)."""
    confirmed = {}
    for name in sorted(set(d["name"] for d in tot["devlog"]) & set(known)):
        cands = [d for d in tot["devlog"] if d["name"] == name]
        for i, cand in enumerate(cands[:8]):
            wd = ctx.sub("dev-%s-%d" % (name, i))
            tr = os.path.join(wd, "trace.ndjson")
            with open(tr, "w") as f:
                f.write("\n".join(cand["trace"]) + "\n")
            cfg = os.path.join(wd, "req.cfg")
            # the deviations this trace was validated with, minus the one in question
            import re as _re
            base = set(_re.findall(r'"(\w+)"', (cand.get("tc") or tc or {}).get("Dev", "")))
            others = "{" + ", ".join('"%s"' % d for d in sorted(base - {name})) + "}"
            tlc.write_cfg(cfg, spec="TSpec", constants=dict(cand.get("tc", tc), Dev=others), constraint="TrackMax",
                          postcondition="TraceAccepted")
            try:
                v = tlc.validate_trace(cand.get("tmod", "Trace_Conc"), cfg, tr, wd, len(cand["trace"]))
            except tlc.TLCBroken as e:
                raise Broken(str(e))
            if not v.accepted:
                e = known[name]
                confirmed[name] = dict(candidates=len(cands), example=cand["trace"][:v.matched + 1][-14:],
                                       schedule=cand.get("behaviour") if cand.get("behaviour") != ["free"] else "free-running")
                ctx.known_finding(e["id"], "%s [up to %d executions; e.g. without this deviation the model rejects: %s]"
                                  % (e["scope"], len(cands), cand["trace"][v.matched][:200]))
                break
    return confirmed


def new_tot():
    return dict(states=0, transitions=0, schedules=0, paths_total=0, executions=0, accepted=0, events=0, devlog=[],
                lock_points={}, calls={})


def c18(ctx):
    lib = build.libpath(build.build("ossl"))
    quick = ctx.tier == "quick"
    known = {e["deviation"]: e for e in active_known(ctx.known) if e.get("deviation") in ("EarlyVisible", "TornRead", "LogoutSplit", "TransactionBusy", "DirtyRead", "TornWrite")}
    dev = "{" + ", ".join('"%s"' % d for d in sorted(known) if d not in ("LogoutSplit", "TransactionBusy", "DirtyRead", "TornWrite")) + "}"
    tc = dict(Threads=THREADS, Ids=IDS, Dev=dev)
    rng = random.Random(ctx.seed)
    # (programs, preemption bound, cap on schedules, full: EVERY lock and unlock callback is a scheduling point)
    combos = [("g,g", 1, 4000, True), ("A,B", 1, 3000, False), ("A,E", 1, 3000, False), ("C,A", 1, 2000, False),
              ("s,f", 2, 1500, False)] if quick else \
             [("g,g", 1, 10000, True), ("h,o", 1, 20000, True), ("g,h", 1, 20000, True), ("g,g", 2, 10000, True),
              ("B,D", 1, 8000, False), ("a,b,d", 1, 8000, False),
              ("A,B", 2, 10000, False), ("A,E", 2, 10000, False), ("A,A", 2, 8000, False), ("B,D", 2, 8000, False),
              ("C,A", 2, 8000, False), ("B,B", 2, 5000, False), ("E,B", 2, 5000, False), ("s,f", 2, 8000, False),
              ("a,b,d", 2, 8000, False), ("a,a,b", 2, 8000, False)]
    # the shared token state (login state, last-session logout, the user PIN): ConcTok, a linearizability check
    # (quick: the PIN, unwrap, sensitive-key, SO and token-key combinations run in the checks of C04, C06, C02, C03 and C09)
    shared = [("Lc,Lo", 2, 2500, False), ("Lv,Ll", 2, 2000, False)] if quick else \
             [("Lc,Lo", 2, 30000, False), ("Lc,Lo", 2, 20000, True), ("Lp,Lq", 2, 20000, True), ("Lr,Lx", 2, 20000, False),
              ("Lv,Ll", 2, 20000, False), ("Lu,Ll", 2, 20000, False), ("Lu,Lo", 2, 20000, False), ("Ls,Lg", 2, 30000, False), ("Ls,Lg", 1, 20000, True), ("Lt2,Lw2", 2, 30000, False), ("Lt,Lw", 2, 20000, False), ("Lz,Ly", 2, 20000, False), ("Lz,Lo", 2, 20000, False), ("Lc,Lv,Ll", 2, 20000, False), ("Lp,Lq,Lr", 2, 20000, False), ("Lr,Lx", 1, 10000, True)]
    tc_shared = dict(Threads=THREADS, PinSyms='{"P0", "P1", "P2", "PX", "SO"}', InitPin='"P0"',
                     Dev="{" + ", ".join('"%s"' % d for d in sorted(known) if d in ("LogoutSplit", "TransactionBusy", "DirtyRead", "TornWrite")) + "}")
    combos = combos + [c + (True,) for c in shared]
    only = [x for x in os.environ.get("VERIF_ONLY", "").split(";") if x]          # development runs
    if only:
        combos = [c for c in combos if c[0] in only]
    tot = dict(states=0, transitions=0, schedules=0, paths_total=0, executions=0, accepted=0, events=0, devlog=[], lock_points={},
               calls={})
    for combo in combos:
        if ctx.violations:
            break
        run_combo(ctx, lib, combo, tc, tc_shared, rng, tot)
    # (c) free-running threads with OS locking (stress): 8 and 16 threads
    free = dict(executions=0, accepted=0, events=0)
    for fi, (progs, rounds) in enumerate([] if only else [("a,b,d,a,b,d,a,b", 300), ("A,B,C,D,E,A,B,C,D,E,A,B,C,D,E,A", 150)] if quick else
                          [("a,b,d,a,b,d,a,b", 1500), ("A,B,C,D,E,A,B,C,D,E,A,B,C,D,E,A", 600), ("a,a,a,a,a,a,a,a", 1500),
                           ("B,B,B,B,D,D,D,D", 600)]):
        if ctx.violations:
            break
        # the behaviours are only chunk markers: each driver process runs `per` free executions
        per = max(1, rounds // 15)
        st = pipeline.replay_validate(ctx, "c18-free%d-%d" % (fi, progs.count(",") + 1), "vf.drv_conc",
                                      [lib, "free", progs, str(per)], [["free"]] * 15, "Trace_Conc", tc, jobs=15,
                                      max_rej_per_chunk=1, max_confirm=3, rerun=False)
        # a free-running rejection cannot be re-run deterministically: the recorded trace itself is the evidence
        pipeline.report_rejections(ctx, "c18-free", st, "vf.drv_conc", [lib, "free", progs, str(per)])
        for k in free:
            free[k] += getattr(st, k)
        tot["devlog"] += st.devlog
    confirmed = confirm_devs(ctx, tot, known, tc)
    ctx.coverage.update(dict(
        states=tot["states"], transitions=tot["transitions"], schedules_tried=tot["schedules"] + free["executions"],
        traces_validated_against_impl=tot["accepted"] + free["accepted"], executions=tot["executions"] + free["executions"],
        events_validated=tot["events"] + free["events"],
        controlled=dict(program_combinations=[c[0] + ("/full" if c[3] else "") for c in combos], max_preemptions=[c[1] for c in combos],
                        schedules_in_model=tot["paths_total"], schedules_run=tot["schedules"], accepted=tot["accepted"],
                        scheduling_points_per_thread=tot["lock_points"], calls_ok_failed=tot["calls"]),
        free_running=free, deviation_confirmed=confirmed, samples=tot.get("samples") or [["no execution"]],
        exhaustive=(tot["paths_total"] == tot["schedules"]),
        rule="C_Initialize gets the four mutex callbacks; the callbacks ARE the scheduler (one thread runs at a time, a "
             "switch is possible before every LockMutex and at every call boundary). A calibration run records each "
             "thread's lock program; TLC checks on Conc.tla that no interleaving of these programs deadlocks (unbounded "
             "preemption) and enumerates every schedule with at most k preemptions; the driver imposes them on real "
             "threads; TLC validates begin/end of every call against ConcLin: searches see everything live during the "
             "whole call and nothing never-live, no duplicates, no handle issued twice, own-object results exact, every "
             "call returns, final token content exact. Plus free-running 8/16-thread stress with OS locking, validated "
             "the same way."))
    ctx.assumptions += ["file backend; switches happen at mutex acquisitions and call boundaries (code that shares state "
                        "without a mutex is only exercised by the free-running part)",
                        "schedules beyond the cap are drawn uniformly from TLC's graph (see schedules_in_model vs schedules_run)",
                        "a free-running rejection is not reproducible by re-execution; the recorded trace is the evidence"]
