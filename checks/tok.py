"""Checks decided by P11Tok: C14 (token initialisation, re-initialisation, isolation, restart) and
C04 (only the current PIN authenticates; PIN changes are exact and lossless)."""
from vf import build, pipeline
from vf.tlc import tla_set

INV = ["TypeOK", "NoROwithSO", "PublicIfNoSession", "TagsUnique", "GoneStayGone"]
PROPS = ["SoPinSurvivesReinit", "UserPinChangesOnlyBy", "LoginNeedsCurrentPin", "FailedChangesNothing",
         "ObjectsOnlyByOwnToken"]


def C(**kw):
    c = dict(MaxTok="2", Acts='{"init", "restart", "sess", "obj"}', MaxH="1", MaxObj="1", PinSyms='{"A", "B"}',
             NewPins='{"A"}', AsciiPins='{"U1"}', Labs='{"L1", "L2"}')
    c.update(kw)
    return c


def T(c, obs):
    return {"MaxTok": c["MaxTok"], "Obs": tla_set(obs)}


def fill(ctx, res, r, extra):
    ctx.coverage.update(dict(
        states=res.distinct + r["states"], transitions=res.generated + r["transitions"],
        traces_validated_against_impl=r["accepted"], executions=r["executions"], events_validated=r["events"],
        model_transitions_replayed=r["edges_replayed"], model_transitions_in_replayed_graphs=r["edges_total"],
        exhaustive=(r["edges_replayed"] == r["edges_total"]), calls_ok_failed_by_action=r["okcount"],
        samples=[s[:3] for s in r["samples"][:1]]))
    ctx.coverage.update(extra)


def c14(ctx):
    bdir = build.build("ossl", ("softhsm2", "softhsm2-util"))
    lib, util = build.libpath(bdir), build.utilpath(bdir)
    quick = ctx.tier == "quick"
    wide = C(Acts='{"init", "restart", "util", "sess", "pin", "obj"}', MaxH="2", MaxObj="2",
             PinSyms='{"A", "B"}', NewPins='{"A", "B"}', AsciiPins='{"U1"}', Labs='{"L1"}',
             MaxTok="2" if quick else "3")
    res, _ = pipeline.model_check(ctx, "MC_Tok", "c14-wide", wide, invariants=INV, properties=PROPS, timeout=3000,
                                  view="ViewNoLow")
    obs = ["live", "fresh", "pins", "objs"]
    c1 = C()
    c2 = C(Acts='{"init", "util", "sess", "obj"}', PinSyms='{"U1", "B"}', NewPins='{"U1"}', AsciiPins='{"U1", "U2"}',
           Labs='{"L1"}')
    c3 = C(Acts='{"init", "sess", "pin", "obj"}', MaxH="2", MaxObj="2", PinSyms='{"A", "B"}', NewPins='{"B"}',
           Labs='{"L1"}')
    graphs = [
        dict(name="c14-init", constants=c1, trace_constants=T(c1, obs), driver_args=[lib, util, "file", "A,B,U1"]),
        dict(name="c14-util", constants=c2, trace_constants=T(c2, obs), driver_args=[lib, util, "file", "U1,U2,B"]),
        dict(name="c14-iso", constants=c3, trace_constants=T(c3, obs), driver_args=[lib, util, "file", "A,B"]),
    ]
    # the PIN status flags multiply the states: a bounded number of walks per graph is replayed
    for g in graphs:
        g["maxwalks"] = 1500 if quick else 8000
        g["pairs"] = 150 if quick else 5000
    if not quick:
        c4 = C(MaxTok="3", Acts='{"init", "restart", "util", "sess", "obj"}', MaxH="1", MaxObj="2", Labs='{"L1"}',
               PinSyms='{"U1", "B"}', NewPins='{"U1"}')
        graphs.append(dict(name="c14-three", constants=c4, trace_constants=T(c4, obs),
                           driver_args=[lib, util, "file", "U1,B"], maxwalks=8000))
        for g in list(graphs):
            g["variants"] = [("", []), ("-db", [])]
        # the SQLite backend: same graphs, objectstore.backend = db
        graphs = [dict(g, variants=[("", [])]) for g in graphs] + \
                 [dict(g, name=g["name"] + "-db", driver_args=[lib, util, "db"] + g["driver_args"][3:],
                       variants=[("", [])]) for g in graphs[:3]]
    r = pipeline.graphs_replay(ctx, "MC_Tok", "Trace_Tok", "vf.drv_tok", graphs, INV, PROPS, maxlen=40)
    fill(ctx, res, r, dict(
        rule="every transition of the bounded P11Tok graphs (C_InitToken fresh / re-init with right and wrong SO PIN, "
             "with and without sessions, softhsm2-util --init-token / --delete-token, sessions, PIN and object "
             "operations, C_Finalize/C_Initialize) is executed; after every action the token directory is also opened "
             "by a new process and TLC compares slot list, labels, slot-from-serial, flags, which PINs log in, and "
             "the objects of EVERY token with the specification."))
    ctx.assumptions += ["softhsm2-util acts only while the library is finalised", "2 (quick) or 3 (thorough) tokens"]


def c04(ctx):
    bdir = build.build("ossl", ("softhsm2", "softhsm2-util"))
    lib, util = build.libpath(bdir), build.utilpath(bdir)
    quick = ctx.tier == "quick"
    near = '{"A", "B", "Apre", "Aext", "Aflip", "Anul"}'
    wide = C(MaxTok="1", Acts='{"init", "restart", "sess", "pin", "obj"}', MaxH="2", MaxObj="1",
             PinSyms='{"A", "B", "C", "Apre"}', NewPins='{"A", "B", "C", "short", "long"}', Labs='{"L1"}')
    res, _ = pipeline.model_check(ctx, "MC_Tok", "c04-wide", wide, invariants=INV, properties=PROPS, timeout=3000,
                                  view="ViewNoLow")
    obs = ["live", "fresh", "pins", "objs"]
    allpins = "A,B,C,Apre,Aext,Aflip,Anul,short,long,empty"
    c1 = C(MaxTok="1", Acts='{"init", "restart", "sess", "pin", "obj"}', MaxH="2", MaxObj="1",
           PinSyms='{"A", "B", "Apre", "Aflip"}', NewPins='{"A", "B", "short"}', Labs='{"L1"}')
    c2 = C(MaxTok="1", Acts='{"init", "sess", "pin"}', MaxH="1", MaxObj="0", PinSyms='{"A", "B", "Apre", "Aext", "Aflip", "Anul", "empty", "long"}',
           NewPins='{"A", "Aext", "long", "empty"}', Labs='{"L1"}')
    graphs = [
        dict(name="c04-hist", constants=c1, trace_constants=T(c1, obs), driver_args=[lib, util, "file", allpins]),
        dict(name="c04-near", constants=c2, trace_constants=T(c2, obs), driver_args=[lib, util, "file", allpins],
             variants=[("-k%d" % i, [], 1000 * i) for i in range(3 if quick else 50)]),
    ]
    for g in graphs:
        g["maxwalks"] = 1500 if quick else 8000
        g["pairs"] = 150 if quick else 5000
    if not quick:
        graphs.append(dict(name="c04-hist-db", constants=c1, trace_constants=T(c1, obs),
                           driver_args=[lib, util, "db", allpins], maxwalks=8000))
    r = pipeline.graphs_replay(ctx, "MC_Tok", "Trace_Tok", "vf.drv_tok", graphs, INV, PROPS, maxlen=40)
    fill(ctx, res, r, dict(
        pin_symbols=allpins.split(","),
        rule="histories of C_InitToken, C_InitPIN, C_SetPIN (RW public, RW user, SO, RO sessions), C_Login and restarts "
             "over PIN symbols whose byte strings are drawn per seed with the promised relations (proper prefix, "
             "extension, one-bit neighbour, embedded NUL, non-ASCII, leading NUL, too short, too long, empty); after "
             "every call a NEW PROCESS tries every symbol as SO and as user PIN on the token and reads the private "
             "sentinel object; TLC demands that exactly the current PINs authenticate and the object is intact."))
    ctx.assumptions += ["'iff' over all byte strings is sampled through the named relations, not enumerated",
                        "a wrong PIN is accepted by the blob check with probability about 2^-24 by construction"]
    # "C_SetPIN only with the correct old PIN" when two threads change the PIN at once: of two C_SetPIN calls that name the
    # same old PIN only one can find it current (ConcTok: the calls take effect one at a time, in some order)
    if not ctx.violations:
        import random
        from checks import conc
        tot = conc.new_tot()
        tcs = dict(Threads=conc.THREADS, PinSyms='{"P0", "P1", "P2", "PX"}', InitPin='"P0"', Dev="{}")
        for combo in ([("Lp,Lq", 2, 2500, False, True)] if quick else
                      [("Lp,Lq", 2, 20000, False, True), ("Lr,Lx", 2, 20000, False, True), ("Lp,Lq", 1, 5000, True, True)]):
            if not ctx.violations:
                conc.run_combo(ctx, lib, combo, None, tcs, random.Random(ctx.seed), tot, tagp="c04-")
        ctx.coverage["concurrent_setpin"] = dict(
            schedules=tot["schedules"], executions=tot["executions"], accepted=tot["accepted"], calls=tot["calls"],
            rule="two threads, each with its own session, change the user PIN at once (scheduler at the mutex callbacks, all "
                 "two-preemption schedules); ConcTok (linearizability) decides which results are possible")
        ctx.coverage["traces_validated_against_impl"] += tot["accepted"]
