"""Checks decided by P11Policy: C08 (attribute policy, history attributes) and C02 (protected key material)."""
from vf import build, pipeline

INV = ["HistoryTruth", "HistoryConsistent"]
PROPS = ["OneWay", "Frozen", "NotDestroyable", "FailedNoEffect", "TrustedOnlyBySO"]


def C(acts, maxobj, level, mechs='{"enc", "catd", "catk"}'):
    return dict(MaxObj=str(maxobj), Acts=acts, Mechs=mechs, Level='"%s"' % level)


def run(ctx, wide, graphs, rule):
    lib = build.libpath(build.build("ossl"))
    res, _ = pipeline.model_check(ctx, "MC_Policy", ctx.prop.lower() + "-wide", wide, invariants=INV, properties=PROPS,
                                  timeout=3000)
    gl = []
    for name, c, classes in graphs:
        gl.append(dict(name=name, constants=c, trace_constants={}, driver_args=[lib],
                       variants=[("-" + k, [k]) for k in classes], pairs=300 if ctx.tier == "quick" else 20000))
    r = pipeline.graphs_replay(ctx, "MC_Policy", "Trace_Policy", "vf.drv_policy", gl, INV, PROPS, maxlen=40)
    ctx.coverage.update(dict(
        states=res.distinct + r["states"], transitions=res.generated + r["transitions"],
        traces_validated_against_impl=r["accepted"], executions=r["executions"], events_validated=r["events"],
        model_transitions_replayed=r["edges_replayed"], model_transitions_in_replayed_graphs=r["edges_total"],
        exhaustive=(r["edges_replayed"] == r["edges_total"]), calls_ok_failed_by_action=r["okcount"],
        key_classes=sorted(set(k for _, _, cl in graphs for k in cl)),
        transition_pairs=dict(replayed=r.get("pairs_replayed", 0), in_graphs=r.get("pairs_total", 0)),
        samples=[s[:4] for s in r["samples"][:1]], rule=rule))
    ctx.assumptions += ["token objects are used (the rollback of session objects is the subject of C09)",
                        "one-attribute and short mixed templates from the sets in MC_Policy.tla"]


def c08(ctx):
    quick = ctx.tier == "quick"
    acts = '{"gen", "imp", "der", "set", "copy", "destroy", "login", "trust"}'
    actsp = '{"gen", "imp", "der", "set", "copy", "destroy", "priv", "trust"}'
    actsk = '{"gen", "imp", "der", "set", "copy", "destroy"}'
    # (quick: three objects with the small template sets; the full sets are model checked with two objects in the graphs)
    wide = C('{"gen", "imp", "der", "set", "copy", "destroy", "get", "wrap", "login", "trust"}', 3, "small" if quick else "full")
    if quick:
        graphs = [("c08-full2", C(acts, 2, "full"), ["aes"]),
                  ("c08-priv2", C(actsp, 2, "full"), ["generic"]),
                  ("c08-ec", C(actsk, 2, "small", '{"enc"}'), ["ecpriv"])]
    else:
        graphs = [("c08-full2", C(acts, 2, "full"), ["aes", "generic", "des3"]),
                  ("c08-priv2", C(actsp, 2, "full"), ["aes", "generic"]),
                  ("c08-small3", C(acts, 3, "small"), ["aes"]),
                  ("c08-ec", C(actsk, 2, "full", '{"enc"}'), ["ecpriv"]),
                  ("c08-rsa", C('{"gen", "imp", "set", "copy", "destroy"}', 2, "small"), ["rsapriv"])]
    run(ctx, wide, graphs,
        "P11Policy.tla transcribes the attribute rule engine (footnote masks, one-way flags, the fix-up of generate / "
        "create / unwrap / derive) and carries ghost fields with what PKCS#11 says the history attributes must be; "
        "following the precedent of transcribing a rich pure function, every transition of the bounded graph is one "
        "implementation test per key class: the call is executed and ALL policy and history attributes of every "
        "live object are read back and compared by TLC.")
    if not ctx.violations:
        defaults(ctx)


def c02(ctx):
    quick = ctx.tier == "quick"
    acts = '{"gen", "imp", "der", "set", "copy", "get", "wrap"}'
    wide = C('{"gen", "imp", "der", "set", "copy", "destroy", "get", "wrap", "login", "trust"}', 3, "small" if quick else "full")
    if quick:
        graphs = [("c02-small2", C(acts, 2, "small"), ["aes"]),
                  ("c02-ec", C(acts, 2, "small", '{"enc"}'), ["ecpriv"]),
                  ("c02-full2", C('{"gen", "imp", "der", "set", "copy", "get", "wrap"}', 2, "full"), ["generic"])]
    else:
        graphs = [("c02-full2", C('{"gen", "imp", "der", "set", "copy", "get", "wrap", "priv"}', 2, "full"), ["aes", "generic", "des3"]),
                  ("c02-small3", C(acts, 3, "small"), ["aes", "generic"]),
                  ("c02-ec", C(acts, 2, "full", '{"enc"}'), ["ecpriv"]),
                  ("c02-rsa", C('{"gen", "imp", "set", "copy", "get", "wrap"}', 2, "small"), ["rsapriv"])]
    run(ctx, wide, graphs,
        "every reachable history of the flags S/E/W over a key, its copies and keys derived from it (concatenation "
        "and other mechanisms) within the bounds; for each state every secret attribute of the class is read alone "
        "and mixed with other attributes with NULL / too small / exact / larger buffers and the key is wrapped under "
        "a trusted and an untrusted wrapping key; TLC demands CKR_ATTRIBUTE_SENSITIVE + unavailable length + "
        "untouched buffer exactly when the model says the key is protected, refusal of the wraps the model forbids, "
        "and that no output buffer contains an 8-byte window of a protected value.")
    if not ctx.violations:
        concurrent_read(ctx)


def concurrent_read(ctx):
    """C02 "no call returns ...": also a C_GetAttributeValue(CKA_VALUE) of one thread while the refused C_SetAttributeValue of
    another thread on the same sensitive session key is being rolled back (ConcTok: mksens / badset / readsens)."""
    import random
    from checks import conc
    quick = ctx.tier == "quick"
    lib = build.libpath(build.build("ossl"))
    tot = conc.new_tot()
    tcs = dict(Threads=conc.THREADS, PinSyms='{"P0", "P1", "P2", "PX"}', InitPin='"P0"', Dev="{}")
    for combo in ([("Ls,Lg", 2, 2500, False, True)] if quick else
                  [("Ls,Lg", 2, 30000, False, True), ("Ls,Lg", 1, 20000, True, True)]):
        if not ctx.violations:
            conc.run_combo(ctx, lib, combo, None, tcs, random.Random(ctx.seed), tot, tagp="c02-")
    ctx.coverage["concurrent_read_of_sensitive_key"] = dict(
        schedules=tot["schedules"], executions=tot["executions"], accepted=tot["accepted"],
        rule="one thread makes a sensitive, unextractable session key and has changes to it refused (rolled back), another "
             "thread reads CKA_VALUE through its own session at every scheduling point of the first: always "
             "CKR_ATTRIBUTE_SENSITIVE, never a byte of the value")
    ctx.coverage["traces_validated_against_impl"] += tot["accepted"]


def defaults(ctx):
    """Beyond the listed properties (P11Defaults.tla): default attribute values per object class; rejections go to the notes."""
    import random
    from vf import walker
    lib = build.libpath(build.build("ossl"))
    res, g = pipeline.model_check(ctx, "P11Defaults", "defaults", {}, invariants=["Sane"], dump=True)
    walks, cov, tot = walker.edge_cover(g, maxlen=10, rng=random.Random(ctx.seed))
    st = pipeline.replay_validate(ctx, "defaults", "vf.drv_defaults", [lib], walks, "Trace_Defaults", {}, jobs=2)
    for rj in st.rejected:
        ctx.notes.append("P11Defaults (beyond the listed properties): trace rejected at %s" % rj["event"][:400])
    ctx.coverage["beyond_listed_properties"] = dict(
        module="P11Defaults", classes=5, executions=st.executions, accepted=st.accepted,
        what="attribute values after C_CreateObject with the smallest template of each class (data, X.509 certificate, RSA "
             "public / private key, AES key) against one table")
