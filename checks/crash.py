"""C16: a crash at any point leaves the token usable and loses nothing committed (StoreFS + fsshim)."""
import json
import os
import re
import shutil
import subprocess
import sys

from vf import build, tlc
from vf.check import ROOT, Broken, active_known
from vf.tlc import tla_set

SCENARIOS = ["SetAttrPublic", "SetAttrPrivate", "SetAttrShrink", "LoginWrongUser", "LoginWrongSO", "LoginRightAfterWrong",
             "InitPIN", "SetPINSO", "SetPINUser", "CreateObjectPublic", "CreateObjectPrivate", "GenerateKey",
             "GenerateKeyPair", "CopyObject", "DestroyObject", "DeriveKey", "UnwrapKey", "InitTokenFresh", "InitTokenReinit",
             "ReadAll", "ReadAllRO"]
QUICK = ["SetAttrPublic", "SetAttrPrivate", "SetAttrShrink", "LoginWrongUser", "LoginRightAfterWrong", "InitPIN",
         "SetPINUser", "CreateObjectPrivate", "GenerateKeyPair", "CopyObject", "DestroyObject", "InitTokenFresh",
         "InitTokenReinit", "ReadAll", "ReadAllRO"]
DEVIATIONS = {"EmptyObject", "EmptyToken", "PartialCreate", "PartialNewToken"}


def shim_path():
    p = os.path.join(ROOT, "build", "fsshim.so")
    if not os.path.exists(p):
        r = subprocess.run([os.path.join(ROOT, "bin", "setup.sh")], cwd=ROOT, stdout=subprocess.PIPE, stderr=subprocess.STDOUT)
        if not os.path.exists(p):
            raise Broken("fsshim.so is not built (bin/setup.sh): " + r.stdout.decode()[-500:])
    return p


def c16(ctx):
    lib = build.libpath(build.build("ossl"))
    shim = shim_path()
    quick = ctx.tier == "quick"
    scen = QUICK if quick else SCENARIOS
    known = {e["deviation"]: e for e in active_known(ctx.known) if e.get("deviation") in DEVIATIONS}
    # 1. the protocol and crash model at design level (StoreMP): the required variant holds, the as-built one does not
    mc = design_model(ctx)
    # 2. every crash point of every scenario on the real library
    wd = ctx.sub("crash")
    sfile = os.path.join(wd, "sc.json")
    json.dump(scen, open(sfile, "w"))
    out = os.path.join(wd, "out.ndjson")
    env = dict(os.environ, PYTHONPATH=ROOT)
    r = subprocess.run([sys.executable, "-m", "vf.drv_crash", lib, sfile, out, os.path.join(wd, "w"), str(ctx.seed), "crash",
                        shim, "15"], cwd=ROOT, env=env, stdout=subprocess.PIPE, stderr=subprocess.PIPE, timeout=3000)
    if r.returncode != 0 or not os.path.exists(out):
        raise Broken("crash driver failed: " + r.stderr.decode()[-800:])
    # 2b. torn writes: the new object's file cut at EVERY byte offset
    tout = os.path.join(wd, "torn.ndjson")
    r = subprocess.run([sys.executable, "-m", "vf.drv_crash", lib, sfile, tout, os.path.join(wd, "wt"), str(ctx.seed), "torn",
                        shim, "15"], cwd=ROOT, env=env, stdout=subprocess.PIPE, stderr=subprocess.PIPE, timeout=3000)
    if r.returncode != 0 or not os.path.exists(tout):
        raise Broken("torn-write driver failed: " + r.stderr.decode()[-800:])
    with open(out, "a") as f:
        f.write(open(tout).read())
    events = [json.loads(l) for l in open(out)]
    n = len(events)
    torn = [e for e in events if e["e"] == "Torn"]
    if len(torn) < 100:
        raise Broken("torn-write sweep produced only %d cuts" % len(torn))
    ctx.log("crash exploration: %d scenarios, %d crash points, %d torn-write cuts" % (len(scen), sum(1 for e in events if e["e"] == "Crash"),
                                                                                   len(torn)))
    # 3. TLC decides: required model + the deviations of the known findings
    rejected = []
    devs_used = {}
    cur = out
    lines = open(out).readlines()
    for rounds in range(12):
        cfg = os.path.join(wd, "trace%d.cfg" % rounds)
        tlc.write_cfg(cfg, spec="TSpec", constants={"Dev": tla_set(sorted(known)), "Judge": '"both"'}, constraint="TrackMax",
                      postcondition="TraceAccepted")
        vd = os.path.join(wd, "v%d" % rounds)
        os.makedirs(vd)
        nev = sum(1 for _ in open(cur))
        try:
            res = tlc.validate_trace("Trace_Crash", cfg, cur, vd, nev, xmx="6g", env={"JAVA_TOOL_OPTIONS": "-Xss256m"})
        except tlc.TLCBroken as e:
            raise Broken(str(e))
        for m in re.finditer(r'<<"DEV", "(\w+)", "(\w+)", (\d+)>>', res.output):
            devs_used.setdefault(m.group(1), set()).add((m.group(2), int(m.group(3))))
        if res.accepted:
            break
        cl = open(cur).readlines()
        bad = json.loads(cl[res.matched])
        rejected.append(bad)
        nxt = os.path.join(wd, "rest%d.ndjson" % rounds)
        with open(nxt, "w") as f:
            f.writelines(cl[:res.matched] + cl[res.matched + 1:])
        cur = nxt
    for dev, uses in sorted(devs_used.items()):
        e = known[dev]
        ctx.known_finding(e["id"], "%s [%d crash points in %s]" % (e["scope"], len(uses),
                                                                 ", ".join(sorted(set(s for s, k in uses)))))
    for bad in rejected[:5]:
        d = ctx.new_replay_dir("crash")
        log = [e for e in events if e["e"] == "Log" and e["scenario"] == bad.get("scenario")]
        with open(os.path.join(d, "trace.ndjson"), "w") as f:
            for e in log + [bad]:
                f.write(json.dumps(e) + "\n")
        with open(os.path.join(d, "info.json"), "w") as f:
            json.dump(dict(property="C16", kind="crash", scenario=bad.get("scenario"), k=bad.get("k"),
                           dev=sorted(known)), f)
        if bad.get("e") == "Torn":
            what = "the file of the object being created cut after %d of %d bytes (%s): recovery %s - a damaged file is " \
                   "taken for an object" % (bad["L"], bad["size"], "at a record start" if bad["boundary"] else
                                            "inside an attribute record", json.dumps(bad.get("rec"))[:200])
        elif bad.get("e") == "Log":
            what = "the file-operation sequence of %s is not a behaviour of the StoreFS protocol" % bad.get("scenario")
        else:
            ops = log[0]["ops"] if log else []
            k = bad.get("k", 0)
            what = "death before operation %d (%s) of %s: recovery %s is neither old nor new, nor a listed finding" % (
                k, ":".join(ops[k - 1][:2]) if 0 < k <= len(ops) else "?", bad.get("scenario"),
                json.dumps(bad.get("rec"))[:200])
        ctx.violation(what, d)
    crash_events = [e for e in events if e["e"] == "Crash"]
    ctx.coverage.update(dict(
        evaluations=len(crash_events), distinct_nontrivial=len(crash_events),
        states=mc["states"], transitions=mc["transitions"], traces_validated_against_impl=len(scen),
        torn_write_cuts=len(torn), torn_write_cuts_inside_a_record=sum(1 for e in torn if not e["boundary"]),
        scenarios=scen, crash_points_per_scenario={e["scenario"]: len(e["ops"]) for e in events if e["e"] == "Log"},
        deviations_used={k: len(v) for k, v in devs_used.items()},
        samples=[dict(scenario=e["scenario"], ops=e["ops"][:20]) for e in events if e["e"] == "Log"][:2] +
                [dict(e) for e in crash_events[:1]],
        exhaustive=True,
        rule="for every listed writing call the LD_PRELOAD shim records its file-system operations (validated against "
             "the StoreFS protocol) and then kills the process immediately before EVERY operation k; a fresh, "
             "time-limited process recovers; TLC (Trace_Crash over StoreFS) computes what each file holds at k and "
             "demands: opens without crash or hang, untouched objects and both PINs intact, written objects old or new "
             "(created: absent), else exactly a deviation listed as known finding. Every crash point is distinct. Torn "
             "writes: the new object's file cut at every byte offset; a cut inside an attribute record must leave the object "
             "absent and everything else intact."))
    ctx.assumptions += ["process death, not power loss (no fsync in the code); stdio's internal writes of values larger "
                        "than the buffer are not interposable: objects stay below 4 kB",
                        "file backend (the SQLite backend delegates atomicity to SQLite's journal)"]


def design_model(ctx):
    from vf import pipeline
    c_req = dict(Procs="{1, 2}", NCalls="2", Kinds='{"set", "destroy", "get", "find"}', Reload="{TRUE}", Recreate="{FALSE}",
                 Atomic="TRUE")
    res, _ = pipeline.model_check(ctx, "StoreMP", "storemp-required", c_req, spec="CrashSpec",
                                  invariants=["NoLostCommittedUpdate", "CrashOldOrNew", "DestroyedStaysDestroyed"],
                                  timeout=1200)
    return dict(states=res.distinct, transitions=res.generated)


# ------------------------------------------------------------------------------------------------ failing file operations
FAULT_DEVS = {"OkButNotStored", "FaultNotAtomic"}
FAULT_QUICK = ["SetAttrPublic", "SetAttrPrivate", "CreateObjectPublic", "DestroyObject", "CopyObject"]
FAULT_ALL = FAULT_QUICK + ["CreateObjectPrivate", "SetAttrShrink", "GenerateKey", "InitPIN", "SetPINUser"]


def fault_part(ctx, judge):
    """The fault clauses of C05 (judge "ok": a call that returned CKR_OK has persisted its effect) and C09 (judge "err": a
    call that returned an error changed nothing): every file operation of every listed writing call is made to fail once
    (the shim's fault mode; a failed flush loses the buffered data), the call goes on, a fresh process looks at the token.
    Returns statistics; reports violations / known findings on ctx."""
    lib = build.libpath(build.build("ossl"))
    shim = os.path.join(ROOT, "build", "fsshim.so")
    if not os.path.exists(shim):
        raise Broken("build/fsshim.so is missing: run bin/setup.sh")
    scen = FAULT_QUICK if ctx.tier == "quick" else FAULT_ALL
    known = {e["deviation"]: e for e in active_known(ctx.known) if e.get("deviation") in FAULT_DEVS}
    wd = ctx.sub("fault")
    sfile = os.path.join(wd, "sc.json")
    json.dump(scen, open(sfile, "w"))
    out = os.path.join(wd, "out.ndjson")
    r = subprocess.run([sys.executable, "-m", "vf.drv_crash", lib, sfile, out, os.path.join(wd, "w"), str(ctx.seed), "fault",
                        shim, "15"], cwd=ROOT, env=dict(os.environ, PYTHONPATH=ROOT), stdout=subprocess.PIPE,
                       stderr=subprocess.PIPE, timeout=3000)
    if r.returncode != 0 or not os.path.exists(out):
        raise Broken("fault driver failed: " + r.stderr.decode()[-800:])
    events = [json.loads(l) for l in open(out)]
    cur, devs_used, rejected = out, {}, []
    for rounds in range(12):
        cfg = os.path.join(wd, "trace%d.cfg" % rounds)
        tlc.write_cfg(cfg, spec="TSpec", constants={"Dev": tla_set(sorted(known)), "Judge": '"%s"' % judge},
                      constraint="TrackMax", postcondition="TraceAccepted")
        vd = os.path.join(wd, "v%d" % rounds)
        os.makedirs(vd)
        nev = sum(1 for _ in open(cur))
        try:
            res = tlc.validate_trace("Trace_Crash", cfg, cur, vd, nev, xmx="6g", env={"JAVA_TOOL_OPTIONS": "-Xss256m"})
        except tlc.TLCBroken as e:
            raise Broken(str(e))
        for m in re.finditer(r'<<"DEV", "(\w+)", "(\w+)", (\d+)>>', res.output):
            devs_used.setdefault(m.group(1), set()).add((m.group(2), int(m.group(3))))
        if res.accepted:
            break
        cl = open(cur).readlines()
        rejected.append(json.loads(cl[res.matched]))
        nxt = os.path.join(wd, "rest%d.ndjson" % rounds)
        with open(nxt, "w") as f:
            f.writelines(cl[:res.matched] + cl[res.matched + 1:])
        cur = nxt
    for dev, uses in sorted(devs_used.items()):
        e = known[dev]
        ctx.known_finding(e["id"], "%s [%d fault points in %s]" % (e["scope"], len(uses), ", ".join(sorted(set(s for s, k in uses)))))
    for bad in rejected[:5]:
        d = ctx.new_replay_dir("fault")
        log = [e for e in events if e["e"] == "Log" and e["scenario"] == bad.get("scenario")]
        with open(os.path.join(d, "trace.ndjson"), "w") as f:
            for e in log + [bad]:
                f.write(json.dumps(e) + "\n")
        with open(os.path.join(d, "info.json"), "w") as f:
            json.dump(dict(property=ctx.prop, kind="fault", scenario=bad.get("scenario"), k=bad.get("k"), judge=judge,
                           dev=sorted(known)), f)
        ops = log[0]["ops"] if log else []
        k = bad.get("k", 0)
        ctx.violation("operation %d (%s) of %s made to fail: the call returned %s and a fresh process sees %s" % (
            k, ":".join(ops[k - 1][:2]) if 0 < k <= len(ops) else "?", bad.get("scenario"), bad.get("rv"),
            "neither the old nor the new state" if bad.get("rv") != "OK" else "not the new state"), d)
    faults = [e for e in events if e["e"] == "Fault" and e.get("hit")]
    return dict(fault_points=len(faults), scenarios=scen, returned_ok=sum(1 for e in faults if e["rv"] == "OK"),
                returned_error=sum(1 for e in faults if e["rv"] != "OK"),
                deviations_used={k: len(v) for k, v in devs_used.items()})
